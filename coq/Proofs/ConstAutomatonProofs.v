(* C16 -- proofs about the const automaton (coq/Model/ConstAutomaton.v).

   The one-step facts are checked over ALL rows of the kind-level table
       kind (93) x dimensionality class (4) x top-const (2) x category (2) x operation (99)
   by vm_compute of a forallb, and lifted to universally quantified statements with forallb_forall
   (the finite domains are the lists all_kinds, all_dcls, bools, all_cats, all_ops, each proved
   exhaustive).  The statements about paths are by induction on the path, for every length and every
   dimensionality (states carry D : nat; a step sees D only through its class 0 | 1 | 2 | >= 3). *)
From Coq Require Import List Bool Arith Lia.
Import ListNotations.
From BM Require Import Model.ConstAutomaton.

(* ---- the finite domains are exhaustive ---- *)
Lemma in_bools : forall b : bool, In b bools.
Proof. destruct b; cbn; auto. Qed.

Ltac in_list := vm_compute; repeat (first [left; reflexivity | right]); fail.

Lemma in_all_kinds : forall k, In k all_kinds.
Proof.
  destruct k;
    repeat match goal with
           | x : pfam |- _ => destruct x
           | x : tk |- _ => destruct x
           | x : apf |- _ => destruct x
           | x : bool |- _ => destruct x
           end; in_list.
Qed.

Lemma in_all_dcls : forall dc, In dc all_dcls.
Proof. destruct dc; vm_compute; tauto. Qed.

Lemma in_all_cats : forall ct, In ct all_cats.
Proof. destruct ct; vm_compute; tauto. Qed.

Lemma in_all_ops : forall o, In o all_ops.
Proof.
  destruct o;
    repeat match goal with
           | x : form |- _ => destruct x
           | x : vtarget |- _ => destruct x
           | x : bool |- _ => destruct x
           end; in_list.
Qed.

(* a predicate checked on every row of the kind-level table *)
Definition all_rows_k (f : kind -> dcl -> bool -> cat -> aop -> bool) : bool :=
  forallb (fun k => forallb (fun dc => forallb (fun c => forallb (fun ct => forallb (fun o =>
    f k dc c ct o) all_ops) all_cats) bools) all_dcls) all_kinds.

Lemma all_rows_k_spec :
  forall f, all_rows_k f = true -> forall k dc c ct o, f k dc c ct o = true.
Proof.
  intros f H k dc c ct o. unfold all_rows_k in H.
  rewrite forallb_forall in H. specialize (H k (in_all_kinds k)).
  rewrite forallb_forall in H. specialize (H dc (in_all_dcls dc)).
  rewrite forallb_forall in H. specialize (H c (in_bools c)).
  rewrite forallb_forall in H. specialize (H ct (in_all_cats ct)).
  rewrite forallb_forall in H. exact (H o (in_all_ops o)).
Qed.

(* ---- one-step invariant 1: a read-only receiver yields a read-only result, except at the holes ---- *)
Definition inv_ro_row (k : kind) (dc : dcl) (c : bool) (ct : cat) (o : aop) : bool :=
  match astep_k k dc c ct o with
  | inl (RT k' _ c' _) => implb (ro_k k c && negb (hole_k k (ge2 dc) o)) (ro_k k' c')
  | _ => true
  end.

Lemma inv_ro_all : all_rows_k inv_ro_row = true.
Proof. vm_compute. reflexivity. Qed.

(* ---- one-step invariant 2: nothing read-only accepts a mutator ---- *)
Definition is_rmut (r : kres + outcome) : bool :=
  match r with inl RMut => true | inr Mut => true | _ => false end.

Definition inv_nowrite_row (k : kind) (dc : dcl) (c : bool) (ct : cat) (o : aop) : bool :=
  implb (ro_k k c) (negb (is_rmut (astep_k k dc c ct o))).

Lemma inv_nowrite_all : all_rows_k inv_nowrite_row = true.
Proof. vm_compute. reflexivity. Qed.

(* ---- one-step invariant 3: a mutability-keeping step on a mutable receiver yields a mutable result ---- *)
Definition inv_mut_row (k : kind) (dc : dcl) (c : bool) (ct : cat) (o : aop) : bool :=
  match astep_k k dc c ct o with
  | inl (RT k' _ c' _) => implb (negb (ro_k k c) && keeps_mut_k k ct o) (negb (ro_k k' c'))
  | _ => true
  end.

Lemma inv_mut_all : all_rows_k inv_mut_row = true.
Proof. vm_compute. reflexivity. Qed.

(* ---- one-step invariant 4: a mutable element lvalue, view, array or element range accepts a mutator ---- *)
Definition writable_k (k : kind) (dc : dcl) (c : bool) (ct : cat) : bool :=
  existsb (fun m => is_rmut (astep_k k dc c ct m)) mutators.

Definition inv_write_row (k : kind) (dc : dcl) (c : bool) (ct : cat) (o : aop) : bool :=
  implb (negb (ro_k k c) && assignable_k k ct) (writable_k k dc c ct).

Lemma inv_write_all : all_rows_k inv_write_row = true.
Proof. vm_compute. reflexivity. Qed.

(* ---- from the kind level to states ---- *)
Lemma astep_k_inr :
  forall k dc c ct o out, astep_k k dc c ct o = inr out -> out = NA \/ out = No.
Proof.
  intros k dc c ct o out H. unfold astep_k in H.
  destruct o; try discriminate;
    repeat match type of H with
           | (if ?b then _ else _) = _ => destruct b
           | match ?x with _ => _ end = _ => destruct x
           end; inversion H; auto.
Qed.

Lemma astep_to :
  forall s o s', astep s o = To s' ->
    exists k' dd c' ct', astep_k (sk s) (dcls (sd s)) (sc s) (scat s) o = inl (RT k' dd c' ct')
                         /\ s' = mkSt k' (shift dd (sd s)) c' ct'.
Proof.
  intros s o s' H. unfold astep in H.
  destruct (astep_k (sk s) (dcls (sd s)) (sc s) (scat s) o) as [r | out] eqn:E.
  - destruct r; try discriminate. inversion H; subst. eauto 8.
  - subst. destruct (astep_k_inr _ _ _ _ _ _ E); discriminate.
Qed.

Lemma astep_mut_k :
  forall s o, astep s o = Mut -> is_rmut (astep_k (sk s) (dcls (sd s)) (sc s) (scat s) o) = true.
Proof.
  intros s o H. unfold astep in H.
  destruct (astep_k (sk s) (dcls (sd s)) (sc s) (scat s) o) as [r | out] eqn:E.
  - destruct r; try discriminate; reflexivity.
  - subst. reflexivity.
Qed.

Lemma k_mut_astep :
  forall s o, is_rmut (astep_k (sk s) (dcls (sd s)) (sc s) (scat s) o) = true -> astep s o = Mut.
Proof.
  intros s o H. unfold astep.
  destruct (astep_k (sk s) (dcls (sd s)) (sc s) (scat s) o) as [r | out] eqn:E.
  - destruct r; try discriminate; reflexivity.
  - destruct out; try discriminate; reflexivity.
Qed.

Lemma writable_eq_k :
  forall s, writable s = writable_k (sk s) (dcls (sd s)) (sc s) (scat s).
Proof.
  intros s. unfold writable, writable_k.
  induction mutators as [ | m tl IH]; cbn [existsb]; [reflexivity | ].
  rewrite IH. f_equal.
  destruct (is_rmut (astep_k (sk s) (dcls (sd s)) (sc s) (scat s) m)) eqn:E.
  - rewrite (k_mut_astep _ _ E). reflexivity.
  - destruct (is_mut (astep s m)) eqn:F; [ | reflexivity].
    destruct (astep s m) eqn:G; try discriminate.
    rewrite (astep_mut_k _ _ G) in E. discriminate.
Qed.

(* ---- the step lemmas ---- *)
Lemma ro_step :
  forall s o s', ro s = true -> hole s o = false -> astep s o = To s' -> ro s' = true.
Proof.
  intros s o s' Hro Hh Hs.
  destruct (astep_to _ _ _ Hs) as (k' & dd & c' & ct' & E & ->).
  pose proof (all_rows_k_spec _ inv_ro_all (sk s) (dcls (sd s)) (sc s) (scat s) o) as R.
  unfold inv_ro_row in R. rewrite E in R.
  unfold ro in *. unfold hole in Hh. rewrite Hro, Hh in R. cbn in R. exact R.
Qed.

Lemma ro_not_writable : forall s, ro s = true -> writable s = false.
Proof.
  intros s Hro. rewrite writable_eq_k. unfold writable_k.
  apply not_true_is_false. intros H. apply existsb_exists in H. destruct H as (m & _ & Hm).
  pose proof (all_rows_k_spec _ inv_nowrite_all (sk s) (dcls (sd s)) (sc s) (scat s) m) as R.
  unfold inv_nowrite_row in R. unfold ro in Hro. rewrite Hro, Hm in R. discriminate.
Qed.

Lemma mut_step :
  forall s o s', ro s = false -> keeps_mut s o = true -> astep s o = To s' -> ro s' = false.
Proof.
  intros s o s' Hro Hk Hs.
  destruct (astep_to _ _ _ Hs) as (k' & dd & c' & ct' & E & ->).
  pose proof (all_rows_k_spec _ inv_mut_all (sk s) (dcls (sd s)) (sc s) (scat s) o) as R.
  unfold inv_mut_row in R. rewrite E in R.
  unfold ro in *. unfold keeps_mut in Hk. rewrite Hro, Hk in R. cbn in R.
  apply negb_true_iff in R. exact R.
Qed.

Lemma mutable_writable :
  forall s, ro s = false -> assignable_thing s = true -> writable s = true.
Proof.
  intros s Hro Ha. rewrite writable_eq_k.
  pose proof (all_rows_k_spec _ inv_write_all (sk s) (dcls (sd s)) (sc s) (scat s) AIndex) as R.
  unfold inv_write_row in R. unfold ro in Hro. unfold assignable_thing in Ha. rewrite Hro, Ha in R. exact R.
Qed.

(* ---- paths of any length ---- *)
Theorem const_propagates_proved :
  forall (p : list aop) (s s' : state),
    ro s = true -> clean_path p s = true -> run_path p s = Some s' ->
    ro s' = true /\ writable s' = false.
Proof.
  induction p as [ | o tl IH]; intros s s' Hro Hc Hr.
  - cbn in Hr. inversion Hr; subst. split; [exact Hro | exact (ro_not_writable _ Hro)].
  - cbn [run_path] in Hr. cbn [clean_path] in Hc.
    destruct (astep s o) as [s1 | | | | | | | | ] eqn:E; try discriminate.
    apply andb_true_iff in Hc. destruct Hc as [Hh Hc]. apply negb_true_iff in Hh.
    exact (IH s1 s' (ro_step _ _ _ Hro Hh E) Hc Hr).
Qed.

Lemma const_root_ro : forall s, const_root s = true -> ro s = true.
Proof.
  intros [k d c ct] H. unfold const_root, is_root in H. cbn in H.
  repeat (apply andb_true_iff in H; destruct H as [H ?]). subst.
  unfold ro. cbn.
  destruct k; repeat match goal with
                     | x : pfam |- _ => destruct x
                     | x : tk |- _ => destruct x
                     | x : apf |- _ => destruct x
                     | x : bool |- _ => destruct x
                     end; cbn in *; try discriminate; reflexivity.
Qed.

Lemma mutable_root_not_ro : forall s, mutable_root s = true -> ro s = false.
Proof.
  intros [k d c ct] H. unfold mutable_root, is_root in H. cbn in H.
  repeat (apply andb_true_iff in H; destruct H as [H ?]).
  apply negb_true_iff in H0. subst.
  unfold ro. cbn.
  destruct k; repeat match goal with
                     | x : pfam |- _ => destruct x
                     | x : tk |- _ => destruct x
                     | x : apf |- _ => destruct x
                     | x : bool |- _ => destruct x
                     end; cbn in *; try discriminate; reflexivity.
Qed.

Theorem const_roots_proved :
  forall (r : state) (p : list aop) (s : state),
    const_root r = true -> clean_path p r = true -> run_path p r = Some s -> writable s = false.
Proof.
  intros r p s Hr Hc Hp.
  exact (proj2 (const_propagates_proved p r s (const_root_ro _ Hr) Hc Hp)).
Qed.

Theorem mutable_paths_proved :
  forall (p : list aop) (s s' : state),
    ro s = false -> mut_path p s = true -> run_path p s = Some s' ->
    ro s' = false /\ (assignable_thing s' = true -> writable s' = true).
Proof.
  induction p as [ | o tl IH]; intros s s' Hro Hm Hr.
  - cbn in Hr. inversion Hr; subst. split; [exact Hro | exact (mutable_writable _ Hro)].
  - cbn [run_path] in Hr. cbn [mut_path] in Hm.
    destruct (astep s o) as [s1 | | | | | | | | ] eqn:E; try discriminate.
    apply andb_true_iff in Hm. destruct Hm as [Hk Hm].
    exact (IH s1 s' (mut_step _ _ _ Hro Hk E) Hm Hr).
Qed.

Theorem mutable_roots_proved :
  forall (r : state) (p : list aop) (s : state),
    mutable_root r = true -> mut_path p r = true -> run_path p r = Some s ->
    assignable_thing s = true -> writable s = true.
Proof.
  intros r p s Hr Hm Hp.
  exact (proj2 (mutable_paths_proved p r s (mutable_root_not_ro _ Hr) Hm Hp)).
Qed.

(* ---- the full statement, and why it is still false of the code ---- *)
Definition C16_const_full : Prop :=
  forall (r : state) (p : list aop) (s : state),
    const_root r = true -> run_path p r = Some s -> writable s = false.

Definition cA2 : state := mkSt KArr 2 true Lv.        (* multi::array<int,2> const A; *)

(* the one remaining exclusion: write through A.begin().base() *)
Lemma witness_iter_base :
  run_path [ABegin; ABase; ADeref] cA2 = Some (mkSt KElem 0 false Lv)
  /\ writable (mkSt KElem 0 false Lv) = true
  /\ hole (mkSt (KIt true (PI false)) 2 false Rv) ABase = true.
Proof. vm_compute. auto. Qed.

Theorem const_full_refuted : ~ C16_const_full.
Proof.
  intros H.
  specialize (H cA2 [ABegin; ABase; ADeref] (mkSt KElem 0 false Lv) eq_refl eq_refl).
  vm_compute in H. discriminate.
Qed.

(* ---- every exclusion of `hole` is a real site of the tree: a path from a const root through it ends writable (or, for
   transform_ptr::base(), in a mutable pointer to the struct element, which is outside the fragment).  The four sites for which this
   package proposes a repair are stated under the hypothesis that the repair is not in the tree (fx_.. = false). ---- *)
Definition cAS1 : state := mkSt KArrS 1 true Lv.      (* multi::array<S,1> const AS; *)
Definition cAS2 : state := mkSt KArrS 2 true Lv.      (* multi::array<S,2> const AS; *)
Definition cP2 : state := mkSt (KSub (PT TmR)) 2 true Lv.   (* auto const& cp = AS.element_transformed(&S::b); *)
Definition wE : state := mkSt KElem 0 false Lv.       (* int& *)

Ltac witness := try (intros Hfx; vm_compute in Hfx; try discriminate Hfx); vm_compute; repeat split; reflexivity.

Lemma witness_sptr_conv :      (* multi::subarray_ptr<int, 2, int*, layout_t<2>, false> p = &A();  p->operator[](1)[1] = 1; *)
  fx_sptr_conv = false ->
  run_path [ACall0; AAddrOf; AConv FI false false; ADeref; AIndex; AIndex] cA2 = Some wE /\ writable wE = true
  /\ hole (mkSt (KSP true (PI false)) 2 false Rv) (AConv FI false false) = true.
Proof. witness. Qed.

Lemma witness_tptr_conv :      (* transform_ptr<int, int S::*, S*, int&> q = cp.base();  *q = 1; *)
  fx_tptr_conv = false ->
  run_path [ABase; AConv FI false false; ADeref] cP2 = Some wE /\ writable wE = true
  /\ hole (mkSt (KPt (PT TmC)) 0 false Rv) (AConv FI false false) = true.
Proof. witness. Qed.

Lemma witness_member_cast1 :   (* AS.member_cast<int>(&S::b)[1] = 1;  for a const 1-D AS *)
  fx_csub_proj = false ->
  run_path [AMemberCast; AIndex] cAS1 = Some wE /\ writable wE = true /\ hole cAS1 AMemberCast = true.
Proof. witness. Qed.

Lemma witness_csub_proj :      (* AS().element_transformed(&S::b)[1][1] = 1;  AS().member_cast<int>(&S::b)[1][1] = 1;  for a const AS *)
  fx_csub_proj = false ->
  run_path [ACall0; AETransMP; AIndex; AIndex] cAS2 = Some wE /\ run_path [ACall0; AMemberCast; AIndex; AIndex] cAS2 = Some wE
  /\ writable wE = true
  /\ hole (mkSt (KCSubS false) 2 false Rv) AETransMP = true /\ hole (mkSt (KCSubS false) 2 false Rv) AMemberCast = true.
Proof. witness. Qed.

Lemma witness_static_cast :    (* A.static_array_cast<int>()[1][1] = 1;  the overload marked [[deprecated("violates constness")]] *)
  run_path [AStaticCast; AIndex; AIndex] cA2 = Some wE /\ writable wE = true /\ hole cA2 AStaticCast = true.
Proof. witness. Qed.

Lemma witness_tptr_base :      (* cp.base().base() is an S* const&: the struct element behind a const projection view is writable *)
  run_path [ABase; ABase] cP2 = Some (mkSt (KPtS false) 0 true Lv) /\ ro (mkSt (KPtS false) 0 true Lv) = false
  /\ hole (mkSt (KPt (PT TmC)) 0 false Rv) ABase = true.
Proof. witness. Qed.

Lemma witness_escapes :        (* the named ways out: A.const_array_cast()[1][1] = 1;  *A.mutable_base() = 1; *)
  run_path [AConstCast; AIndex; AIndex] cA2 = Some wE /\ run_path [AMutableBase; ADeref] cA2 = Some wE /\ writable wE = true
  /\ hole cA2 AConstCast = true /\ hole cA2 AMutableBase = true.
Proof. witness. Qed.

(* the projections and conversions are covered: the paths of the two breaking changes that prompted this extension are clean and end
   read-only *)
Theorem projections_and_conversions_clean :
     (* cp[1][1], cp(1,1), *cp.begin()->begin() ... *)
     (clean_path [AIndex; AIndex] cP2 = true /\ run_path [AIndex; AIndex] cP2 = Some (mkSt KElem 0 true Lv))
  /\ (clean_path [ACallAll] cP2 = true /\ run_path [ACallAll] cP2 = Some (mkSt KElem 0 true Lv))
  /\ (clean_path [AElements; AIndex] cP2 = true /\ run_path [AElements; AIndex] cP2 = Some (mkSt KElem 0 true Lv))
  /\ (clean_path [AHome; ADeref] cP2 = true /\ run_path [AHome; ADeref] cP2 = Some (mkSt KElem 0 true Lv))
  /\ (clean_path [ABegin; ADeref; ABegin; ADeref] cP2 = true /\ run_path [ABegin; ADeref; ABegin; ADeref] cP2 = Some (mkSt KElem 0 true Lv))
     (* multi::array<int,2>::iterator it = A.begin(); is ill-formed: implicitly, explicitly, by assignment *)
  /\ (astep (mkSt (KIt true (PI false)) 2 false Rv) (AConv FI false false) = No
      /\ astep (mkSt (KIt true (PI false)) 2 false Rv) (AConv FE false false) = No
      /\ astep (mkSt (KIt true (PI false)) 2 false Rv) (AConv FA false false) = No).
Proof. vm_compute. repeat split; reflexivity. Qed.

(* the five steps that were exclusions on the snapshot are ordinary, read-only preserving rows now: the former witness
   paths are clean and end read-only (or are no longer well-formed as a write) *)
Theorem repaired_sites_are_clean :
     (* A.begin()[1][0]           *) (clean_path [ABegin; AIndex; AIndex] cA2 = true
                                      /\ run_path [ABegin; AIndex; AIndex] cA2 = Some (mkSt KElem 0 true Lv))
  /\ (* A().elements().begin()[0] *) (clean_path [ACall0; AElements; ABegin; AIndex] cA2 = true
                                      /\ run_path [ACall0; AElements; ABegin; AIndex] cA2 = Some (mkSt KElem 0 true Lv))
  /\ (* A().origin(), deref       *) (clean_path [ACall0; AOrigin; ADeref] cA2 = true
                                      /\ run_path [ACall0; AOrigin; ADeref] cA2 = Some (mkSt KElem 0 true Lv))
  /\ (* address of A(), deref ... *) (clean_path [ACall0; AAddrOf; ADeref; AIndex; AIndex] cA2 = true
                                      /\ run_path [ACall0; AAddrOf; ADeref; AIndex; AIndex] cA2 = Some (mkSt KElem 0 true Lv))
  /\ (* A.begin()->base(), deref  *) (clean_path [ABegin; AArrow; ABase; ADeref] cA2 = true
                                      /\ run_path [ABegin; AArrow; ABase; ADeref] cA2 = Some (mkSt KElem 0 true Lv)).
Proof. vm_compute. repeat split; reflexivity. Qed.

(* the second half of the statement at full strength, and the operations at which it fails on the tree *)
Definition intended_const_op (o : aop) : bool :=
  match o with
  | ACBegin | ACEnd | ACElements | AConstElements | AAsConst | ABindCRef | ABroadcasted => true
  | ACBase | AStaticCastC | ADecay => true                   (* cbase(), static_array_cast<T const>(), decay() const& of an array_ref *)
  | AETransLC | AETransLV => true                            (* a functor that returns a reference to const / a value *)
  | AConv _ true _ | AConv _ _ true => true                  (* conversion to the const handle / to the handle over the pointer to const *)
  | AToView VCSub _ _ | AToView _ _ true => true             (* construction of a const_subarray / of a view over the pointer to const *)
  | _ => false
  end.

Definition C16_mutable_full : Prop :=
  forall (r : state) (p : list aop) (s : state),
    mutable_root r = true -> forallb (fun o => negb (intended_const_op o)) p = true ->
    run_path p r = Some s -> elem_lvalue s = true -> writable s = true.

Theorem mutable_full_refuted : ~ C16_mutable_full.
Proof.
  intros H.
  (* A.reindexed(1)[1][1] on a mutable A is an int const& *)
  specialize (H (mkSt KArr 2 false Lv) [AReindexed; AIndex; AIndex] (mkSt KElem 0 true Lv) eq_refl eq_refl eq_refl eq_refl).
  vm_compute in H. discriminate.
Qed.

(* the operations that lose mutability on the tree although not meant to (an API gap, not a hole):
   every well-formed step from a mutable non-owning-rvalue receiver that lands in a read-only state is one of these *)
Definition gap_op (o : aop) : bool :=
  match o with
  | AFront | ABack | ASlicedS | AReversed | AChunked | AHalved | AReindexed | ABlocked | AStenciled | AArrow => true
  | AElementsAt => true                                      (* :1310-1323, :2907-2909: every overload goes through operator[] const& *)
  | _ => false
  end.

Definition inv_gap_row (k : kind) (dc : dcl) (c : bool) (ct : cat) (o : aop) : bool :=
  match astep_k k dc c ct o with
  | inl (RT k' _ c' _) =>
      implb (negb (ro_k k c) && ro_k k' c' && negb (owning k && match ct with Rv => true | Lv => false end))
            (gap_op o || intended_const_op o || (match o, k with ABase, KEI _ => c | _, _ => false end))
  | _ => true
  end.

Lemma inv_gap_all : all_rows_k inv_gap_row = true.
Proof. vm_compute. reflexivity. Qed.

Definition is_ei (k : kind) : bool := match k with KEI _ => true | _ => false end.

Theorem mutability_lost_only_at_gaps :
  forall s o s', ro s = false -> astep s o = To s' -> ro s' = true ->
    (owning (sk s) && match scat s with Rv => true | Lv => false end) = false ->
    gap_op o = true \/ intended_const_op o = true \/ (o = ABase /\ is_ei (sk s) = true /\ sc s = true).
Proof.
  intros s o s' Hro Hs Hro' Hown.
  destruct (astep_to _ _ _ Hs) as (k' & dd & c' & ct' & E & ->).
  pose proof (all_rows_k_spec _ inv_gap_all (sk s) (dcls (sd s)) (sc s) (scat s) o) as R.
  unfold inv_gap_row in R. rewrite E in R. unfold ro in *. cbn in Hro'.
  rewrite Hro, Hro', Hown in R. cbn in R.
  apply orb_true_iff in R. destruct R as [R | R].
  - apply orb_true_iff in R. destruct R; auto.
  - right; right. destruct o; try discriminate. destruct (sk s); try discriminate. auto.
Qed.

(* ---- third clause: reference types cannot be rebound, resized or copied ---- *)
Theorem no_rebind_proved :
  forall k, is_view k = true \/ is_array_ref k = true ->
    rebindable k = false /\ resizable k = false /\ copy_constructible k = false.
Proof.
  intros k [H | H]; destruct k; try discriminate; cbn; auto.
Qed.

Theorem view_assign_keeps_binding :
  forall dst src, v_base (view_assign dst src) = v_base dst
               /\ v_extents (view_assign dst src) = v_extents dst
               /\ v_elems (view_assign dst src) = v_elems src.
Proof. intros; cbn; auto. Qed.

(* assignment to a reference type is accepted exactly through the mutable interface: it is a mutator (Mut) on a
   mutable view / array_ref, never on a read-only one, and never changes rebindable/resizable *)
Theorem view_assignment_is_element_assignment :
  forall s, (is_view (sk s) = true \/ is_array_ref (sk s) = true) ->
    (ro s = true -> astep s AAssign <> Mut) /\ (ro s = false -> assignable_thing s = true -> astep s AAssign = Mut).
Proof.
  intros s Hk. split.
  - intros Hro Hm. pose proof (ro_not_writable _ Hro) as W. unfold writable in W.
    cbn [mutators existsb] in W. rewrite Hm in W. discriminate.
  - intros Hro Ha. destruct s as [k d c ct]. unfold ro in Hro. unfold assignable_thing in Ha. cbn in *.
    destruct Hk as [Hk | Hk]; destruct k; try discriminate;
      repeat match goal with
             | x : pfam |- _ => destruct x
             | x : tk |- _ => destruct x
             | x : apf |- _ => destruct x
             | x : bool |- _ => destruct x
             end; try discriminate;
      destruct d as [ | [ | [ | d]]]; destruct ct; vm_compute; reflexivity.
Qed.

(* ---- satisfiability of the hypotheses (a concrete non-trivial instance) ---- *)
Example clean_example :
  let p := [ARotated; ACallRngIdx; ABindRef; ABegin; APlus1; ADeref] in
  const_root (mkSt KArr 3 true Lv) = true /\ clean_path p (mkSt KArr 3 true Lv) = true
  /\ run_path p (mkSt KArr 3 true Lv) = Some (mkSt (KCSub (PI false)) 1 false Rv).
Proof. vm_compute. auto. Qed.

Example projection_example :      (* auto const& cp = AS.element_transformed(&S::b);  cp.rotated()({0,2},1).begin()[1] is an int const& *)
  let p := [AETransMP; ABindCRef; ARotated; ACallRngIdx; ABegin; AIndex] in
  mutable_root (mkSt KArrS 2 false Lv) = true /\ clean_path p (mkSt KArrS 2 false Lv) = true
  /\ run_path p (mkSt KArrS 2 false Lv) = Some (mkSt KElem 0 true Lv).
Proof. vm_compute. auto. Qed.

Example mutable_example :
  let p := [ACall0; ABindRef; ASliced; ATransposed; ABegin; ADeref; AIndex] in
  mutable_root (mkSt KArr 2 false Lv) = true /\ mut_path p (mkSt KArr 2 false Lv) = true
  /\ run_path p (mkSt KArr 2 false Lv) = Some (mkSt KElem 0 false Lv)
  /\ writable (mkSt KElem 0 false Lv) = true.
Proof. vm_compute. auto. Qed.

(* ---- size of what the vm_compute lemmas range over, and of the table that is tied to the library ---- *)
Lemma kind_table_size :
  length all_kinds = 93 /\ length all_dcls = 4 /\ length bools = 2 /\ length all_cats = 2 /\ length all_ops = 99.
Proof. vm_compute. repeat split; reflexivity. Qed.

(* 1028 states x 99 operations *)
Lemma rows_of_length : forall sts, length (rows_of sts) = length sts * length all_ops.
Proof.
  induction sts as [ | s tl IH]; [reflexivity | ].
  unfold rows_of in *. cbn [flat_map]. rewrite app_length, map_length, IH. reflexivity.
Qed.

Lemma tied_table_size : length table_states = 1028 /\ length table_rows = length table_states * length all_ops.
Proof. split; [vm_compute; reflexivity | apply rows_of_length]. Qed.

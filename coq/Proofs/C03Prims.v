(* C03: one lemma per primitive.  Under rows_ok (the rows have a common zero-based shape and designate pairwise
   disjoint, internally injective sets of cells) each proxy operation changes the value of exactly the row(s) it
   names, in the way the same operation changes independent values, and no cell outside the range. *)
From BM Require Import Base.Tactics Model.Layout Model.View Model.Spec Model.Iter Model.Assign Model.Compare Model.C03Prog
  Proofs.LayoutProofs Proofs.IterProofs Proofs.ElemProofs Proofs.AssignProofs Proofs.C05Main
  Proofs.CompareProofs Proofs.C07Main Proofs.C03Flat.
Local Open Scope Z_scope.

(* the hypothesis on a range of n rows of sizes sz *)
Definition rows_ok (row : Z -> view) (n : Z) (sz : list Z) : Prop :=
  (forall p, 0 <= p < n -> lay_ok (lay (row p)) sz) /\
  (forall p q j k, 0 <= p < n -> 0 <= q < n -> 0 <= j < prod sz -> 0 <= k < prod sz ->
     e_addr (row p) j = e_addr (row q) k -> p = q /\ j = k) /\
  (* the exclusion: no zero extent under a non-zero one in the rows' shape, so that value_type can hold a row *)
  collapse sz = sz.
(* an address that is no cell of the range *)
Definition outside_rows (row : Z -> view) (n : Z) (sz : list Z) (a : Z) : Prop :=
  forall p k, 0 <= p < n -> 0 <= k < prod sz -> a <> e_addr (row p) k.
(* an address that is no cell of row p *)
Definition off_row (row : Z -> view) (sz : list Z) (p : Z) (a : Z) : Prop :=
  forall k, 0 <= k < prod sz -> a <> e_addr (row p) k.

(* ---- self-operations: *it = *it, iter_swap(it, it), *it = std::move( *it) leave every value as it was ---- *)
Lemma self_copy D n : forall m, let m' := loopn (copy1 (fun z => z) D D) n m in
  (forall a, c_val (m' a) = c_val (m a)) /\ (forall a, outside D n a -> m' a = m a).
Proof.
  induction n as [|n IH]; intros m; cbn zeta; [split; reflexivity|].
  rewrite loopn_S. destruct (IH m) as [Hv Hf]. cbn zeta in Hv, Hf. split.
  - intros a. unfold copy1 at 1. unfold upd. destruct (a =? D (Z.of_nat n)) eqn:E; bprop; [subst; cbn; apply Hv|apply Hv].
  - intros a Ha. unfold copy1 at 1. rewrite upd_other by (apply Ha; lia). apply Hf. intros k Hk. apply Ha. lia.
Qed.
Lemma self_swap D n : forall m a, loopn (swap1 D D) n m a = m a.
Proof.
  induction n as [|n IH]; intros m a; [reflexivity|]. rewrite loopn_S. unfold swap1 at 1. unfold upd.
  destruct (a =? D (Z.of_nat n)) eqn:E; bprop; [subst; apply IH|apply IH].
Qed.
Lemma self_move D n : forall m, let m' := loopn (move1 D D) n m in
  (forall a, c_val (m' a) = c_val (m a)) /\ (forall a, outside D n a -> m' a = m a).
Proof.
  induction n as [|n IH]; intros m; cbn zeta; [split; reflexivity|].
  rewrite loopn_S. destruct (IH m) as [Hv Hf]. cbn zeta in Hv, Hf. split.
  - intros a. unfold move1 at 1. unfold upd. destruct (a =? D (Z.of_nat n)) eqn:E; bprop; [subst; cbn; apply Hv|apply Hv].
  - intros a Ha. unfold move1 at 1. rewrite !upd_other by (apply Ha; lia). apply Hf. intros k Hk. apply Ha. lia.
Qed.

Section Range.
  Variables (row : Z -> view) (n : Z) (sz : list Z).
  Hypothesis HR : rows_ok row n sz.
  Let N := prod sz.

  Lemma row_ok p : 0 <= p < n -> lay_ok (lay (row p)) sz. Proof. apply (proj1 HR). Qed.
  Lemma sz_nonneg : Forall (fun k => 0 <= k) sz \/ n <= 0.
  Proof. destruct (Z_le_gt_dec n 0) as [H|H]; [right; assumption|left]. apply (lay_ok_nonneg (lay (row 0))). apply row_ok. lia. Qed.
  Lemma N_nonneg : 0 < n -> 0 <= N.
  Proof. intros H. destruct sz_nonneg as [S|S]; [apply prod_nonneg; assumption|lia]. Qed.
  Lemma nel_row p : 0 <= p < n -> Z.of_nat (nel (row p)) = N.
  Proof. intros Hp. unfold nel. rewrite (er_size_ok _ _ (row_ok p Hp)). pose proof (N_nonneg ltac:(lia)). unfold N in *. lia. Qed.
  Lemma row_inj p : 0 <= p < n -> inj_upto (e_addr (row p)) (nel (row p)).
  Proof. intros Hp j k Hj Hk E. rewrite (nel_row p Hp) in Hj, Hk. destruct HR as (_ & H & _). apply (H p p j k); assumption. Qed.
  Lemma row_disj p q : 0 <= p < n -> 0 <= q < n -> p <> q -> disj_upto (e_addr (row p)) (e_addr (row q)) (nel (row p)).
  Proof. intros Hp Hq Hne j k Hj Hk E. rewrite (nel_row p Hp) in Hj, Hk. destruct HR as (_ & H & _). destruct (H p q j k Hp Hq Hj Hk E). contradiction. Qed.
  Lemma off_outside p a : 0 <= p < n -> off_row row sz p a <-> outside (e_addr (row p)) (nel (row p)) a.
  Proof. intros Hp. unfold off_row, outside. rewrite (nel_row p Hp). reflexivity. Qed.
  Lemma outside_off p a : 0 <= p < n -> outside_rows row n sz a -> off_row row sz p a.
  Proof. intros Hp H k Hk. apply H; assumption. Qed.
  Lemma other_row_off p r k : 0 <= p < n -> 0 <= r < n -> r <> p -> 0 <= k < N -> off_row row sz p (e_addr (row r) k).
  Proof. intros Hp Hr Hne Hk j Hj E. destruct HR as (_ & H & _). destruct (H r p k j Hr Hp Hk Hj E). contradiction. Qed.

  (* a change confined to row p (as far as values go) leaves the value of every other row alone *)
  Lemma rd_frame1 p r m m' : 0 <= p < n -> 0 <= r < n -> r <> p ->
    (forall a, off_row row sz p a -> vals m' a = vals m a) -> rd0 (row r) m' = rd0 (row r) m.
  Proof.
    intros Hp Hr Hne Hf. apply (rd_ext _ _ sz); try (apply row_ok; assumption).
    intros k Hk. apply Hf. apply other_row_off; assumption.
  Qed.
  Lemma rd_frame2 p q r m m' : 0 <= p < n -> 0 <= q < n -> 0 <= r < n -> r <> p -> r <> q ->
    (forall a, off_row row sz p a -> off_row row sz q a -> vals m' a = vals m a) -> rd0 (row r) m' = rd0 (row r) m.
  Proof.
    intros Hp Hq Hr Hne Hne' Hf. apply (rd_ext _ _ sz); try (apply row_ok; assumption).
    intros k Hk. apply Hf; apply other_row_off; assumption.
  Qed.
  Lemma rd_same r m m' : 0 <= r < n -> (forall a, vals m' a = vals m a) -> rd0 (row r) m' = rd0 (row r) m.
  Proof. intros Hr H. apply (rd_ext _ _ sz); try (apply row_ok; assumption). intros k _. apply H. Qed.

  Definition rdp (m : mem) (r : Z) : value := rd0 (row r) m.

  (* ---- Write ---- *)
  Lemma write_spec p x m : 0 <= p < n -> reg sz x ->
    let m' := do_write (row p) x m in
       (forall r, 0 <= r < n -> rdp m' r = if r =? p then x else rdp m r)
    /\ (forall a, outside_rows row n sz a -> m' a = m a).
  Proof.
    intros Hp Hx m'. destruct (C05_assign_vals_proved (flat_t x) (row p) m (row_inj p Hp)) as [Hw Hf].
    fold (do_write (row p) x m) in Hw, Hf. fold m' in Hw, Hf. rewrite (er_size_ok _ _ (row_ok p Hp)) in Hw. split.
    - intros r Hr. unfold rdp. destruct (r =? p) eqn:E; bprop.
      + subst r. apply (rd_is _ sz); [apply row_ok; assumption|assumption|]. intros k Hk. unfold vals. rewrite (Hw k Hk). reflexivity.
      + apply (rd_frame1 p); try assumption. intros a Ha. unfold vals. rewrite Hf; [reflexivity|]. apply off_outside; assumption.
    - intros a Ha. apply Hf. apply off_outside; [assumption|]. apply outside_off; assumption.
  Qed.

  (* ---- Copy (and Move between proxies) ---- *)
  Lemma copy_spec_rows p q m : 0 <= p < n -> 0 <= q < n ->
    let m' := do_copy (row p) (row q) m in
       (forall r, 0 <= r < n -> rdp m' r = if r =? p then rdp m q else rdp m r)
    /\ (forall a, outside_rows row n sz a -> m' a = m a).
  Proof.
    intros Hp Hq m'. destruct (Z.eq_dec p q) as [->|Hne].
    - (* self-assignment through two proxies of the same row *)
      assert (Hs : (forall a, c_val (m' a) = c_val (m a)) /\ (forall a, outside (e_addr (row q)) (nel (row q)) a -> m' a = m a)).
      { unfold m', do_copy, assign_view. destruct (l_num_elements (lay (row q)) =? 0); [split; reflexivity|].
        rewrite loop_loopn. apply self_copy. }
      destruct Hs as [Hv Hf]. split.
      + intros r Hr. unfold rdp. replace (rd0 (row r) m') with (rd0 (row r) m) by (symmetry; apply rd_same; assumption).
        destruct (r =? q) eqn:E; bprop; subst; reflexivity.
      + intros a Ha. apply Hf. apply off_outside; [assumption|]. apply outside_off; assumption.
    - assert (Hsz : er_size (row p) = er_size (row q)) by (rewrite !(er_size_ok _ sz) by (apply row_ok; assumption); reflexivity).
      destruct (C05_assign_exact_proved (fun z => z) (row p) (row q) m Hsz (row_inj p Hp) (row_disj p q Hp Hq Hne)) as [Hw Hf].
      fold (do_copy (row p) (row q) m) in Hw, Hf. fold m' in Hw, Hf. rewrite (er_size_ok _ _ (row_ok p Hp)) in Hw. split.
      + intros r Hr. unfold rdp. destruct (r =? p) eqn:E; bprop.
        * subst r. apply (rd_ext _ _ sz); try (apply row_ok; assumption). intros k Hk. unfold vals. rewrite (Hw k Hk). reflexivity.
        * apply (rd_frame1 p); try assumption. intros a Ha. unfold vals. rewrite Hf; [reflexivity|]. apply off_outside; assumption.
      + intros a Ha. apply Hf. apply off_outside; [assumption|]. apply outside_off; assumption.
  Qed.

  Lemma move_spec_rows p q m : 0 <= p < n -> 0 <= q < n ->
    let m' := do_move (row p) (row q) m in
       (forall r, 0 <= r < n -> rdp m' r = if r =? p then rdp m q else rdp m r)
    /\ (forall a, outside_rows row n sz a -> m' a = m a).
  Proof.
    intros Hp Hq m'. unfold m', do_move. destruct (rank0 (row p)) eqn:R0; [|apply copy_spec_rows; assumption].
    set (m1 := move_view (row p) (row q) m). destruct (Z.eq_dec p q) as [->|Hne].
    - assert (Hs : (forall a, c_val (m1 a) = c_val (m a)) /\ (forall a, outside (e_addr (row q)) (nel (row q)) a -> m1 a = m a)).
      { unfold m1, move_view. destruct (l_num_elements (lay (row q)) =? 0); [split; reflexivity|].
        rewrite loop_loopn. apply self_move. }
      destruct Hs as [Hv Hf]. split.
      + intros r Hr. unfold rdp. replace (rd0 (row r) m1) with (rd0 (row r) m) by (symmetry; apply rd_same; assumption).
        destruct (r =? q) eqn:E; bprop; subst; reflexivity.
      + intros a Ha. apply Hf. apply off_outside; [assumption|]. apply outside_off; assumption.
    - assert (Hsz : er_size (row p) = er_size (row q)) by (rewrite !(er_size_ok _ sz) by (apply row_ok; assumption); reflexivity).
      assert (Hiq : inj_upto (e_addr (row q)) (nel (row p))).
      { intros j k Hj Hk E. rewrite (nel_row p Hp) in Hj, Hk. destruct HR as (_ & H & _). apply (H q q j k); assumption. }
      destruct (C05_move_exact_proved (row p) (row q) m Hsz (row_inj p Hp) Hiq (row_disj p q Hp Hq Hne)) as [Hw Hf].
      fold m1 in Hw, Hf. rewrite (er_size_ok _ _ (row_ok p Hp)) in Hw.
      assert (Hoq : forall a, off_row row sz q a -> outside (e_addr (row q)) (nel (row p)) a).
      { intros a Ha k Hk. rewrite (nel_row p Hp) in Hk. apply Ha. assumption. }
      split.
      + intros r Hr. unfold rdp. destruct (r =? p) eqn:E; bprop.
        * subst r. apply (rd_ext _ _ sz); try (apply row_ok; assumption). intros k Hk. unfold vals.
          destruct (Hw k Hk) as [-> _]. reflexivity.
        * destruct (Z.eq_dec r q) as [->|Hrq].
          -- apply (rd_ext _ _ sz); try (apply row_ok; assumption). intros k Hk. unfold vals. destruct (Hw k Hk) as [_ ->]. reflexivity.
          -- apply (rd_frame2 p q); try assumption. intros a Ha Ha'. unfold vals. rewrite Hf; [reflexivity| |].
             ++ apply off_outside; assumption.
             ++ apply Hoq; assumption.
      + intros a Ha. apply Hf.
        * apply off_outside; [assumption|]. apply outside_off; assumption.
        * apply Hoq. apply outside_off; assumption.
  Qed.

  (* ---- Swap ---- *)
  Lemma swap_spec_rows p q m : 0 <= p < n -> 0 <= q < n ->
    let m' := do_swap (row p) (row q) m in
       (forall r, 0 <= r < n -> rdp m' r = if r =? p then rdp m q else if r =? q then rdp m p else rdp m r)
    /\ (forall a, outside_rows row n sz a -> m' a = m a).
  Proof.
    intros Hp Hq m'. destruct (Z.eq_dec p q) as [->|Hne].
    - assert (Hs : forall a, m' a = m a) by (intros a; unfold m', do_swap, swap_views; rewrite loop_loopn; apply self_swap).
      split; [|intros a _; apply Hs].
      intros r Hr. unfold rdp. replace (rd0 (row r) m') with (rd0 (row r) m) by (symmetry; apply rd_same; [assumption|intros a; unfold vals; rewrite Hs; reflexivity]).
      destruct (r =? q) eqn:E; bprop; subst; reflexivity.
    - assert (Hiq : inj_upto (e_addr (row q)) (nel (row p))).
      { intros j k Hj Hk E. rewrite (nel_row p Hp) in Hj, Hk. destruct HR as (_ & H & _). apply (H q q j k); assumption. }
      destruct (C05_swap_proved (row p) (row q) m (row_inj p Hp) Hiq (row_disj p q Hp Hq Hne)) as [Hw Hf].
      fold (do_swap (row p) (row q) m) in Hw, Hf. fold m' in Hw, Hf. rewrite (er_size_ok _ _ (row_ok p Hp)) in Hw.
      assert (Hoq : forall a, off_row row sz q a -> outside (e_addr (row q)) (nel (row p)) a).
      { intros a Ha k Hk. rewrite (nel_row p Hp) in Hk. apply Ha. assumption. }
      split.
      + intros r Hr. unfold rdp. destruct (r =? p) eqn:E; bprop.
        * subst r. apply (rd_ext _ _ sz); try (apply row_ok; assumption). intros k Hk. unfold vals. destruct (Hw k Hk) as [-> _]. reflexivity.
        * destruct (r =? q) eqn:E'; bprop.
          -- subst r. apply (rd_ext _ _ sz); try (apply row_ok; assumption). intros k Hk. unfold vals. destruct (Hw k Hk) as [_ ->]. reflexivity.
          -- apply (rd_frame2 p q); try assumption. intros a Ha Ha'. unfold vals. rewrite Hf; [reflexivity| |].
             ++ apply off_outside; assumption.
             ++ apply Hoq; assumption.
      + intros a Ha. apply Hf.
        * apply off_outside; [assumption|]. apply outside_off; assumption.
        * apply Hoq. apply outside_off; assumption.
  Qed.

  (* ---- Take: the values stay (for an element the source is flagged moved-from, its value kept) ---- *)
  Lemma take_spec p m : 0 <= p < n ->
    let m' := do_take (row p) m in
       (forall r, 0 <= r < n -> rdp m' r = rdp m r)
    /\ (forall a, outside_rows row n sz a -> m' a = m a).
  Proof.
    intros Hp m'. unfold m', do_take. destruct (rank0 (row p)) eqn:R0; [|split; reflexivity]. split.
    - intros r Hr. apply rd_same; [assumption|]. intros a. unfold vals, upd. destruct (a =? base (row p)) eqn:E; bprop; [subst; reflexivity|reflexivity].
    - intros a Ha. apply upd_other. unfold rank0 in R0. destruct (lay (row p)) eqn:El; [|discriminate].
      pose proof (row_ok p Hp) as Hok. rewrite El in Hok. inv Hok.
      specialize (Ha p 0 Hp ltac:(cbn; lia)). unfold e_addr, er_at in Ha. rewrite El in Ha. cbn in Ha. lia.
  Qed.

  (* ---- comparisons ---- *)
  Lemma less_spec p q m : 0 <= p < n -> 0 <= q < n ->
    do_less (row p) (row q) m = lt_depth (length sz) (rdp m p) (rdp m q).
  Proof.
    intros Hp Hq. unfold do_less, rdp, rd. rewrite (v_lt_zero_based _ _ sz sz) by (apply row_ok; assumption).
    rewrite (lay_ok_length _ _ (row_ok p Hp)). reflexivity.
  Qed.
  Lemma lessv_spec p x m : 0 <= p < n -> do_lessv (row p) x m = lt_depth (length sz) (rdp m p) x.
  Proof. intros Hp. unfold do_lessv. rewrite (lay_ok_length _ _ (row_ok p Hp)). reflexivity. Qed.
  Lemma vless_spec p x m : 0 <= p < n -> do_vless x (row p) m = lt_depth (length sz) x (rdp m p).
  Proof. intros Hp. unfold do_vless. rewrite (lay_ok_length _ _ (row_ok p Hp)). reflexivity. Qed.
  Lemma eq_spec p q m : 0 <= p < n -> 0 <= q < n -> do_eq (row p) (row q) m = tree_eqb (rdp m p) (rdp m q).
  Proof.
    intros Hp Hq. unfold do_eq, v_eq, rdp.
    rewrite (lay_ok_extensions _ _ (row_ok p Hp)), (lay_ok_extensions _ _ (row_ok q Hq)), x_eq_refl. cbn [andb].
    apply (eqb_flat sz); [apply (lay_ok_nonneg _ _ (row_ok p Hp))| |]; apply rd_reg; apply row_ok; assumption.
  Qed.
  Lemma eqv_spec p x m : 0 <= p < n -> reg sz x -> do_eqv (row p) x m = tree_eqb (rdp m p) x.
  Proof.
    intros Hp Hx. unfold do_eqv, rdp.
    apply (eqb_flat sz); [apply (lay_ok_nonneg _ _ (row_ok p Hp))|apply rd_reg; apply row_ok; assumption|assumption].
  Qed.
End Range.

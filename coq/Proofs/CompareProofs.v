(* C07: lexicographic comparison of nested values is a strict total order whose equivalence is structural
   equality; == is extents + elements; the derived operators are consistent. *)
From BM Require Import Base.Tactics Model.Layout Model.View Model.Compare Proofs.LayoutProofs.
Local Open Scope Z_scope.

(* ---- strict total orders restricted to a predicate ---- *)
Record sto {A} (P : A -> Prop) (lt : A -> A -> bool) : Prop := {
  sto_irr : forall x, P x -> lt x x = false;
  sto_asym : forall x y, P x -> P y -> lt x y = true -> lt y x = false;
  sto_trans : forall x y z, P x -> P y -> P z -> lt x y = true -> lt y z = true -> lt x z = true;
  sto_total : forall x y, P x -> P y -> lt x y = false -> lt y x = false -> x = y }.

Section Lex.
  Context {A : Type} (P : A -> Prop) (lt : A -> A -> bool).
  Hypothesis H : sto P lt.

  Lemma lexb_irr l : Forall P l -> lexb lt l l = false.
  Proof. induction 1 as [|x l Hx _ IH]; cbn; [reflexivity|]. rewrite (sto_irr _ _ H x Hx). exact IH. Qed.

  Lemma lexb_asym l1 : forall l2, Forall P l1 -> Forall P l2 -> lexb lt l1 l2 = true -> lexb lt l2 l1 = false.
  Proof.
    induction l1 as [|x xs IH]; intros [|y ys] H1 H2 Hlt; cbn in *; try discriminate; try reflexivity.
    inversion H1 as [|? ? Px Pxs]; subst. inversion H2 as [|? ? Py Pys]; subst. destruct (lt x y) eqn:Exy.
    - rewrite (sto_asym _ _ H x y Px Py Exy). reflexivity.
    - destruct (lt y x) eqn:Eyx; [discriminate|]. apply IH; assumption.
  Qed.

  Lemma lexb_total l1 : forall l2, Forall P l1 -> Forall P l2 ->
    lexb lt l1 l2 = false -> lexb lt l2 l1 = false -> l1 = l2.
  Proof.
    induction l1 as [|x xs IH]; intros [|y ys] H1 H2 Ha Hb; cbn in *; try discriminate; try reflexivity.
    inversion H1 as [|? ? Px Pxs]; subst. inversion H2 as [|? ? Py Pys]; subst.
    destruct (lt x y) eqn:Exy; [discriminate|]. destruct (lt y x) eqn:Eyx; [discriminate|].
    rewrite (sto_total _ _ H x y Px Py Exy Eyx). f_equal. apply IH; assumption.
  Qed.

  Lemma lexb_trans l1 : forall l2 l3, Forall P l1 -> Forall P l2 -> Forall P l3 ->
    lexb lt l1 l2 = true -> lexb lt l2 l3 = true -> lexb lt l1 l3 = true.
  Proof.
    induction l1 as [|x xs IH]; intros [|y ys] [|z zs] H1 H2 H3 Ha Hb; cbn in *; try discriminate; try reflexivity.
    inversion H1 as [|? ? Px Pxs]; subst. inversion H2 as [|? ? Py Pys]; subst. inversion H3 as [|? ? Pz Pzs]; subst.
    destruct (lt x y) eqn:Exy.
    - destruct (lt y z) eqn:Eyz.
      + rewrite (sto_trans _ _ H x y z Px Py Pz Exy Eyz). reflexivity.
      + destruct (lt z y) eqn:Ezy; [discriminate|].
        pose proof (sto_total _ _ H y z Py Pz Eyz Ezy) as E. subst z. rewrite Exy. reflexivity.
    - destruct (lt y x) eqn:Eyx; [discriminate|].
      pose proof (sto_total _ _ H x y Px Py Exy Eyx) as E. subst y.
      destruct (lt x z) eqn:Exz; [reflexivity|]. destruct (lt z x) eqn:Ezx; [discriminate|].
      apply (IH ys zs); assumption.
  Qed.

  Lemma lexb_sto : sto (Forall P) (lexb lt).
  Proof.
    constructor.
    - apply lexb_irr.
    - intros x y; apply lexb_asym.
    - intros x y z; apply lexb_trans.
    - intros x y; apply lexb_total.
  Qed.

  (* a proper prefix is smaller *)
  Lemma lexb_prefix l x r : Forall P l -> lexb lt l (l ++ x :: r) = true.
  Proof. induction 1 as [|y l Hy _ IH]; cbn; [reflexivity|]. rewrite (sto_irr _ _ H y Hy). exact IH. Qed.
End Lex.

(* ---- trees of uniform depth ---- *)
Fixpoint wf (n : nat) (t : tree) : Prop :=
  match n, t with
  | O, Leaf _ => True
  | S n', Node ts => Forall (wf n') ts
  | _, _ => False
  end.

Lemma Zlt_sto : sto (fun _ : Z => True) Z.ltb.
Proof.
  constructor; intros.
  - apply Z.ltb_irrefl.
  - bprop. apply Z.ltb_ge. lia.
  - bprop. apply Z.ltb_lt. lia.
  - bprop. lia.
Qed.

Lemma lt_depth_sto n : sto (wf n) (lt_depth n).
Proof.
  induction n as [|n IH].
  - constructor.
    + intros [x|ts] Hw; [apply Z.ltb_irrefl|contradiction].
    + intros [x|?] [y|?] H1 H2; try contradiction. cbn. intros. bprop. apply Z.ltb_ge. lia.
    + intros [x|?] [y|?] [z|?] H1 H2 H3; try contradiction. cbn. intros. bprop. apply Z.ltb_lt. lia.
    + intros [x|?] [y|?] H1 H2; try contradiction. cbn. intros. bprop. f_equal. lia.
  - pose proof (lexb_sto (wf n) (lt_depth n) IH) as L. constructor.
    + intros [?|ts] Hw; [contradiction|]. cbn in *. apply (sto_irr _ _ L); assumption.
    + intros [?|l1] [?|l2] H1 H2; try contradiction. cbn in *. apply (sto_asym _ _ L); assumption.
    + intros [?|l1] [?|l2] [?|l3] H1 H2 H3; try contradiction. cbn in *. apply (sto_trans _ _ L); assumption.
    + intros [?|l1] [?|l2] H1 H2; try contradiction. cbn in *. intros Ha Hb. f_equal. apply (sto_total _ _ L); assumption.
Qed.

(* ---- regular trees: the shape of a view's value ---- *)
Fixpoint reg (sz : list Z) (t : tree) : Prop :=
  match sz, t with
  | [], Leaf _ => True
  | n :: s, Node ts => Z.of_nat (length ts) = n /\ Forall (reg s) ts
  | _, _ => False
  end.

Lemma reg_wf sz : forall t, reg sz t -> wf (length sz) t.
Proof.
  induction sz as [|n s IH]; intros [x|ts]; cbn; try tauto.
  intros [_ Hf]. eapply Forall_impl; [|exact Hf]. exact IH.
Qed.

Lemma iotaz_length n : length (iotaz n) = n.
Proof. induction n; cbn; [reflexivity|]. rewrite app_length. cbn. lia. Qed.

Lemma abs_reg l : forall b m, Forall (fun d => 0 <= d_size d) l -> reg (l_sizes l) (abs_l l b m).
Proof.
  induction l as [|d l IH]; intros b m Hp; cbn; [exact I|]. inv Hp. split.
  - rewrite map_length, iotaz_length. lia.
  - rewrite Forall_map. apply Forall_forall. intros i _. apply IH. assumption.
Qed.

Fixpoint flat_list (ts : list tree) : list Z := match ts with [] => [] | t :: r => flat_t t ++ flat_list r end.
Lemma flat_node ts : flat_t (Node ts) = flat_list ts.
Proof. cbn. induction ts as [|t ts IH]; [reflexivity|]. cbn [flat_list]. rewrite <- IH. reflexivity. Qed.

Lemma reg_flat_length sz : forall t, reg sz t -> Forall (fun n => 0 <= n) sz -> Z.of_nat (length (flat_t t)) = Spec.prod sz.
Proof.
  induction sz as [|n s IH]; intros t Hr Hp; destruct t as [x|ts]; cbn [reg] in Hr; try contradiction.
  - reflexivity.
  - destruct Hr as [Hn Hf]. inversion Hp as [|? ? Hn0 H2]; subst. rewrite flat_node. cbn [Spec.prod fold_right]. fold (Spec.prod s). clear Hn0 Hp.
    induction Hf as [|t ts Ht _ IHf]; cbn [flat_list length]; [cbn; lia|]. rewrite app_length, Nat2Z.inj_add, (IH t Ht H2), IHf. rewrite Nat2Z.inj_succ. ring.
Qed.

Lemma app_inv_len {A} (a b c d : list A) : length a = length c -> a ++ b = c ++ d -> a = c /\ b = d.
Proof.
  revert c. induction a as [|x a IH]; intros [|y c] Hl E; cbn in *; try discriminate; [split; [reflexivity|assumption]|].
  inv E. destruct (IH c ltac:(lia) H1) as [-> ->]. split; reflexivity.
Qed.

Lemma reg_flat_inj sz : Forall (fun n => 0 <= n) sz ->
  forall t1 t2, reg sz t1 -> reg sz t2 -> flat_t t1 = flat_t t2 -> t1 = t2.
Proof.
  induction sz as [|n s IH]; intros Hp t1 t2 H1 H2 E; destruct t1 as [x|l1], t2 as [y|l2]; cbn [reg] in H1, H2; try contradiction.
  - cbn in E. inv E. reflexivity.
  - inversion Hp as [|? ? Hn0 H3]; subst. destruct H1 as [Hn1 Hf1]. destruct H2 as [Hn2 Hf2]. rewrite !flat_node in E. f_equal.
    assert (Hl : length l1 = length l2) by lia. clear Hn1 Hn2.
    revert l2 Hf2 E Hl. induction Hf1 as [|t1 l1 Ht1 _ IHl]; intros [|t2 l2] Hf2 E Hl; cbn in *; try discriminate; [reflexivity|].
    inversion Hf2 as [|? ? Ht2 Hf2']; subst.
    assert (Hlen : length (flat_t t1) = length (flat_t t2)).
    { apply Nat2Z.inj. rewrite (reg_flat_length s t1 Ht1 H3), (reg_flat_length s t2 Ht2 H3). reflexivity. }
    destruct (app_inv_len _ _ _ _ Hlen E) as [E1 E2].
    rewrite (IH H3 t1 t2 Ht1 Ht2 E1). f_equal. apply IHl; [assumption|assumption|lia].
Qed.

(* with no empty dimension the shape is determined by the tree *)
Lemma reg_sizes_unique s1 : forall s2 t, Forall (fun n => 0 < n) s1 -> Forall (fun n => 0 < n) s2 ->
  length s1 = length s2 -> reg s1 t -> reg s2 t -> s1 = s2.
Proof.
  induction s1 as [|n1 s1 IH]; intros [|n2 s2] t P1 P2 Hl R1 R2; cbn in Hl; try discriminate; [reflexivity|].
  destruct t as [x|ts]; cbn [reg] in R1, R2; try contradiction.
  destruct R1 as [E1 F1]. destruct R2 as [E2 F2].
  inversion P1 as [|? ? Q1 Q1']; subst. inversion P2 as [|? ? Q2 Q2']; subst.
  f_equal. destruct ts as [|t ts]; [cbn in Q1; lia|].
  inversion F1 as [|? ? G1 _]; subst. inversion F2 as [|? ? G2 _]; subst.
  apply (IH s2 t); try assumption. lia.
Qed.

Lemma list_eqb_spec a : forall b, list_eqb a b = true <-> a = b.
Proof.
  induction a as [|x a IH]; intros [|y b]; cbn; split; intros H; try discriminate; try reflexivity.
  - bprop. subst. f_equal. apply IH. assumption.
  - inv H. rewrite Z.eqb_refl. apply IH. reflexivity.
Qed.

(* Values: inversion of the building blocks of the entry points (alloc, p_build, release, clear, destructor, adopt,
   assign_all), the frame lemma for array objects that an operation does not touch, and list bookkeeping. *)
From BM Require Import Base.Tactics Model.Life Proofs.LifeBase Proofs.LifeMonad Proofs.LifeInv Proofs.LifeCells
  Proofs.LifeSteps Proofs.LifeCombi Proofs.LifeOps Proofs.LifeOps2 Proofs.LifeDisc Proofs.LifeFacts Proofs.LifeAlloc
  Proofs.LifeVal1 Proofs.LifeVal2.
Local Open Scope Z_scope.

Ltac binv H x s1 E :=
  unfold bind at 1 in H;
  match type of H with
  | match ?t with _ => _ end = _ => destruct t as [x s1|s1|] eqn:E; [|discriminate H|discriminate H]
  end.

Ltac open_ctor H :=
  cbn [step] in H; unfold bind at 1 in H;
  match type of H with context[slot_free ?r ?s] =>
    let E := fresh "E" in destruct (slot_free r s) as [[] ?s1|?s1|?e] eqn:E; try discriminate;
    apply slot_free_lt in E; destruct E as [-> ?Hl] end.
Ltac open_get H :=
  unfold bind at 1 in H;
  match type of H with context[get_arr ?t ?s] =>
    let E := fresh "E" in destruct (get_arr t s) as [?a ?s1|?s1|?e] eqn:E; try discriminate;
    apply get_arr_inv in E; destruct E as [-> ?Hg] end.

Section Val3.
Variable cfg : config.
Notation Inv := (Inv cfg).
Notation owner_of := (owner_of).

(* the blocks an array object owns *)
Definition own (a : arr) : list nat :=
  if nel a <=? 0 then [] else match a_base a with PBlk b => [b] | PNull => [] end.

Lemma own_owner s r a b : get_slot s r = Some a -> In b (own a) -> owner_of s b r.
Proof.
  unfold own. intros Hg Hin. destruct (Z.leb_spec (nel a) 0); [destruct Hin|].
  destruct (a_base a) as [|b0] eqn:Eb; [destruct Hin|]. destruct Hin as [<-|[]]. exists a. auto.
Qed.

Lemma arr_facts s r a : Inv [] s -> get_slot s r = Some a -> 0 < nel a ->
  exists b, a_base a = PBlk b /\ (b < length (s_blocks s))%nat /\ blive s b = true /\ length (bvals s b) = nnel a
            /\ own a = [b].
Proof.
  intros I Hg Hp. destruct (inv_arr _ _ _ I r a Hg Hp) as (b & blk & Eb & Gb & Lb & Sz & _ & _).
  destruct (inv_blk _ _ _ I b blk Gb) as [[_ Len] _].
  exists b. unfold get_blk in Gb. split; auto. split; [apply nth_error_Some; congruence|].
  unfold blive, bvals, own, nnel. rewrite Gb, map_length, Len, Sz, Eb. split; auto. split; auto.
  destruct (Z.leb_spec (nel a) 0); auto; lia.
Qed.

Lemma own_lt s r a b : Inv [] s -> get_slot s r = Some a -> In b (own a) -> (b < length (s_blocks s))%nat.
Proof.
  intros I Hg Hin. unfold own in Hin. destruct (Z.leb_spec (nel a) 0); [destruct Hin|].
  destruct (arr_facts s r a I Hg ltac:(lia)) as (b0 & Eb & Lt & _). rewrite Eb in Hin. destruct Hin as [<-|[]]. auto.
Qed.

(* array objects that are not touched keep their value *)
Lemma frame_slot s s' B R q a : Inv [] s -> bsame B s s' ->
  (forall b, In b B -> exists r, In r R /\ owner_of s b r) -> ~ In q R ->
  nth_error (s_arrs s) q = Some (Some a) -> abs_arr s' a = abs_arr s a.
Proof.
  intros I [_ F] HB Hq Hn. rewrite !abs_arr_alt. f_equal. apply avals_frame. intros Hp b Eb.
  assert (Hg : get_slot s q = Some a) by (unfold get_slot; rewrite Hn; auto).
  destruct (arr_facts s q a I Hg Hp) as (b0 & Eb0 & Lt & _). assert (b0 = b) by congruence. subst b0.
  apply F; auto. intros Hin. destruct (HB b Hin) as (r & Hr & Ho).
  assert (Oq : owner_of s b q) by (exists a; auto).
  rewrite (inv_disj _ _ _ I _ _ _ Ho Oq) in Hr. auto.
Qed.

(* ---- single-slot update of the abstraction ---- *)
Lemma abs_upd1 s s' r a' X :
  (r < length (s_arrs s))%nat -> s_arrs s' = upd_nth (s_arrs s) r a' ->
  option_map (abs_arr s') a' = X ->
  (forall q a, q <> r -> nth_error (s_arrs s) q = Some (Some a) -> abs_arr s' a = abs_arr s a) ->
  abs_state s' = upd_nth (abs_state s) r X.
Proof.
  intros Hr HA HX HF. apply list_ext.
  - rewrite upd_nth_length, !abs_state_length, HA, upd_nth_length. auto.
  - intros q. rewrite abs_nth, HA. destruct (Nat.eq_dec r q) as [<-|Hne].
    + rewrite !nth_upd_same by (rewrite ?abs_state_length; auto). cbn. rewrite HX. auto.
    + rewrite !nth_upd_other by auto. rewrite abs_nth.
      destruct (nth_error (s_arrs s) q) as [[a|]|] eqn:E; cbn; auto. rewrite (HF q a); auto.
Qed.

Lemma abs_upd2 s s' r t a1 a2 X1 X2 :
  (r < length (s_arrs s))%nat -> (t < length (s_arrs s))%nat -> r <> t ->
  s_arrs s' = upd_nth (upd_nth (s_arrs s) r a1) t a2 ->
  option_map (abs_arr s') a1 = X1 -> option_map (abs_arr s') a2 = X2 ->
  (forall q a, q <> r -> q <> t -> nth_error (s_arrs s) q = Some (Some a) -> abs_arr s' a = abs_arr s a) ->
  abs_state s' = upd_nth (upd_nth (abs_state s) r X1) t X2.
Proof.
  intros Hr Ht Hrt HA H1 H2 HF. apply list_ext.
  - rewrite !upd_nth_length, !abs_state_length, HA, !upd_nth_length. auto.
  - intros q. rewrite abs_nth, HA. destruct (Nat.eq_dec t q) as [<-|Hne].
    + rewrite !nth_upd_same by (rewrite ?upd_nth_length, ?abs_state_length; auto). cbn. rewrite H2. auto.
    + rewrite (nth_upd_other _ t q) by auto. rewrite (nth_upd_other _ t q) by auto.
      destruct (Nat.eq_dec r q) as [<-|Hne2].
      * rewrite !nth_upd_same by (rewrite ?abs_state_length; auto). cbn. rewrite H1. auto.
      * rewrite !nth_upd_other by auto. rewrite abs_nth.
        destruct (nth_error (s_arrs s) q) as [[a|]|] eqn:E; cbn; auto. rewrite (HF q a); auto.
Qed.

Lemma abs_same s s' : s_arrs s' = s_arrs s ->
  (forall q a, nth_error (s_arrs s) q = Some (Some a) -> abs_arr s' a = abs_arr s a) -> abs_state s' = abs_state s.
Proof.
  intros HA HF. unfold abs_state. rewrite HA. apply list_ext; [rewrite !map_length; auto|].
  intros q. rewrite !nth_error_map. destruct (nth_error (s_arrs s) q) as [[a|]|] eqn:E; cbn; auto. rewrite (HF q a); auto.
Qed.

(* ---- alloc ---- *)
Lemma alloc_inv a n s p s1 : alloc a n s = Ok p s1 ->
  s_arrs s1 = s_arrs s /\
  ((n <= 0 /\ p = PNull /\ s_blocks s1 = s_blocks s) \/
   (0 < n /\ p = PBlk (length (s_blocks s)) /\
    s_blocks s1 = s_blocks s ++ [mkblock a n (repeat Raw (Z.to_nat n)) true])).
Proof.
  unfold alloc. destruct (Z.leb_spec n 0) as [Hn|Hn].
  - intros H; inv H. split; auto.
  - intros H. binv H u s0 E.
    assert (M : same_mem s s0).
    { destruct (a =? std_alloc); [inv E; split; auto|destruct u; apply tick_inv in E; auto]. }
    destruct M as [Mb Ma]. unfold bind, get_state, put_state, ret in H. inv H. cbn. rewrite Mb, Ma.
    split; [reflexivity|right; auto].
Qed.

Lemma bvals_app_old s bs b : (b < length (s_blocks s))%nat ->
  forall s1, s_blocks s1 = s_blocks s ++ bs -> bvals s1 b = bvals s b /\ blive s1 b = blive s b.
Proof. intros H s1 E. unfold bvals, blive. rewrite E, nth_error_app1; auto. Qed.

Lemma bvals_app_new s blk : forall s1, s_blocks s1 = s_blocks s ++ [blk] ->
  bvals s1 (length (s_blocks s)) = map cell_val (b_cells blk) /\ blive s1 (length (s_blocks s)) = b_live blk.
Proof. intros s1 E. unfold bvals, blive. rewrite E, nth_error_app2, Nat.sub_diag; auto. Qed.

(* a block freshly built with given values *)
Definition built (s0 s1 : state) (p : ptr) (n : Z) (V : list Z) : Prop :=
  s_arrs s1 = s_arrs s0 /\ bsame [] s0 s1 /\
  match p with
  | PNull => n <= 0 /\ length (s_blocks s1) = length (s_blocks s0)
  | PBlk b => 0 < n /\ b = length (s_blocks s0) /\ length (s_blocks s1) = S (length (s_blocks s0))
              /\ blive s1 b = true /\ bvals s1 b = V
  end.

Lemma map_cell_val_raw n : map cell_val (repeat Raw n) = repeat pat n.
Proof. induction n; cbn; auto. f_equal; auto. Qed.

Lemma alloc_built a n s p s1 : alloc a n s = Ok p s1 -> built s s1 p n (repeat pat (Z.to_nat n)).
Proof.
  intros H. apply alloc_inv in H. destruct H as [HA [(Hn & -> & Hb)|(Hn & -> & Hb)]].
  - split; auto. split; [apply bsame_of_eq; auto|]. rewrite Hb. auto.
  - split; auto. split.
    + split; [rewrite Hb, app_length; lia|]. intros b Hb' _. eapply bvals_app_old; eauto.
    + destruct (bvals_app_new s _ s1 Hb) as [V L]. cbn in V, L. rewrite map_cell_val_raw in V.
      rewrite Hb, app_length. cbn. repeat split; auto; lia.
Qed.

Definition srcs_old (s : state) (srcs : list src) : Prop :=
  Forall (fun x => forall b, src_blk x = Some b -> (b < length (s_blocks s))%nat) srcs.

Lemma srcs_old_not s srcs : srcs_old s srcs -> Forall (fun x => src_blk x <> Some (length (s_blocks s))) srcs.
Proof. intros H. eapply Forall_impl; [|exact H]. cbn. intros x Hx E. specialize (Hx _ E). lia. Qed.

Lemma src_val_old s s1 x : bsame [] s s1 -> (forall b, src_blk x = Some b -> (b < length (s_blocks s))%nat) ->
  src_val s1 x = src_val s x.
Proof.
  intros [_ F] Hx. destruct x; cbn in *; auto; destruct (F b (Hx b eq_refl) (fun f => f)) as [-> _]; auto.
Qed.

Lemma map_src_val_old s s1 srcs : bsame [] s s1 -> srcs_old s srcs -> map (src_val s1) srcs = map (src_val s) srcs.
Proof. intros B H. induction H; cbn; auto. f_equal; auto. eapply src_val_old; eauto. Qed.

(* the constructor pattern *)
Lemma p_build_built a n rowlen srcs s p s1 :
  srcs_old s srcs -> length srcs = Z.to_nat n ->
  p_build cfg a n rowlen srcs s = Ok p s1 -> built s s1 p n (map (src_val s) srcs).
Proof.
  intros Ho Hl H. unfold p_build in H. binv H p0 s0 E. apply alloc_built in E.
  destruct p0 as [|b]; [inv H; destruct E as (A & B & C); split; auto|].
  binv H u s2 E2. inv H. destruct E as (A & B & (Hn & -> & Len & Lv & Vs)).
  destruct u. apply construct_rows_vals in E2; [|lia|].
  2:{ pose proof (srcs_old_not s srcs Ho) as F. exact F. }
  destruct E2 as [A2 L2 Lv2 Oth Here].
  split; [congruence|]. split.
  - destruct B as [Bl Bf]. split; [lia|]. intros b Hb _. destruct (Bf b Hb (fun f => f)) as [V1 L1].
    rewrite Oth by lia. rewrite Lv2. auto.
  - split; auto. split; auto. split; [lia|]. split; [rewrite Lv2; auto|].
    rewrite Here, Vs. rewrite (map_src_val_old s s0 srcs B Ho). apply put_at_all.
    rewrite map_length, repeat_length. auto.
Qed.

(* ---- release ---- *)
Lemma dealloc_inv a p n s s' : dealloc cfg a p n s = Ok tt s' ->
  s_arrs s' = s_arrs s /\ length (s_blocks s') = length (s_blocks s) /\
  bsame (if n <=? 0 then [] else match p with PBlk b => [b] | PNull => [] end) s s' /\
  (0 < n -> exists b, p = PBlk b /\ blive s' b = false).
Proof.
  unfold dealloc. destruct (Z.leb_spec n 0) as [Hn|Hn].
  - intros H; inv H. split; auto. split; auto. split; [apply bsame_refl|lia].
  - destruct p as [|b]; [discriminate|]. destruct (nth_error (s_blocks s) b) as [blk|] eqn:Eb; [|discriminate].
    destruct (negb (b_live blk)); [discriminate|]. destruct (negb (b_size blk =? n)); [discriminate|].
    destruct (negb (alloc_eq cfg (b_owner blk) a)); [discriminate|].
    destruct (negb (c_tdtor cfg) && negb (all_raw (b_cells blk))); [discriminate|].
    intros H0; inv H0. cbn. rewrite upd_nth_length. split; auto. split; auto. split.
    + split; [cbn; rewrite upd_nth_length; auto|]. intros b' Hb' Hnin. unfold bvals, blive; cbn.
      rewrite nth_upd_other; auto. intros ->. apply Hnin. left; auto.
    + intros _. exists b. split; auto. unfold blive; cbn. rewrite nth_upd_same; auto.
      apply nth_error_Some. congruence.
Qed.

Lemma release_inv a s s' : release cfg a s = Ok tt s' ->
  s_arrs s' = s_arrs s /\ length (s_blocks s') = length (s_blocks s) /\ bsame (own a) s s'.
Proof.
  unfold release. intros H. binv H u s1 E. destruct u. apply dealloc_inv in H. destruct H as (A2 & L2 & B2 & _).
  assert (E1 : s_arrs s1 = s_arrs s /\ length (s_blocks s1) = length (s_blocks s) /\ bsame (own a) s s1).
  { unfold own. destruct (Z.leb_spec (nel a) 0).
    - rewrite orb_true_r in E. inv E. split; auto. split; auto. apply bsame_refl.
    - destruct (c_tdtor cfg); cbn in E; [inv E; split; auto; split; auto; apply bsame_refl|].
      unfold base_blk in E. destruct (a_base a) as [|b]; [discriminate|]. cbn in E.
      apply destroy_range_vals in E. destruct E as (A1 & L1 & Lv & Oth). split; auto. split; auto.
      split; [lia|]. intros b' _ Hn. split; auto. apply Oth. intros ->. apply Hn. left; auto. }
  destruct E1 as (A1 & L1 & B1). split; [congruence|]. split; [congruence|].
  eapply bsame_weaken; [eapply bsame_trans; [exact B1|exact B2]|].
  intros b Hin _. apply in_app_or in Hin. destruct Hin as [Hin|Hin]; exact Hin.
Qed.

Lemma p_clear_inv r s s' : p_clear cfg r s = Ok tt s' ->
  exists a, get_slot s r = Some a /\ s_arrs s' = upd_nth (s_arrs s) r (Some (empty_arr cfg (a_alloc a) (a_base a)))
            /\ length (s_blocks s') = length (s_blocks s) /\ bsame (own a) s s'.
Proof.
  unfold p_clear. intros H. binv H a s1 E. apply get_arr_inv in E. destruct E as [-> Hg].
  binv H u s2 E. destruct u. apply release_inv in E. destruct E as (A & L & B). inv H. exists a. cbn.
  rewrite A. split; auto.
Qed.

Lemma p_dtor_inv r s s' : p_dtor cfg r s = Ok tt s' ->
  exists a, get_slot s r = Some a /\ s_arrs s' = upd_nth (s_arrs s) r None
            /\ length (s_blocks s') = length (s_blocks s) /\ bsame (own a) s s'.
Proof.
  unfold p_dtor. intros H. binv H a s1 E. apply get_arr_inv in E. destruct E as [-> Hg].
  binv H u s2 E. destruct u. apply release_inv in E. destruct E as (A & L & B). inv H. exists a. cbn.
  rewrite A. split; auto.
Qed.

Lemma set_arr_inv r a s s' : set_arr r a s = Ok tt s' -> s_arrs s' = upd_nth (s_arrs s) r (Some a) /\ s_blocks s' = s_blocks s.
Proof. intros H; inv H. auto. Qed.

Lemma p_adopt_inv r t s s' : p_adopt cfg r t s = Ok tt s' ->
  exists ar at_, get_slot s r = Some ar /\ get_slot s t = Some at_ /\
    s_arrs s' = upd_nth (upd_nth (s_arrs s) r (Some (mkarr (a_alloc ar) (a_base at_) (a_exts at_) (a_first at_)))) t
                        (Some (empty_arr cfg (a_alloc at_) PNull)) /\ s_blocks s' = s_blocks s.
Proof.
  unfold p_adopt. intros H. binv H ar s1 E. apply get_arr_inv in E. destruct E as [-> Hr].
  binv H at_ s1 E. apply get_arr_inv in E. destruct E as [-> Ht]. unfold bind, set_arr in H. inv H.
  exists ar, at_. cbn. auto.
Qed.

Lemma p_set_alloc_inv r a s s' : p_set_alloc r a s = Ok tt s' ->
  exists ar, get_slot s r = Some ar /\ s_arrs s' = upd_nth (s_arrs s) r (Some (mkarr a (a_base ar) (a_exts ar) (a_first ar)))
             /\ s_blocks s' = s_blocks s.
Proof.
  unfold p_set_alloc. intros H. binv H ar s1 E. apply get_arr_inv in E. destruct E as [-> Hr].
  inv H. exists ar. auto.
Qed.

(* ---- whole-array assignment ---- *)
Lemma put_list_all l vs : length vs = length l -> put_list l (seqn (length l)) vs = vs.
Proof. intros H. unfold seqn. rewrite <- H, put_list_seq. apply put_at_all; auto. Qed.

Lemma assign_all_inv ar srcs s s' b :
  a_base ar = PBlk b -> 0 < nel ar -> Forall (fun x => src_blk x <> Some b) srcs ->
  length (bvals s b) = nnel ar -> length srcs = nnel ar ->
  assign_all cfg ar srcs s = Ok tt s' -> blk_step b s s' (map (src_val s) srcs).
Proof.
  intros Eb Hp Hs Hl Hl2 H. unfold assign_all in H. destruct (Z.leb_spec (nel ar) 0); [lia|].
  unfold base_blk in H. rewrite Eb in H. cbn in H. apply assign_loop_vals in H; auto.
  rewrite <- Hl in H. rewrite put_list_all in H; auto. rewrite map_length. lia.
Qed.

Lemma assign_all_nil ar srcs s s' : nel ar <= 0 -> assign_all cfg ar srcs s = Ok tt s' -> s' = s.
Proof. intros Hn H. unfold assign_all in H. destruct (Z.leb_spec (nel ar) 0); [inv H; auto|lia]. Qed.

End Val3.

(* C11, second half: every dereference of the model lies inside the root's storage [0, N).
   Addresses are offsets from the root's data_elements(); a bounds-tracking pointer whose provenance is
   [root, root + N) therefore never trips.  The statements are about DEREFERENCES: an end iterator of a strided or
   rotated view may hold an address outside [0,N) (it_end = base + nelems); it is never dereferenced (positions
   dereferenced are 0 <= p < size).  Built on C01 (represents_run) and C02 (iterator laws). *)
From BM Require Import Base.Tactics Model.Layout Model.View Model.Spec Model.Iter Model.Assign Model.Compare
  Model.PtrAlgebra
  Proofs.LayoutProofs Proofs.ViewProofs Proofs.ViewProofs2 Proofs.IterProofs Proofs.ElemProofs Proofs.C01Main
  Proofs.C02Main Proofs.AssignProofs Proofs.CompareProofs.
Local Open Scope Z_scope.

Definition inb (N : Z) (a : Z) : Prop := 0 <= a < N.

Lemma prod_nonneg sz : Forall (fun n => 0 <= n) sz -> 0 <= prod sz.
Proof. induction 1 as [|n r Hn _ IH]; cbn; [lia|]. fold (prod r). nia. Qed.
Lemma lay_ok_nonneg l sz : lay_ok l sz -> Forall (fun n => 0 <= n) sz.
Proof. induction 1 as [|d n l sz Hd _ IH]; constructor; [destruct Hd as (_ & _ & H & _); exact H|exact IH]. Qed.
Lemma prod_pos_all sz : Forall (fun n => 0 <= n) sz -> 0 < prod sz -> Forall (fun n => 0 < n) sz.
Proof.
  induction 1 as [|n r Hn Hr IH]; intros Hp; constructor; cbn in Hp; fold (prod r) in Hp;
    pose proof (prod_nonneg _ Hr); [nia|apply IH; nia].
Qed.

Section Reach.
  Variables (sz : list Z) (ops : list op) (v : view).
  Hypothesis Hsz : Forall (fun n => 0 <= n) sz.
  Hypothesis Hops : Forall c01_op ops.
  Hypothesis Hrun : run_ops ops (root_view (zb sz)) = Some v.
  Let a := run_spec ops (root_spec sz).
  Let N := prod sz.

  Lemma reach_rep : represents (collapse sz) v a.
  Proof. exact (represents_run _ ops _ _ _ Hops (represents_root sz Hsz) Hrun). Qed.
  Lemma reach_ok : lay_ok (lay v) (asz a).
  Proof. exact (proj1 reach_rep). Qed.

  Lemma reach_addr idx : valid_idx (asz a) idx -> inb N (v_addr v idx).
  Proof.
    intros Hv. destruct (proj2 reach_rep idx Hv) as [Hr E]. unfold inb. rewrite E.
    apply rowmajor_bounds in Hr. rewrite prod_collapse in Hr. exact Hr.
  Qed.

  Lemma reach_size : er_size v = prod (asz a).
  Proof. apply lay_ok_num_elements, reach_ok. Qed.

  Lemma reach_canon k : 0 <= k < er_size v -> valid_idx (asz a) (canon v k).
  Proof.
    intros Hk. rewrite reach_size in Hk.
    assert (Hpos : Forall (fun n => 0 < n) (asz a)) by (apply prod_pos_all; [apply (lay_ok_nonneg _ _ reach_ok)|lia]).
    pose proof (lay_ok_okg _ _ reach_ok) as Hg.
    assert (Hp : Forall (fun p : Z * Z => 0 < snd p) (map (fun n => (0, n)) (asz a))) by (rewrite Forall_map; exact Hpos).
    pose proof (lay_okg_xpos _ _ Hg Hp) as HX.
    pose proof (lay_okg_numel _ _ Hg Hp) as HN.
    assert (Hin : in_ext (l_extensions (lay v)) (canon v k)).
    { unfold canon. apply FL_in; [exact HX|]. rewrite <- HN. change (l_num_elements (lay v)) with (er_size v).
      rewrite reach_size. exact Hk. }
    rewrite (lay_ok_extensions _ _ reach_ok) in Hin. fold (zb (asz a)) in Hin. apply in_ext_zb in Hin. exact Hin.
  Qed.

  (* every cell of elements(): what =, fill, swap, == ... iterate over *)
  Lemma reach_e_addr k : 0 <= k < er_size v -> inb N (e_addr v k).
  Proof. intros Hk. unfold e_addr. rewrite er_at_canon. apply reach_addr, reach_canon, Hk. Qed.

  Lemma reach_footprint : Forall (inb N) (footprint v).
  Proof.
    unfold footprint. rewrite Forall_map. apply Forall_forall. intros k Hin.
    apply reach_e_addr. clear -Hin. revert Hin. generalize (er_size v). intros n Hin.
    assert (G : forall m k, In k (iota m) -> 0 <= k < Z.of_nat m).
    { induction m as [|m IH]; intros j Hj; cbn in Hj; [contradiction|].
      apply in_app_or in Hj as [Hj|[<-|[]]]; [specialize (IH _ Hj)|]; lia. }
    specialize (G _ _ Hin). lia.
  Qed.

  Theorem reach_deref_in_bounds :
       (* indexing: brackets, call syntax, cursor *)
       (forall idx, valid_idx (asz a) idx ->
            inb N (addr_brackets v idx) /\ inb N (addr_paren v idx) /\ inb N (addr_cursor v idx))
       (* iterators of the leading dimension, positions [begin, end): every element of the dereferenced sub-view
          (the element itself for rank 1) *)
    /\ (forall n r, asz a = n :: r -> forall p, 0 <= p < n -> forall idx, valid_idx r idx ->
            inb N (v_addr (it_deref (it_add (it_begin v) p)) idx))
       (* flat iterators after any trace inside [begin, end], dereferenced before end; also it[k] inside the range *)
    /\ (forall tr, trace_ok (er_size v) 0 tr = true -> run_pos tr 0 < er_size v ->
            inb N (e_deref (run_e tr (er_begin v))))
       (* elements()[k], front(), back() and the cells the element loops visit *)
    /\ (forall k, 0 <= k < er_size v -> inb N (e_addr v k))
    /\ Forall (inb N) (footprint v).
  Proof.
    split; [|split; [|split; [|split]]].
    - intros idx Hv.
      destruct (C01_view_algebra_proved sz ops v Hsz Hops Hrun) as [_ H]. fold a in H.
      destruct (H idx Hv) as (_ & _ & Ep & Ec & Hb). unfold inb, N. rewrite Ep, Ec. auto.
    - intros n r E p Hp idx Hidx.
      destruct (C02_reachable_proved sz ops v Hsz Hops Hrun) as [H _]. fold a in H.
      destruct (H n r E) as [_ H1]. destruct (H1 ltac:(lia)) as (d & l & _ & _ & _ & H2).
      destruct (H2 p Hp) as [_ H3]. rewrite (H3 idx Hidx).
      assert (Hv : valid_idx (asz a) (p :: idx)) by (rewrite E; constructor; [lia|exact Hidx]).
      destruct (proj2 reach_rep _ Hv) as [Hr _]. apply rowmajor_bounds in Hr. rewrite prod_collapse in Hr. exact Hr.
    - intros tr Htr Hlt.
      destruct (Z.eq_dec (er_size v) 0) as [E0|Hne].
      + rewrite E0 in Htr. destruct (trace0 tr Htr (er_begin v)) as [_ E]. lia.
      + assert (Hsp : 0 < prod (asz a)).
        { pose proof (prod_nonneg _ (lay_ok_nonneg _ _ reach_ok)). rewrite reach_size in Hne. lia. }
        assert (Hpos : Forall (fun n => 0 < n) (asz a)) by (apply prod_pos_all; [apply (lay_ok_nonneg _ _ reach_ok)|exact Hsp]).
        destruct (C02_reachable_proved sz ops v Hsz Hops Hrun) as [_ H]. fold a in H.
        destruct (H Hpos) as (_ & _ & _ & H4). destruct (H4 tr Htr Hlt) as [Hv E]. unfold inb. rewrite E.
        destruct (proj2 reach_rep _ Hv) as [Hr _]. apply rowmajor_bounds in Hr. rewrite prod_collapse in Hr. exact Hr.
    - exact reach_e_addr.
    - exact reach_footprint.
  Qed.

  (* the leaves of the value tree (what ==, <, ... read) are elements of the view *)
  Lemma tree_leaves l : forall szs b, lay_ok l szs ->
    Forall (fun x => exists idx, valid_idx szs idx /\ x = b + l_addr l idx) (flat_t (abs_l l b (fun x => x))).
  Proof.
    induction l as [|d l IH]; intros szs b Hok; inv Hok; cbn [abs_l].
    - cbn. constructor; [|constructor]. exists []. split; [constructor|cbn; lia].
    - rename y into n. rename l' into szs'.
      rewrite (dim_ok_extension _ _ H1), (dim_ok_size _ _ H1). cbn [fst].
      destruct H1 as (Ho & _ & Hn0 & _).
      rewrite CompareProofs.flat_node.
      assert (G : forall m, (Z.of_nat m <= n) ->
        Forall (fun x => exists idx, valid_idx (n :: szs') idx /\ x = b + l_addr (d :: l) idx)
          (CompareProofs.flat_list (map (fun i => abs_l l (b + ((0 + i) * d_stride d - d_offset d)) (fun x => x)) (iotaz m)))).
      { induction m as [|m IHm]; intros Hm; cbn [iotaz map CompareProofs.flat_list]; [constructor|].
        rewrite map_app. cbn [map].
        assert (App : forall t1 t2, CompareProofs.flat_list (t1 ++ t2) = CompareProofs.flat_list t1 ++ CompareProofs.flat_list t2).
        { induction t1 as [|t t1 IHt]; intros t2; cbn; [reflexivity|]. rewrite IHt, app_assoc. reflexivity. }
        rewrite App. apply Forall_app. split; [apply IHm; lia|].
        cbn [CompareProofs.flat_list]. rewrite app_nil_r.
        specialize (IH szs' (b + ((0 + Z.of_nat m) * d_stride d - d_offset d)) H3).
        eapply Forall_impl; [|exact IH]. cbn beta. intros x (idx & Hv & ->).
        exists (Z.of_nat m :: idx). split; [constructor; [lia|exact Hv]|]. cbn [l_addr]. lia. }
      apply G. lia.
  Qed.

  Lemma reach_tree : Forall (inb N) (derefs_tree v).
  Proof.
    unfold derefs_tree, v_tree. pose proof (tree_leaves (lay v) (asz a) (base v) reach_ok) as H.
    eapply Forall_impl; [|exact H]. cbn beta. intros x (idx & Hv & ->). apply (reach_addr idx Hv).
  Qed.
End Reach.

(* ---------------- the element loops touch nothing but their deref lists ---------------- *)
(* A step with support sup (the cells it may read or write): outside it nothing changes, and what it leaves in the
   support depends only on what was there.  Then the whole loop reads and writes only flat_map sup. *)
Section Support.
  Variable step : mem -> Z -> mem.
  Variable sup : Z -> list Z.
  Hypothesis Hout : forall m k x, ~ In x (sup k) -> step m k x = m x.
  Hypothesis Hdep : forall m m' k, (forall x, In x (sup k) -> m x = m' x) -> forall x, In x (sup k) -> step m k x = step m' k x.

  Lemma fold_out l : forall m x, ~ In x (flat_map sup l) -> fold_left step l m x = m x.
  Proof.
    induction l as [|k l IH]; intros m x Hx; cbn [fold_left]; [reflexivity|].
    cbn [flat_map] in Hx. rewrite IH by (intro; apply Hx, in_or_app; right; assumption).
    apply Hout. intro. apply Hx, in_or_app. left. assumption.
  Qed.
  Lemma fold_dep l : forall m m', (forall x, In x (flat_map sup l) -> m x = m' x) ->
    forall x, In x (flat_map sup l) -> fold_left step l m x = fold_left step l m' x.
  Proof.
    induction l as [|k l IH]; intros m m' Hag x Hx; cbn [fold_left]; [contradiction|].
    cbn [flat_map] in Hag, Hx.
    assert (Hstep : forall y, In y (sup k ++ flat_map sup l) -> step m k y = step m' k y).
    { intros y Hy. destruct (in_dec Z.eq_dec y (sup k)) as [Hi|Hn].
      - apply Hdep; [|exact Hi]. intros z Hz. apply Hag, in_or_app. left. exact Hz.
      - rewrite !Hout by exact Hn. apply Hag, Hy. }
    destruct (in_dec Z.eq_dec x (flat_map sup l)) as [Hi|Hn].
    - apply IH; [|exact Hi]. intros y Hy. apply Hstep, in_or_app. right. exact Hy.
    - rewrite !fold_out by exact Hn. apply Hstep, Hx.
  Qed.
End Support.

Lemma upd_in m a c x : upd m a c x = if x =? a then c else m x.
Proof. reflexivity. Qed.

Section LoopSupports.
  Variables (D S : Z -> Z) (conv : Z -> Z) (x0 : Z) (vals : list Z).

  Lemma copy1_out m k x : ~ In x [S k; D k] -> copy1 conv D S m k x = m x.
  Proof. intros H. unfold copy1. apply upd_other. intros E. apply H. rewrite E. cbn [In]; auto. Qed.
  Lemma copy1_dep m m' k : (forall x, In x [S k; D k] -> m x = m' x) -> forall x, In x [S k; D k] ->
    copy1 conv D S m k x = copy1 conv D S m' k x.
  Proof.
    intros H x Hx. unfold copy1, upd. rewrite (H (S k)) by (cbn [In]; auto).
    destruct (x =? D k); [reflexivity|apply H, Hx].
  Qed.
  Lemma move1_out m k x : ~ In x [S k; D k] -> move1 D S m k x = m x.
  Proof. intros H. unfold move1. rewrite !upd_other; [reflexivity| |]; intros E; apply H; rewrite E; cbn [In]; auto. Qed.
  Lemma move1_dep m m' k : (forall x, In x [S k; D k] -> m x = m' x) -> forall x, In x [S k; D k] ->
    move1 D S m k x = move1 D S m' k x.
  Proof.
    intros H x Hx. unfold move1, upd. rewrite (H (S k)) by (cbn [In]; auto).
    destruct (x =? D k); [reflexivity|]. destruct (x =? S k); [reflexivity|apply H, Hx].
  Qed.
  Lemma fill1_out m k x : ~ In x [D k] -> fill1 x0 D m k x = m x.
  Proof. intros H. unfold fill1. apply upd_other. intros E. apply H. rewrite E. cbn [In]; auto. Qed.
  Lemma fill1_dep m m' k : (forall x, In x [D k] -> m x = m' x) -> forall x, In x [D k] ->
    fill1 x0 D m k x = fill1 x0 D m' k x.
  Proof. intros H x Hx. unfold fill1, upd. destruct (x =? D k); [reflexivity|apply H, Hx]. Qed.
  Lemma swap1_out m k x : ~ In x [D k; S k] -> swap1 D S m k x = m x.
  Proof. intros H. unfold swap1. rewrite !upd_other; [reflexivity| |]; intros E; apply H; rewrite E; cbn [In]; auto. Qed.
  Lemma swap1_dep m m' k : (forall x, In x [D k; S k] -> m x = m' x) -> forall x, In x [D k; S k] ->
    swap1 D S m k x = swap1 D S m' k x.
  Proof.
    intros H x Hx. unfold swap1, upd. rewrite (H (S k)), (H (D k)) by (cbn [In]; auto).
    destruct (x =? S k); [reflexivity|]. destruct (x =? D k); [reflexivity|apply H, Hx].
  Qed.
  Lemma put1_out m k x : ~ In x [D k] -> put1 vals D m k x = m x.
  Proof. intros H. unfold put1. apply upd_other. intros E. apply H. rewrite E. cbn [In]; auto. Qed.
  Lemma put1_dep m m' k : (forall x, In x [D k] -> m x = m' x) -> forall x, In x [D k] ->
    put1 vals D m k x = put1 vals D m' k x.
  Proof. intros H x Hx. unfold put1, upd. destruct (x =? D k); [reflexivity|apply H, Hx]. Qed.
End LoopSupports.

(* the deref lists are sound: outside them storage is unchanged, inside them the result depends only on them *)
Definition touches_only (f : mem -> mem) (T : list Z) : Prop :=
     (forall m x, ~ In x T -> f m x = m x)
  /\ (forall m m', (forall x, In x T -> m x = m' x) -> forall x, In x T -> f m x = f m' x).

Lemma touches_nil : touches_only (fun m => m) [].
Proof. split; [reflexivity|intros; contradiction]. Qed.

Theorem loops_touch_only_derefs_proved : forall (conv : Z -> Z) (x : Z) (vals : list Z) (dst src : view),
     touches_only (assign_view conv dst src) (derefs_assign dst src)
  /\ touches_only (move_view dst src) (derefs_move dst src)
  /\ touches_only (fill_view x dst) (derefs_fill dst)
  /\ touches_only (swap_views dst src) (derefs_swap dst src)
  /\ touches_only (assign_vals vals dst) (derefs_vals dst).
Proof.
  intros conv x vals dst src.
  unfold derefs_move, derefs_vals, derefs_assign, derefs_fill, derefs_swap, assign_view, move_view, fill_view, swap_views,
    assign_vals, loop, ks.
  repeat split.
  - destruct (l_num_elements (lay dst) =? 0); [reflexivity|]. intros m y. apply fold_out. intros. apply copy1_out. assumption.
  - destruct (l_num_elements (lay dst) =? 0); [intros; contradiction|]. intros m m'. apply fold_dep.
    + intros. apply copy1_out. assumption.
    + intros. apply copy1_dep; assumption.
  - destruct (l_num_elements (lay dst) =? 0); [reflexivity|]. intros m y. apply fold_out. intros. apply move1_out. assumption.
  - destruct (l_num_elements (lay dst) =? 0); [intros; contradiction|]. intros m m'. apply fold_dep.
    + intros. apply move1_out. assumption.
    + intros. apply move1_dep; assumption.
  - intros m y. apply fold_out. intros. apply fill1_out. assumption.
  - intros m m'. apply fold_dep; intros; [apply fill1_out|apply fill1_dep]; assumption.
  - intros m y. apply fold_out. intros. apply swap1_out. assumption.
  - intros m m'. apply fold_dep; intros; [apply swap1_out|apply swap1_dep]; assumption.
  - intros m y. apply fold_out. intros. apply put1_out. assumption.
  - intros m m'. apply fold_dep; intros; [apply put1_out|apply put1_dep]; assumption.
Qed.

(* comparison reads only the leaves of the value tree *)
Fixpoint map_tree (f : Z -> Z) (t : tree) : tree :=
  match t with Leaf x => Leaf (f x) | Node ts => Node (map (map_tree f) ts) end.

Lemma abs_l_reads l : forall b (m m' : Z -> Z),
  (forall x, In x (flat_t (abs_l l b (fun y => y))) -> m x = m' x) -> abs_l l b m = abs_l l b m'.
Proof.
  induction l as [|d l IH]; intros b m m' H; cbn [abs_l] in *.
  - f_equal. apply H. cbn. tauto.
  - f_equal. apply map_ext_in. intros i Hi. apply IH. intros x Hx. apply H.
    rewrite CompareProofs.flat_node.
    clear -Hi Hx. induction (iotaz (Z.to_nat (d_size d))) as [|j js IHj]; [contradiction|].
    cbn [map CompareProofs.flat_list]. apply in_or_app. destruct Hi as [->|Hi]; [left; exact Hx|right; apply IHj, Hi].
Qed.

Theorem compare_reads_only_leaves_proved : forall (a b : view) (m m' : Z -> Z),
  (forall x, In x (derefs_compare a b) -> m x = m' x) ->
     v_tree a m = v_tree a m' /\ v_tree b m = v_tree b m'
  /\ v_eq a b m = v_eq a b m' /\ v_ne a b m = v_ne a b m' /\ v_lt a b m = v_lt a b m' /\ v_le a b m = v_le a b m'
  /\ v_gt a b m = v_gt a b m' /\ v_ge a b m = v_ge a b m'.
Proof.
  intros a b m m' H.
  assert (Ta : v_tree a m = v_tree a m').
  { apply abs_l_reads. intros x Hx. apply H. unfold derefs_compare. apply in_or_app. left. exact Hx. }
  assert (Tb : v_tree b m = v_tree b m').
  { apply abs_l_reads. intros x Hx. apply H. unfold derefs_compare. apply in_or_app. right. exact Hx. }
  unfold v_le, v_gt, v_ge, v_eq, v_ne, v_lt. rewrite Ta, Tb. repeat split; reflexivity.
Qed.

(* the loops' deref lists are made of cells of the two views' element ranges *)
Lemma in_ks n k : In k (ks n) -> 0 <= k < n.
Proof.
  unfold ks. intros H.
  assert (G : forall m j, In j (iota m) -> 0 <= j < Z.of_nat m).
  { induction m as [|m IH]; intros j Hj; cbn in Hj; [contradiction|].
    apply in_app_or in Hj as [Hj|[<-|[]]]; [specialize (IH _ Hj)|]; lia. }
  specialize (G _ _ H). lia.
Qed.

Lemma derefs_are_elements (dst src : view) : er_size dst = er_size src ->
  forall x,
     (In x (derefs_assign dst src) \/ In x (derefs_swap dst src) \/ In x (derefs_fill dst)) ->
     (exists k, 0 <= k < er_size dst /\ x = e_addr dst k) \/ (exists k, 0 <= k < er_size src /\ x = e_addr src k).
Proof.
  intros E x [H|[H|H]].
  - unfold derefs_assign in H. destruct (l_num_elements (lay dst) =? 0); [contradiction|].
    apply in_flat_map in H as (k & Hk & Hx). apply in_ks in Hk. cbn in Hx.
    destruct Hx as [<-|[<-|[]]]; [right|left]; exists k; split; try reflexivity; lia.
  - unfold derefs_swap in H. apply in_flat_map in H as (k & Hk & Hx). apply in_ks in Hk. cbn in Hx.
    destruct Hx as [<-|[<-|[]]]; [left|right]; exists k; split; try reflexivity; lia.
  - unfold derefs_fill in H. apply in_flat_map in H as (k & Hk & Hx). apply in_ks in Hk. cbn in Hx.
    destruct Hx as [<-|[]]. left. exists k. split; [exact Hk|reflexivity].
Qed.

(* C11_deref_in_bounds, assembled.  dst and src are reached from their own roots (sizes szd, szs); addresses of each
   are relative to its own root, which is the provenance a bounds-tracking pointer carries. *)
Theorem deref_in_bounds_proved :
  forall (sz : list Z) (ops : list op) (v : view),
    Forall (fun n => 0 <= n) sz -> Forall c01_op ops -> run_ops ops (root_view (zb sz)) = Some v ->
    let a := run_spec ops (root_spec sz) in let N := prod sz in
       (forall idx, valid_idx (asz a) idx ->
            inb N (addr_brackets v idx) /\ inb N (addr_paren v idx) /\ inb N (addr_cursor v idx))
    /\ (forall n r, asz a = n :: r -> forall p, 0 <= p < n -> forall idx, valid_idx r idx ->
            inb N (v_addr (it_deref (it_add (it_begin v) p)) idx))
    /\ (forall tr, trace_ok (er_size v) 0 tr = true -> run_pos tr 0 < er_size v ->
            inb N (e_deref (run_e tr (er_begin v))))
    /\ (forall k, 0 <= k < er_size v -> inb N (e_addr v k))
    /\ Forall (inb N) (footprint v)
    /\ Forall (inb N) (derefs_tree v).
Proof.
  intros sz ops v Hsz Hops Hrun a N.
  destruct (reach_deref_in_bounds sz ops v Hsz Hops Hrun) as (H1 & H2 & H3 & H4 & H5).
  split; [exact H1|]. split; [exact H2|]. split; [exact H3|]. split; [exact H4|]. split; [exact H5|].
  apply (reach_tree sz ops v Hsz Hops Hrun).
Qed.

Theorem loops_in_bounds_proved :
  forall (szd szs : list Z) (opsd opss : list op) (dst src : view),
    Forall (fun n => 0 <= n) szd -> Forall c01_op opsd -> run_ops opsd (root_view (zb szd)) = Some dst ->
    Forall (fun n => 0 <= n) szs -> Forall c01_op opss -> run_ops opss (root_view (zb szs)) = Some src ->
    er_size dst = er_size src ->
    forall x, (In x (derefs_assign dst src) \/ In x (derefs_swap dst src) \/ In x (derefs_fill dst)) ->
       (exists k, x = e_addr dst k /\ inb (prod szd) x) \/ (exists k, x = e_addr src k /\ inb (prod szs) x).
Proof.
  intros szd szs opsd opss dst src Hd1 Hd2 Hd3 Hs1 Hs2 Hs3 E x Hx.
  destruct (derefs_are_elements dst src E x Hx) as [(k & Hk & ->)|(k & Hk & ->)]; [left|right]; exists k; split; try reflexivity.
  - apply (reach_e_addr szd opsd dst Hd1 Hd2 Hd3 k Hk).
  - apply (reach_e_addr szs opss src Hs1 Hs2 Hs3 k Hk).
Qed.

(* an end iterator may hold an out-of-range ADDRESS (never dereferenced): column 2 of a 2x3 array has its elements at
   2 and 5 and its end() at 8, outside [0,6) *)
Example end_address_outside :
  exists w, run_ops [ORotated; OIndex 2] (root_view (zb [2; 3])) = Some w
    /\ ibase (it_end w) = 8 /\ (ibase (it_end w) <? prod [2; 3]) = false
    /\ it_diff (it_end w) (it_begin w) = 2
    /\ map (fun p => base (it_deref (it_add (it_begin w) p))) [0; 1] = [2; 5].
Proof. eexists. vm_compute. repeat split. Qed.

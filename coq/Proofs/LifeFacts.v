(* Consequences of the invariant and direct facts about single operations (C04, C06, C08, C09, C10). *)
From BM Require Import Base.Tactics Model.Life Proofs.LifeBase Proofs.LifeMonad Proofs.LifeInv Proofs.LifeCells
  Proofs.LifeSteps Proofs.LifeCombi Proofs.LifeOps Proofs.LifeOps2 Proofs.LifeOps3 Proofs.LifeOps4 Proofs.LifeDisc Proofs.LifeMain.
Local Open Scope Z_scope.

Section Facts.
Variable cfg : config.
Hypothesis rank_pos : (1 <= c_rank cfg)%nat.

Notation Good := (Good cfg).

(* ---- C08: when the last array object is gone nothing is outstanding ---- *)
Lemma filter_nil {A} (f : A -> bool) l : (forall x, In x l -> f x = false) -> filter f l = [].
Proof. induction l; cbn; intros H; auto. rewrite (H a (or_introl eq_refl)). apply IHl. intros; apply H; right; auto. Qed.

Lemma count_raw cs : all_raw cs = true ->
  length (filter (fun c => match c with Raw => false | _ => true end) cs) = 0%nat.
Proof.
  induction cs as [|c cs IH]; cbn; auto. destruct c; cbn; intros H; try discriminate. auto.
Qed.

Lemma alive_zero (l : list block) : (forall blk, In blk l -> all_raw (b_cells blk) = true) ->
  fold_right (fun blk acc => acc + Z.of_nat (length (filter (fun c => match c with Raw => false | _ => true end) (b_cells blk)))) 0 l = 0.
Proof.
  induction l as [|blk l IH]; cbn; auto. intros H.
  rewrite IH by (intros; apply H; right; auto). rewrite (count_raw _ (H blk (or_introl eq_refl))). reflexivity.
Qed.

Theorem balanced_at_end s :
  Good s -> (forall r, (r < NP)%nat -> get_slot s r = None) ->
  live_blocks s = [] /\ (c_tdtor cfg = false -> alive_cells s = 0).
Proof.
  intros (I & W & (T1 & T2 & T3)) Hnone.
  assert (Hdead : forall blk, In blk (s_blocks s) -> b_live blk = false).
  { intros blk Hin. destruct (b_live blk) eqn:El; auto. exfalso.
    apply In_nth_error in Hin. destruct Hin as [b Hb].
    destruct (inv_noleak _ _ _ I b blk Hb El) as [[]|[r (a & Ha & _)]].
    assert (Hr := get_slot_lt _ _ _ Ha). rewrite (inv_nslots _ _ _ I) in Hr.
    destruct (Nat.lt_ge_cases r NP) as [Hu|Ht]; [rewrite Hnone in Ha by auto; discriminate|].
    unfold get_slot, NP, NSLOTS, TMP1, TMP2, TMP3 in *.
    assert (r = 6 \/ r = 7 \/ r = 8)%nat as [->|[->| ->]] by lia; [rewrite T1 in Ha|rewrite T2 in Ha|rewrite T3 in Ha]; discriminate. }
  split.
  - unfold live_blocks. apply filter_nil. exact Hdead.
  - intros Ht. unfold alive_cells.
    assert (Hall : forall blk, In blk (s_blocks s) -> all_raw (b_cells blk) = true).
    { intros blk Hin. pose proof (Hdead blk Hin) as Hd. apply In_nth_error in Hin. destruct Hin as [b Hb].
      destruct (inv_blk _ _ _ I b blk Hb) as [_ Hdo]. apply Hdo; auto. }
    apply alive_zero. exact Hall.
Qed.

(* ---- C04: disjoint storage is part of the invariant ---- *)
Theorem storage_disjoint s r r' a a' b :
  Good s -> get_slot s r = Some a -> get_slot s r' = Some a' -> 0 < nel a -> 0 < nel a' ->
  a_base a = PBlk b -> a_base a' = PBlk b -> r = r'.
Proof.
  intros (I & _) H1 H2 P1 P2 B1 B2. eapply (inv_disj _ _ _ I r r' b); [exists a|exists a']; auto.
Qed.

(* every array object with elements is backed by a live block of exactly that many constructed cells whose producer
   equals the array's allocator *)
Theorem layout_matches_block s r a :
  Good s -> get_slot s r = Some a -> arr_valid cfg s a = true
  /\ (0 < nel a -> exists b blk, a_base a = PBlk b /\ get_blk s b = Some blk /\ b_live blk = true
                                /\ alloc_eq cfg (b_owner blk) (a_alloc a) = true).
Proof.
  intros (I & _) Hs. split.
  - unfold arr_valid. destruct (Z.leb_spec (nel a) 0); auto.
    destruct (inv_arr _ _ _ I r a Hs H) as (b & blk & Hb & Hblk & Hl & Hsz & _ & Hok).
    unfold arr_block. rewrite Hb. unfold get_blk in Hblk. rewrite Hblk, Hl.
    apply andb_true_intro. split; [apply Z.eqb_eq; auto|]. apply forallb_forall. intros c Hc.
    eapply Forall_forall in Hok; eauto.
  - intros Hp. destruct (inv_arr _ _ _ I r a Hs Hp) as (b & blk & Hb & Hblk & Hl & _ & Hal & _). exists b, blk. auto.
Qed.

(* ---- C04 / C09: operations that need no storage: moves and swap copy nothing and do not allocate ---- *)
Theorem move_ctor_no_copy r t s s' : step cfg (OCtorMove r t) (reset_counts s) = Ok tt s' -> s_copies s' = 0 /\ s_allocs s' = 0.
Proof.
  remember (reset_counts s) as s0 eqn:E0.
  assert (Hc : s_copies s0 = 0 /\ s_allocs s0 = 0) by (subst; auto). clear E0.
  cbn [step]. unfold bind, slot_free, get_arr.
  destruct (nth_error (s_arrs s0) r) as [[|]|]; try discriminate.
  destruct (nth_error (s_arrs s0) t) as [[a|]|]; try discriminate. intros E. inv E. cbn. auto.
Qed.

Theorem swap_no_copy r t s s' : step cfg (OSwap r t) (reset_counts s) = Ok tt s' -> s_copies s' = 0 /\ s_allocs s' = 0.
Proof.
  remember (reset_counts s) as s0 eqn:E0.
  assert (Hc : s_copies s0 = 0 /\ s_allocs s0 = 0) by (subst; auto). clear E0.
  cbn [step]. unfold bind, get_arr.
  destruct (nth_error (s_arrs s0) r) as [[a|]|]; try discriminate.
  destruct (nth_error (s_arrs s0) t) as [[a'|]|]; try discriminate.
  destruct (r =? t)%nat; intros E; inv E; cbn; auto.
Qed.

(* self-assignment changes nothing *)
Theorem self_copy_assign_noop r s s' : step cfg (OAssignCopy r r) s = Ok tt s' -> s' = s.
Proof.
  cbn [step]. rewrite Nat.eqb_refl. unfold bind, get_arr.
  destruct (nth_error (s_arrs s) r) as [[a|]|]; try discriminate. cbn. intros E; inv E; auto.
Qed.
Theorem self_move_assign_noop r s s' : step cfg (OAssignMove r r) s = Ok tt s' -> s' = s.
Proof.
  cbn [step]. unfold bind, get_arr, move_assign. rewrite Nat.eqb_refl.
  destruct (nth_error (s_arrs s) r) as [[a|]|]; try discriminate. cbn. intros E; inv E; auto.
Qed.

(* ---- C06: reextent to the current extensions keeps everything (storage, hence iterators and views) ---- *)
Theorem reextent_same_noop r x fv s a :
  get_slot s r = Some a -> bx_eq x (arr_bx a) = true -> step cfg (OReextent r x fv) s = Ok tt s.
Proof.
  intros Hs He. cbn [step]. unfold bind, get_arr. unfold get_slot in Hs.
  destruct (nth_error (s_arrs s) r) as [[a'|]|]; try discriminate. inv Hs. rewrite He. reflexivity.
Qed.
Theorem reextent_move_same_noop r x s a :
  get_slot s r = Some a -> bx_eq x (arr_bx a) = true -> step cfg (OReextentMove r x) s = Ok tt s.
Proof.
  intros Hs He. cbn [step]. unfold bind, get_arr. unfold get_slot in Hs.
  destruct (nth_error (s_arrs s) r) as [[a'|]|]; try discriminate. inv Hs. rewrite He. reflexivity.
Qed.

(* reshape keeps the block, hence the flat element sequence *)
Theorem reshape_flat r x s s' a :
  get_slot s r = Some a -> step cfg (OReshape r x) s = Ok tt s' ->
  s_blocks s' = s_blocks s /\ exists a', get_slot s' r = Some a' /\ a_base a' = a_base a /\ a_alloc a' = a_alloc a
                                        /\ arr_bx a' = norm_bx x /\ nel a' = nel a.
Proof.
  intros Hs. cbn [step]. unfold bind, get_arr. pose proof (get_slot_lt _ _ _ Hs) as Hl. unfold get_slot in Hs.
  destruct (nth_error (s_arrs s) r) as [[a0|]|] eqn:E; try discriminate. inv Hs.
  destruct (bnumel x =? nel a) eqn:En; [|discriminate]. bprop. intros H. inv H. split; auto.
  exists (with_bx (a_alloc a) (a_base a) x). split; [apply get_slot_set_same; auto|].
  repeat split; auto. rewrite nel_with_bx; auto.
Qed.

(* clear() and = {} leave an empty array object, whatever it held *)
Theorem clear_empty r s s' a :
  Good s -> get_slot s r = Some a -> step cfg (OClear r) s = Ok tt s' ->
  exists a', get_slot s' r = Some a' /\ a_exts a' = zeros (c_rank cfg) /\ a_first a' = zeros (c_rank cfg) /\ nel a' = 0
             /\ a_alloc a' = a_alloc a.
Proof.
  intros (I & _) Hs E. pose proof (get_slot_lt _ _ _ Hs) as Hl. cbn [step] in E.
  assert (Hn : nth_error (s_arrs s) r = Some (Some a)).
  { unfold get_slot in Hs. destruct (nth_error (s_arrs s) r) as [[a0|]|]; try discriminate. congruence. }
  pose proof (clear_ok cfg rank_pos [] (s_arrs s) r a Hn s (conj I eq_refl)) as Tr. rewrite E in Tr. destruct Tr as [_ HA].
  exists (empty_arr cfg (a_alloc a) (a_base a)). split.
  - unfold get_slot. rewrite HA, nth_upd_same; auto.
  - repeat split; auto. apply (nel_empty cfg); auto.
Qed.

(* ---- C08: sizing constructors do not write elements of trivially default-constructible types ---- *)
Theorem sized_ctor_trivial_not_written r a x s s' :
  c_tdc cfg = true -> step cfg (OCtorSized r a x) s = Ok tt s' ->
  exists a', get_slot s' r = Some a' /\
    (0 < bnumel x -> exists b blk, a_base a' = PBlk b /\ get_blk s' b = Some blk /\ b_cells blk = repeat Raw (Z.to_nat (bnumel x))).
Proof.
  intros Ht. cbn [step]. unfold bind at 1. unfold slot_free.
  destruct (nth_error (s_arrs s) r) as [[|]|] eqn:Er; try discriminate.
  assert (Hl : (r < length (s_arrs s))%nat) by (apply nth_error_Some; congruence).
  unfold bind at 1. unfold alloc. destruct (bnumel x <=? 0) eqn:En.
  - cbn. intros E. inv E. eexists. split; [apply get_slot_set_same; auto|]. bprop. intros; lia.
  - unfold bind at 1.
    assert (Hpush : forall s1, s_arrs s1 = s_arrs s ->
      match (s0 <- get_state ;;
             put_state (add_allocs (if a =? std_alloc then 0 else 1)
               (emit (EvAlloc a (length (s_blocks s0)) (bnumel x))
                  (set_blocks s0 (s_blocks s0 ++ [mkblock a (bnumel x) (repeat Raw (Z.to_nat (bnumel x))) true])))) ;;;
             ret (PBlk (length (s_blocks s0)))) s1 with
      | Ok p s2 => (match p with PBlk b => if c_tdc cfg then ret tt else default_construct_n b 0 (Z.to_nat (bnumel x)) | PNull => ret tt end ;;;
                    install r a p x) s2
      | Threw s2 => Threw s2 | Err e => Err e end = Ok tt s' ->
      exists a', get_slot s' r = Some a' /\
        (0 < bnumel x -> exists b blk, a_base a' = PBlk b /\ get_blk s' b = Some blk /\ b_cells blk = repeat Raw (Z.to_nat (bnumel x)))).
    { intros s1 HA. cbn. rewrite Ht. cbn. intros E. inv E.
      eexists. split; [unfold get_slot; cbn; rewrite HA, nth_upd_same by auto; reflexivity|]. intros _.
      exists (length (s_blocks s1)), (mkblock a (bnumel x) (repeat Raw (Z.to_nat (bnumel x))) true).
      split; [reflexivity|]. split; [|reflexivity]. unfold get_blk; cbn.
      rewrite nth_error_app2 by lia. rewrite Nat.sub_diag. reflexivity. }
    destruct (a =? std_alloc).
    + cbn [ret]. apply Hpush. reflexivity.
    + unfold tick. destruct (s_fault s) as [[|[|k]]|]; try (apply Hpush; reflexivity). discriminate.
Qed.

(* ---- C10: which allocator an array object ends up with ---- *)
Definition alloc_of (s : state) (r : nat) : option Z := option_map a_alloc (get_slot s r).

Lemma build_install_alloc r al n x rowlen srcs s s' :
  (r < length (s_arrs s))%nat ->
  (p <- p_build cfg al n rowlen srcs ;; install r al p x) s = Ok tt s' -> alloc_of s' r = Some al.
Proof.
  intros Hl. unfold bind at 1. pose proof (keeps_p_build cfg al n rowlen srcs s) as K.
  destruct (p_build cfg al n rowlen srcs s) as [p s1|s1|e] eqn:E; try discriminate.
  unfold install. rewrite set_arr_eq. intros H. inv H. unfold alloc_of, set_slot.
  rewrite get_slot_set_same by (rewrite K; auto). reflexivity.
Qed.

Lemma slot_free_lt r s s1 : slot_free r s = Ok tt s1 -> s1 = s /\ (r < length (s_arrs s))%nat.
Proof.
  unfold slot_free. destruct (nth_error (s_arrs s) r) as [[|]|] eqn:E; try discriminate.
  intros H; inv H. split; auto. apply nth_error_Some. congruence.
Qed.
Lemma get_arr_inv r s a s1 : get_arr r s = Ok a s1 -> s1 = s /\ get_slot s r = Some a.
Proof.
  unfold get_arr, get_slot. destruct (nth_error (s_arrs s) r) as [[a0|]|]; try discriminate. intros H; inv H. auto.
Qed.

Ltac open_ctor H :=
  cbn [step] in H; unfold bind at 1 in H;
  match type of H with context[slot_free ?r ?s] =>
    let E := fresh "E" in destruct (slot_free r s) as [[] ?s1|?s1|?e] eqn:E; try discriminate;
    apply slot_free_lt in E; destruct E as [-> ?Hl] end.
Ltac open_get H :=
  unfold bind at 1 in H;
  match type of H with context[get_arr ?t ?s] =>
    let E := fresh "E" in destruct (get_arr t s) as [?a ?s1|?s1|?e] eqn:E; try discriminate;
    apply get_arr_inv in E; destruct E as [-> ?Hg] end.

(* copy construction uses select_on_container_copy_construction *)
Theorem copy_ctor_allocator r t s s' at_ :
  get_slot s t = Some at_ -> step cfg (OCtorCopy r t) s = Ok tt s' -> alloc_of s' r = Some (socc cfg (a_alloc at_)).
Proof.
  intros Ht H. open_ctor H. open_get H. assert (a = at_) by congruence. subst. cbv zeta in H.
  eapply build_install_alloc; eauto.
Qed.

(* allocator-extended constructors use the supplied allocator *)
Theorem ctor_sized_allocator r a x s s' : step cfg (OCtorSized r a x) s = Ok tt s' -> alloc_of s' r = Some a.
Proof.
  intros H. open_ctor H. unfold bind at 1 in H. pose proof (keeps_alloc a (bnumel x) s) as K.
  destruct (alloc a (bnumel x) s) as [p s1|s1|e]; try discriminate.
  unfold bind at 1 in H.
  assert (K2 : keeps (match p with PBlk b => if c_tdc cfg then ret tt else default_construct_n b 0 (Z.to_nat (bnumel x)) | PNull => ret tt end)).
  { destruct p; [apply keeps_ret|]. destruct (c_tdc cfg); [apply keeps_ret|apply keeps_default_construct_n]. }
  specialize (K2 s1).
  match type of H with match ?m with _ => _ end = _ => destruct m as [[] s2|s2|e] end; try discriminate.
  unfold install in H. rewrite set_arr_eq in H. inv H. unfold alloc_of, set_slot.
  rewrite get_slot_set_same by (rewrite K2, K; auto). reflexivity.
Qed.
Theorem ctor_fill_allocator r a x v s s' : step cfg (OCtorFill r a x v) s = Ok tt s' -> alloc_of s' r = Some a.
Proof. intros H. open_ctor H. eapply build_install_alloc; eauto. Qed.
Theorem ctor_copy_alloc_allocator r t a s s' : step cfg (OCtorCopyAlloc r t a) s = Ok tt s' -> alloc_of s' r = Some a.
Proof. intros H. open_ctor H. open_get H. eapply build_install_alloc; eauto. Qed.
Theorem ctor_view_allocator r a t v s s' : step cfg (OCtorView r a t v) s = Ok tt s' -> alloc_of s' r = Some a.
Proof. intros H. open_ctor H. open_get H. eapply build_install_alloc; eauto. Qed.
Theorem ctor_range_allocator r a w s s' : step cfg (OCtorRange r a w) s = Ok tt s' -> alloc_of s' r = Some a.
Proof. intros H. open_ctor H. eapply build_install_alloc; eauto. Qed.

(* swap exchanges the allocators exactly when propagate_on_container_swap says so *)
Theorem swap_allocators r t s s' ar at_ :
  r <> t -> get_slot s r = Some ar -> get_slot s t = Some at_ -> step cfg (OSwap r t) s = Ok tt s' ->
  alloc_of s' r = Some (if c_pocs cfg then a_alloc at_ else a_alloc ar) /\
  alloc_of s' t = Some (if c_pocs cfg then a_alloc ar else a_alloc at_).
Proof.
  intros Hne Hr Ht H. cbn [step] in H. open_get H. open_get H.
  assert (a = ar) by congruence. assert (a0 = at_) by congruence. subst.
  destruct (Nat.eqb_spec r t); [congruence|]. unfold bind in H. rewrite !set_arr_eq in H. inv H.
  pose proof (get_slot_lt _ _ _ Hr) as Lr. pose proof (get_slot_lt _ _ _ Ht) as Lt.
  unfold alloc_of. split.
  - rewrite get_slot_set_slot by (cbn; rewrite upd_nth_length; auto).
    destruct (Nat.eqb_spec t r); [congruence|]. rewrite get_slot_set_slot by auto. rewrite Nat.eqb_refl. reflexivity.
  - rewrite get_slot_set_slot by (cbn; rewrite upd_nth_length; auto). rewrite Nat.eqb_refl. reflexivity.
Qed.

(* ---- C04: extents after copy construction / construction from a view; what a move constructor leaves ---- *)
Lemma build_install_extents r al n x rowlen srcs s s' :
  (r < length (s_arrs s))%nat ->
  (p <- p_build cfg al n rowlen srcs ;; install r al p x) s = Ok tt s' ->
  exists a', get_slot s' r = Some a' /\ arr_bx a' = norm_bx x.
Proof.
  intros Hl. unfold bind at 1. pose proof (keeps_p_build cfg al n rowlen srcs s) as K.
  destruct (p_build cfg al n rowlen srcs s) as [p s1|s1|e] eqn:E; try discriminate.
  unfold install. rewrite set_arr_eq. intros H. inv H. exists (with_bx al p x). split; [|reflexivity].
  unfold set_slot. rewrite get_slot_set_same by (rewrite K; auto). reflexivity.
Qed.

Theorem copy_ctor_extents r t s s' at_ :
  get_slot s t = Some at_ -> step cfg (OCtorCopy r t) s = Ok tt s' ->
  exists a', get_slot s' r = Some a' /\ arr_bx a' = norm_bx (arr_bx at_).
Proof.
  intros Ht H. open_ctor H. open_get H. assert (a = at_) by congruence. subst. cbv zeta in H.
  eapply build_install_extents; eauto.
Qed.

Theorem view_ctor_extents r a t v s s' :
  step cfg (OCtorView r a t v) s = Ok tt s' -> exists a', get_slot s' r = Some a' /\ arr_bx a' = norm_bx (vs_exts v).
Proof. intros H. open_ctor H. open_get H. eapply build_install_extents; eauto. Qed.

(* move construction transfers base pointer and extensions, and leaves the source empty (and valid: the invariant holds) *)
Theorem move_ctor_transfers r t s s' at_ :
  r <> t -> get_slot s t = Some at_ -> step cfg (OCtorMove r t) s = Ok tt s' ->
  get_slot s' r = Some (mkarr (a_alloc at_) (a_base at_) (a_exts at_) (a_first at_)) /\
  get_slot s' t = Some (empty_arr cfg (a_alloc at_) PNull) /\ s_blocks s' = s_blocks s.
Proof.
  intros Hne Ht H. open_ctor H. open_get H. assert (a = at_) by congruence. subst.
  pose proof (get_slot_lt _ _ _ Ht) as Lt.
  unfold bind in H. rewrite !set_arr_eq in H. inv H. split; [|split; [|reflexivity]].
  - rewrite get_slot_set_slot by (cbn; rewrite upd_nth_length; auto). destruct (Nat.eqb_spec t r); [congruence|].
    rewrite get_slot_set_slot by auto. rewrite Nat.eqb_refl. reflexivity.
  - rewrite get_slot_set_slot by (cbn; rewrite upd_nth_length; auto). rewrite Nat.eqb_refl. reflexivity.
Qed.

End Facts.

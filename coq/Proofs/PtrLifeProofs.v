(* C11, lifecycle part: every cell the lifecycle machine (Model/Life.v) touches lies inside a LIVE block.
   The machine's element micro-steps (allocator_traits::construct / destroy, element read, element assignment, moved-from
   marking) all go through get_cell, which returns Err when the block is unknown (EUnknownBlock), released (EDangling)
   or the index is not a cell of the block (EOutOfBlock).  So (1) a micro-step that does not return Err touched a cell
   of a live block, with index below the block's size; (2) conversely an access outside a live block is one of those
   three errors; (3) by the lifecycle theorems (life_safe_nofault, life_safe_fault: C08 / C09) no history in its
   documented domain ever produces an Err -- hence construct_loop, assign_loop, destroy_range, the reextent transfer
   ... never touch a cell outside a live block.  This is the model-side statement of "a bounds-checking pointer
   whose provenance is the block never trips, and a released block is never dereferenced". *)
From BM Require Import Base.Tactics Model.Life Proofs.LifeMonad Proofs.LifeInv Proofs.LifeOps Proofs.LifeMain Proofs.LifeFacts.
Local Open Scope Z_scope.

Definition in_live_block (s : state) (b i : nat) : Prop :=
  exists blk, nth_error (s_blocks s) b = Some blk /\ b_live blk = true /\ (i < length (b_cells blk))%nat.

Definition access_err (e : err) : Prop := e = EOutOfBlock \/ e = EDangling \/ e = EUnknownBlock.

Lemma get_cell_ok b i s c s' : get_cell b i s = Ok c s' -> s' = s /\ in_live_block s b i.
Proof.
  unfold get_cell, bind, get_block. destruct (nth_error (s_blocks s) b) as [blk|] eqn:E; [|discriminate].
  destruct (b_live blk) eqn:L; [|discriminate].
  destruct (nth_error (b_cells blk) i) as [c'|] eqn:C; cbn; [|discriminate].
  intros H. inv H. split; [reflexivity|]. exists blk. repeat split; auto.
  apply nth_error_Some. congruence.
Qed.

Lemma get_cell_outside b i s : ~ in_live_block s b i -> exists e, get_cell b i s = Err e /\ access_err e.
Proof.
  intros H. unfold get_cell, bind, get_block. destruct (nth_error (s_blocks s) b) as [blk|] eqn:E.
  - destruct (b_live blk) eqn:L.
    + destruct (nth_error (b_cells blk) i) as [c'|] eqn:C; cbn.
      * exfalso. apply H. exists blk. repeat split; auto. apply nth_error_Some. congruence.
      * exists EOutOfBlock. split; [reflexivity|left; reflexivity].
    + exists EDangling. split; [reflexivity|right; left; reflexivity].
  - exists EUnknownBlock. split; [reflexivity|right; right; reflexivity].
Qed.

(* a micro-step of the form  c <- get_cell b i ;; k c *)
Lemma via_get_cell {A} b i (k : cell -> M A) s :
     (forall x s', (c <- get_cell b i ;; k c) s = Ok x s' -> in_live_block s b i)
  /\ (forall s', (c <- get_cell b i ;; k c) s = Threw s' -> in_live_block s b i)
  /\ (~ in_live_block s b i -> exists e, (c <- get_cell b i ;; k c) s = Err e /\ access_err e).
Proof.
  unfold bind. destruct (get_cell b i s) as [c s1| s1 | e] eqn:G.
  - apply get_cell_ok in G as [-> L]. repeat split; intros; auto. contradiction.
  - exfalso. unfold get_cell, bind, get_block in G. destruct (nth_error (s_blocks s) b) as [blk|]; [|discriminate].
    destruct (b_live blk); [|discriminate]. destruct (nth_error (b_cells blk) i); discriminate.
  - repeat split; try discriminate. intros H. destruct (get_cell_outside b i s H) as (e' & E' & A').
    rewrite G in E'. inv E'. exists e'. split; [reflexivity|exact A'].
Qed.

Theorem life_steps_touch_live_cells_proved : forall cfg b i v s,
     (forall s', construct1 b i v s = Ok tt s' -> in_live_block s b i)
  /\ (forall s', destroy1 b i s = Ok tt s' -> in_live_block s b i)
  /\ (forall x s', read1 cfg b i s = Ok x s' -> in_live_block s b i)
  /\ (forall s', assign1 cfg b i v s = Ok tt s' -> in_live_block s b i)
  /\ (c_quiet cfg = false -> forall s', mark_moved cfg b i s = Ok tt s' -> in_live_block s b i)
  /\ (~ in_live_block s b i ->
        (exists e, construct1 b i v s = Err e /\ access_err e) /\ (exists e, destroy1 b i s = Err e /\ access_err e)
     /\ (exists e, read1 cfg b i s = Err e /\ access_err e) /\ (exists e, assign1 cfg b i v s = Err e /\ access_err e)).
Proof.
  intros cfg b i v s. unfold construct1, destroy1, read1, assign1, mark_moved.
  split; [intros s' H; destruct s'; eapply (proj1 (via_get_cell b i _ s)); exact H|].
  split; [intros s' H; eapply (proj1 (via_get_cell b i _ s)); exact H|].
  split; [intros x s' H; eapply (proj1 (via_get_cell b i _ s)); exact H|].
  split; [intros s' H; eapply (proj1 (via_get_cell b i _ s)); exact H|].
  split; [intros T s' H; rewrite T in H; eapply (proj1 (via_get_cell b i _ s)); exact H|].
  intros H. repeat split; apply (proj2 (proj2 (via_get_cell b i _ s))); exact H.
Qed.

(* the index is below the block's size whenever the block is well formed (part of the invariant Good) *)
Lemma live_cell_below_size cfg s b i : Good cfg s -> in_live_block s b i ->
  exists blk, nth_error (s_blocks s) b = Some blk /\ b_live blk = true /\ Z.of_nat i < b_size blk.
Proof.
  intros (I & _) (blk & E & L & Hi). exists blk. repeat split; auto.
  destruct (inv_blk _ _ _ I b blk E) as [[Hp Hl] _]. rewrite Hl in Hi. lia.
Qed.

(* no history in its documented domain ever accesses a cell outside a live block: fault-free ... *)
Theorem life_no_access_outside_live_blocks_proved :
  forall cfg, (1 <= c_rank cfg)%nat -> forall (h : list lop), hist_dom cfg h (st0 None) ->
    let '(outs, s') := run_life cfg h (st0 None) in
    Good cfg s' /\ Forall (fun o => forall e, o = OutErr e -> ~ access_err e) outs.
Proof.
  intros cfg Hr h D. pose proof (life_safe_nofault cfg Hr h D) as S.
  destruct (run_life cfg h (st0 None)) as [outs s']. destruct S as [G F]. split; [exact G|].
  eapply Forall_impl; [|exact F]. cbn beta. intros o -> e E. discriminate E.
Qed.

(* ... and with an injected fault at any point, at the sites the lifecycle theorem covers *)
Theorem life_no_access_outside_live_blocks_fault_proved :
  forall cfg, (1 <= c_rank cfg)%nat -> forall (h : list lop) (k : nat), hist_dom cfg h (st0 (Some k)) ->
    let '(outs, s') := run_life cfg h (st0 (Some k)) in
    (forall w, In (EvThrow w) (s_ledger s') -> ok_site w) ->
    Good cfg s' /\ Forall (fun o => forall e, o = OutErr e -> ~ access_err e) outs.
Proof.
  intros cfg Hr h k D. pose proof (life_safe_fault cfg Hr h k D) as S.
  destruct (run_life cfg h (st0 (Some k))) as [outs s']. intros Hs. destruct (S Hs) as [G F]. split; [exact G|].
  eapply Forall_impl; [|exact F]. cbn beta. intros o N e ->. cbn in N. contradiction.
Qed.

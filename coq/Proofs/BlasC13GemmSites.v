(* C13 -- gemm, site by site: (1) under the named condition of its site (Model/BlasC13Crit.v: gemm_site_cond) every
   listed call site satisfies the criterion, for all sizes and strides; (2) in general position (all sizes >= 2) every
   site except those of gemm_general_position_defect does.  With Proofs/BlasC13Gemm.v (criterion sound) these give
   legality + result + frame. *)
From BM Require Import Base.Tactics Model.BlasC13 Model.BlasC13Ref Model.BlasC13Crit Proofs.BlasC13RefProofs Proofs.BlasC13Gemm.
Local Open Scope Z_scope.
Local Open Scope bool_scope.

Ltac bgoal :=
  lazymatch goal with
  | |- true = true => reflexivity
  | |- negb false = true => reflexivity
  | |- andb _ _ = true => apply andb_true_intro; split; bgoal
  | |- orb _ _ = true => apply orb_true_iff; first [left; solve [bgoal] | right; solve [bgoal]]
  | |- (_ <=? _) = true => apply Z.leb_le; lia
  | |- (_ <? _) = true => apply Z.ltb_lt; lia
  | |- (_ =? _) = true => apply Z.eqb_eq; lia
  | |- _ => fail
  end.
Ltac hprop H :=
  rewrite ?andb_true_iff, ?andb_false_iff, ?orb_true_iff, ?orb_false_iff, ?negb_true_iff, ?negb_false_iff,
          ?Z.eqb_eq, ?Z.eqb_neq, ?Z.leb_le, ?Z.leb_gt, ?Z.ltb_lt, ?Z.ltb_ge in H.

Theorem gemm_site_conditions a b c k :
  wf_mat a -> wf_mat b -> wf_mat c -> shapes_conform a b c -> mconj c = false ->
  gemm_n a b c = OCall k ->
  gemm_site_cond k a b c = true ->
  gemm_implements_b k a b c = true.
Proof.
  unfold wf_mat, shapes_conform. intros Wa Wb Wc S Cc D ND.
  destruct a as [pa a0 a1 ra ca ja], b as [pb b0 b1 rb cb jb], c as [pc c0 c1 rc cc jc].
  cbn [mconj rows cols s0 s1 mbase] in *. subst jc.
  unfold gemm_n in D. cbn [mconj] in D.
  destruct ja, jb; [unfold gemm_jj in D | unfold gemm_jn in D | unfold gemm_nj in D | unfold gemm_nn in D];
  cbn [mconj rows cols s0 s1 mbase] in D.
  all: destruct (a0 =? 1) eqn:A0, (a1 =? 1) eqn:A1, (b0 =? 1) eqn:B0, (b1 =? 1) eqn:B1, (c0 =? 1) eqn:C0, (c1 =? 1) eqn:C1;
       cbn [andb] in D.
  all: repeat match type of D with
         | (if ?x then _ else _) = _ => let E := fresh "E" in destruct x eqn:E
         end; try discriminate D.
  all: injection D as D; subst k.
  all: unfold gemm_site_cond in ND; cbn [g_site rows cols s0 s1 mbase] in ND;
       match type of ND with context [?x =? ?y] => idtac end.
  all: repeat match type of ND with
       | (if ?s =? ?t then _ else _) = true => let b := eval vm_compute in (s =? t) in change (s =? t) with b in ND; cbv iota in ND
       end; try discriminate ND.
  all: unfold gemm_implements_b, gemm_legal, out_is, out_is_tr, op_is, op_is_tr, agree;
  cbn [g_site g_ta g_tb g_m g_n g_k g_pa g_lda g_pb g_ldb g_pc g_ldc mconj rows cols s0 s1 mbase is_n opconj Bool.eqb negb].
  all: repeat match goal with H : _ = true |- _ => hprop H | H : _ = false |- _ => hprop H end.
  all: solve [bgoal].
Qed.

Theorem gemm_general_position a b c k :
  wf_mat a -> wf_mat b -> wf_mat c -> shapes_conform a b c -> mconj c = false ->
  2 <= rows a -> 2 <= cols a -> 2 <= cols b ->
  gemm_n a b c = OCall k ->
  gemm_general_position_defect k a b = false ->
  gemm_implements_b k a b c = true.
Proof.
  unfold wf_mat, shapes_conform. intros Wa Wb Wc S Cc M2 K2 N2 D ND.
  destruct a as [pa a0 a1 ra ca ja], b as [pb b0 b1 rb cb jb], c as [pc c0 c1 rc cc jc].
  cbn [mconj rows cols s0 s1 mbase] in *. subst jc.
  unfold gemm_n in D. cbn [mconj] in D.
  assert (Z1 : (ra =? 0) = false) by lia. assert (Z2 : (ra =? 1) = false) by lia.
  assert (Z3 : (cb =? 1) = false) by lia. assert (Z4 : (ca =? 1) = false) by lia.
  destruct ja, jb; [unfold gemm_jj in D | unfold gemm_jn in D | unfold gemm_nj in D | unfold gemm_nn in D];
  cbn [mconj rows cols s0 s1 mbase] in D; rewrite ?Z1, ?Z2, ?Z3, ?Z4 in D; clear Z1 Z2 Z3 Z4.
  all: destruct (a0 =? 1) eqn:A0, (a1 =? 1) eqn:A1, (b0 =? 1) eqn:B0, (b1 =? 1) eqn:B1, (c0 =? 1) eqn:C0, (c1 =? 1) eqn:C1;
       cbn [andb] in D; try discriminate D.
  all: injection D as D; subst k.
  all: unfold gemm_general_position_defect in ND; cbn [g_site rows cols] in ND.
  all: unfold gemm_implements_b, gemm_legal, out_is, out_is_tr, op_is, op_is_tr, agree;
  cbn [g_site g_ta g_tb g_m g_n g_k g_pa g_lda g_pb g_ldb g_pc g_ldc mconj rows cols s0 s1 mbase is_n opconj Bool.eqb negb].
  all: repeat match goal with H : _ = true |- _ => hprop H | H : _ = false |- _ => hprop H end.
  all: solve [bgoal].
Qed.

(* Values: move assignment, the temporaries of the assignment operators, and the squares of the assignments. *)
From BM Require Import Base.Tactics Model.Life Proofs.LifeBase Proofs.LifeMonad Proofs.LifeInv Proofs.LifeCells
  Proofs.LifeSteps Proofs.LifeCombi Proofs.LifeOps Proofs.LifeOps2 Proofs.LifeDisc Proofs.LifeFacts Proofs.LifeAlloc
  Proofs.LifeVal1 Proofs.LifeVal2 Proofs.LifeVal3 Proofs.LifeVal4 Proofs.LifeVal5.
Local Open Scope Z_scope.

Ltac upd_solve :=
  apply list_ext; [rewrite ?upd_nth_length; reflexivity|];
  let q := fresh "q" in intros q;
  repeat (rewrite nth_upd by (rewrite ?upd_nth_length; assumption));
  repeat match goal with |- context[(?a =? ?b)%nat] => destruct (Nat.eqb_spec a b); subst end;
  try reflexivity; try congruence; try lia.

Section Val6.
Variable cfg : config.
Hypothesis rank_pos : (1 <= c_rank cfg)%nat.
Notation Inv := (Inv cfg).
Notation Good := (Good cfg).
Notation val_dom := (val_dom cfg).
Notation pool_ok := (pool_ok cfg).
Set Default Proof Using "cfg rank_pos".
(* BEGIN-NOTATIONS *)
Notation vget_abs := (LifeVal4.vget_abs cfg rank_pos). Notation slot_ok := (LifeVal4.slot_ok cfg rank_pos). Notation nth_get_slot := (LifeVal4.nth_get_slot cfg rank_pos). Notation abs_arr_blocks_eq := (LifeVal4.abs_arr_blocks_eq cfg rank_pos). Notation abs_arr_realloc := (LifeVal4.abs_arr_realloc cfg rank_pos). Notation abs_empty := (LifeVal4.abs_empty cfg rank_pos). Notation own_empty := (LifeVal4.own_empty cfg rank_pos). Notation avals_built := (LifeVal4.avals_built cfg rank_pos). Notation keeps_blk_eq := (LifeVal4.keeps_blk_eq cfg rank_pos). Notation built_step := (LifeVal4.built_step cfg rank_pos). Notation built_bsame := (LifeVal4.built_bsame cfg rank_pos). Notation build_install_abs := (LifeVal4.build_install_abs cfg rank_pos). Notation map_nth_seq := (LifeVal4.map_nth_seq cfg rank_pos). Notation cells_of_nil := (LifeVal4.cells_of_nil cfg rank_pos). Notation cells_of_length := (LifeVal4.cells_of_length cfg rank_pos). Notation cells_of_vals := (LifeVal4.cells_of_vals cfg rank_pos). Notation cells_of_blk := (LifeVal4.cells_of_blk cfg rank_pos). Notation cells_facts := (LifeVal4.cells_facts cfg rank_pos). Notation sq_CtorDefault := (LifeVal4.sq_CtorDefault cfg rank_pos). Notation dflt_fill := (LifeVal4.dflt_fill cfg rank_pos). Notation sq_CtorSized := (LifeVal4.sq_CtorSized cfg rank_pos). Notation map_src_val_SVal := (LifeVal4.map_src_val_SVal cfg rank_pos). Notation srcs_old_SVal := (LifeVal4.srcs_old_SVal cfg rank_pos). Notation repeat_SVal := (LifeVal4.repeat_SVal cfg rank_pos). Notation sq_CtorFill := (LifeVal4.sq_CtorFill cfg rank_pos). Notation copy_square := (LifeVal4.copy_square cfg rank_pos). Notation sq_CtorCopy := (LifeVal4.sq_CtorCopy cfg rank_pos). Notation sq_CtorCopyAlloc := (LifeVal4.sq_CtorCopyAlloc cfg rank_pos). Notation move_square := (LifeVal4.move_square cfg rank_pos). Notation free_live_ne := (LifeVal4.free_live_ne cfg rank_pos). Notation live_lt_len := (LifeVal4.live_lt_len cfg rank_pos). Notation sq_CtorMove := (LifeVal4.sq_CtorMove cfg rank_pos). Notation bvals_blocks_eq := (LifeVal4.bvals_blocks_eq cfg rank_pos). Notation bsame_blocks_eq := (LifeVal4.bsame_blocks_eq cfg rank_pos). Notation bsame_nil_own := (LifeVal4.bsame_nil_own cfg rank_pos). Notation sq_CtorMoveAlloc := (LifeVal4.sq_CtorMoveAlloc cfg rank_pos). Notation view_facts := (LifeVal4.view_facts cfg rank_pos). Notation sq_CtorView := (LifeVal4.sq_CtorView cfg rank_pos). Notation sq_CtorRange := (LifeVal4.sq_CtorRange cfg rank_pos). Notation sq_CtorConv := (LifeVal4.sq_CtorConv cfg rank_pos). Notation own_with_bx := (LifeVal4.own_with_bx cfg rank_pos). Notation upd_tmp_cancel := (LifeVal4.upd_tmp_cancel cfg rank_pos). Notation sq_CtorIl := (LifeVal4.sq_CtorIl cfg rank_pos).
Notation avals_direct := (LifeVal5.avals_direct cfg rank_pos). Notation frame_own := (LifeVal5.frame_own cfg rank_pos). Notation live_get := (LifeVal5.live_get cfg rank_pos). Notation sq_clear := (LifeVal5.sq_clear cfg rank_pos). Notation sq_Clear := (LifeVal5.sq_Clear cfg rank_pos). Notation sq_AssignIlEmpty := (LifeVal5.sq_AssignIlEmpty cfg rank_pos). Notation sq_Destroy := (LifeVal5.sq_Destroy cfg rank_pos). Notation vset_same_get := (LifeVal5.vset_same_get cfg rank_pos). Notation sq_Swap := (LifeVal5.sq_Swap cfg rank_pos). Notation sq_Reshape := (LifeVal5.sq_Reshape cfg rank_pos). Notation cell_step_bsame := (LifeVal5.cell_step_bsame cfg rank_pos). Notation sq_Write := (LifeVal5.sq_Write cfg rank_pos). Notation assign_all_square := (LifeVal5.assign_all_square cfg rank_pos).
(* END-NOTATIONS *)

Lemma blk_step_bsame b s s' V : blk_step b s s' V -> bsame [b] s s'.
Proof.
  intros [A L Lv Oth Here]. split; [lia|]. intros b' _ Hn. split; auto. apply Oth. intros ->. apply Hn. left; auto.
Qed.

Lemma dflt_after b n s4 s' : bvals s4 b = repeat pat n ->
  (if c_tdc cfg then ret tt else value_construct_n b n) s4 = Ok tt s' ->
  blk_step b s4 s' (repeat (dflt_val cfg) n).
Proof.
  intros Hv H. unfold dflt_val. destruct (c_tdc cfg).
  - inv H. rewrite <- Hv. apply blk_step_refl.
  - unfold value_construct_n in H. apply default_construct_vals in H. rewrite Hv in H.
    rewrite put_at_all in H; auto. rewrite !repeat_length. auto.
Qed.

Lemma p_dtor_empty r s s' a : get_slot s r = Some a -> nel a <= 0 -> p_dtor cfg r s = Ok tt s' ->
  s_arrs s' = upd_nth (s_arrs s) r None /\ s_blocks s' = s_blocks s.
Proof.
  intros Hg Hn H. unfold p_dtor in H. open_get H. assert (a0 = a) by congruence. subst a0.
  binv H u s1 E. unfold release in E. destruct (Z.leb_spec (nel a) 0); [|lia]. rewrite orb_true_r in E.
  unfold bind, ret, dealloc in E. destruct (Z.leb_spec (nel a) 0); [|lia]. inv E. inv H. auto.
Qed.

Lemma sq_ReextentMove r x s s' : Good s -> dom_op cfg (s_arrs s) (OReextentMove r x) ->
  step cfg (OReextentMove r x) s = Ok tt s' -> abs_state s' = vstep cfg (OReextentMove r x) (abs_state s).
Proof.
  intros (I & W & T) (ar & L) H. destruct (live_get s r ar L) as (Gr & Hr & _). destruct L as [_ Nr].
  cbn [step] in H. open_get H. assert (a = ar) by congruence. subst a.
  cbn [vstep]. rewrite (vget_abs s r ar Nr), abs_arr_alt. destruct (bx_eq x (arr_bx ar)); [inv H; auto|].
  unfold vset. set (n := bnumel x) in *.
  binv H u s1 E1. destruct u. apply release_inv in E1. destruct E1 as (A1 & L1 & B1).
  binv H u s2 E2. destruct u. apply set_arr_inv in E2. destruct E2 as [A2 K2].
  binv H p s3 E3. apply on_throw_ok in E3. apply alloc_built in E3. destruct E3 as (A3 & B3 & Hp).
  binv H u s4 E4. destruct u. apply set_arr_inv in E4. destruct E4 as [A4 K4].
  assert (A5 : s_arrs s' = upd_nth (s_arrs s) r (Some (with_bx (a_alloc ar) p x)) /\
               bsame (own ar) s s' /\
               match p with PNull => n <= 0 | PBlk b => 0 < n /\ blive s' b = true /\ bvals s' b = repeat (dflt_val cfg) (Z.to_nat n) end).
  { assert (B4 : bsame (own ar) s s4).
    { eapply bsame_blocks_eq; [|exact K4]. rewrite <- (app_nil_r (own ar)). eapply bsame_trans; [|exact B3].
      eapply bsame_blocks_eq; [exact B1|exact K2]. }
    assert (A4' : s_arrs s4 = upd_nth (s_arrs s) r (Some (with_bx (a_alloc ar) p x))).
    { rewrite A4, A3, A2, A1, upd_nth_twice. auto. }
    destruct p as [|b].
    - inv H. destruct Hp as [Hn _]. auto.
    - destruct Hp as (Hn & Eb & Len & Lv & Vs).
      destruct (bvals_blocks_eq s3 s4 K4 b) as [V4 L4].
      apply dflt_after in H; [|rewrite V4; exact Vs].
      pose proof (blk_step_bsame _ _ _ _ H) as B5. destruct H as [A5 L5 Lv5 Oth Here].
      split; [congruence|]. split.
      + eapply bsame_weaken; [exact (bsame_trans _ _ _ _ _ B4 B5)|].
        intros b' Hin Hlt. apply in_app_or in Hin. destruct Hin as [Hin|[<-|[]]]; auto.
        rewrite K2 in Eb. lia.
      + split; auto. split; auto. rewrite Lv5, L4. auto. }
  destruct A5 as (A5 & B5 & Hp5).
  eapply abs_upd1; [exact Hr|exact A5| |].
  - cbn [option_map]. f_equal. rewrite abs_arr_alt, arr_bx_with. f_equal.
    eapply avals_direct; [exact Hp5|apply nel_with_bx|reflexivity|apply repeat_length].
  - intros q a Hq Hn. eapply frame_own; eauto.
Qed.

(* ---- move assignment ---- *)
Definition arr_live (s : state) (a : arr) : Prop :=
  0 < nel a -> exists b, a_base a = PBlk b /\ (b < length (s_blocks s))%nat /\ blive s b = true /\ length (bvals s b) = nnel a.

Lemma arr_live_inv s r a : Inv [] s -> get_slot s r = Some a -> arr_live s a.
Proof. intros I Hg Hn. destruct (arr_facts cfg s r a I Hg Hn) as (b & Eb & Lt & Lv & Len & _). exists b. auto. Qed.

Lemma own_live_lt s a b : arr_live s a -> In b (own a) -> (b < length (s_blocks s))%nat.
Proof.
  intros Hl Hin. unfold own in Hin. destruct (Z.leb_spec (nel a) 0); [destruct Hin|].
  destruct (Hl ltac:(lia)) as (b0 & Eb & Lt & _). rewrite Eb in Hin. destruct Hin as [<-|[]]. auto.
Qed.

Lemma cells_live s a mk : arr_live s a -> (mk = SCell \/ mk = SMoveCell) ->
  srcs_old s (cells_of mk a) /\ length (cells_of mk a) = Z.to_nat (nel a) /\
  map (src_val s) (cells_of mk a) = avals s a.
Proof.
  intros Hl Hm. destruct (Z.leb_spec (nel a) 0) as [Hn|Hn].
  - rewrite cells_of_nil by auto. split; [constructor|]. split; [cbn; lia|].
    unfold avals. destruct (Z.leb_spec (nel a) 0); auto; lia.
  - destruct (Hl Hn) as (b & Eb & Lt & Lv & Len).
    pose proof (cells_of_blk mk a b Hm Eb) as Fb. split; [|split].
    + eapply Forall_impl; [|exact Fb]. cbn. intros x Hx b' Hb'. congruence.
    + rewrite cells_of_length; eauto.
    + rewrite (cells_of_vals s mk a b Hm Eb Len). unfold avals. rewrite Eb, Lv.
      destruct (Z.leb_spec (nel a) 0); auto; lia.
Qed.

Lemma own_cases a : own a = [] \/ exists b, own a = [b] /\ a_base a = PBlk b /\ 0 < nel a.
Proof.
  unfold own. destruct (Z.leb_spec (nel a) 0); auto. destruct (a_base a) as [|b]; auto. right. exists b. auto.
Qed.

Lemma move_assign_eff tmp r t s0 s' ar at_ :
  r <> t -> tmp <> r -> tmp <> t ->
  (r < length (s_arrs s0))%nat -> (t < length (s_arrs s0))%nat -> (tmp < length (s_arrs s0))%nat ->
  nth_error (s_arrs s0) r = Some (Some ar) -> nth_error (s_arrs s0) t = Some (Some at_) ->
  nth_error (s_arrs s0) tmp = Some None ->
  arr_live s0 at_ -> wf_arr at_ -> normal (arr_bx at_) ->
  (forall b, In b (own ar) -> In b (own at_) -> False) ->
  (forall b, In b (own ar) -> (b < length (s_blocks s0))%nat) ->
  move_assign cfg tmp r t s0 = Ok tt s' ->
  exists ar', s_arrs s' = upd_nth (upd_nth (s_arrs s0) r (Some ar')) t (Some (empty_arr cfg (a_alloc at_) (a_base at_)))
     /\ abs_arr s' ar' = (arr_bx at_, avals s0 at_)
     /\ bsame (own ar ++ own at_) s0 s'.
Proof.
  intros Hrt Hmr Hmt Lr Lt Lm Nr Nt Nm Lv Wf Nrm Dj Bd H.
  unfold move_assign in H. destruct (Nat.eqb_spec r t) as [|_]; [congruence|].
  open_get H. open_get H. apply nth_get_slot in Nr as Gr. apply nth_get_slot in Nt as Gt.
  assert (a = ar) by congruence. assert (a0 = at_) by congruence. subst a a0.
  destruct (negb (c_pocma cfg) && negb (c_ae cfg) && negb (a_alloc ar =? a_alloc at_)).
  - (* element-wise move into a block of this->alloc() *)
    destruct (cells_live s0 at_ SMoveCell Lv (or_intror eq_refl)) as (So & Sl & Sv).
    binv H p s1 E1. apply p_build_built in E1; auto. rewrite Sv in E1. pose proof E1 as (A1 & B1 & Hp).
    binv H u s2 E2. destruct u. unfold install in E2. apply set_arr_inv in E2. destruct E2 as [A2 K2].
    set (T := with_bx (a_alloc ar) p (arr_bx at_)) in *. rewrite A1 in A2.
    binv H u s3 E3. destruct u. apply p_clear_inv in E3. destruct E3 as (a & G3 & A3 & L3 & B3).
    assert (a = at_). { unfold get_slot in G3. rewrite A2, nth_upd_other, Nt in G3 by auto. congruence. } subst a.
    binv H u s4 E4. destruct u. apply p_clear_inv in E4. destruct E4 as (a & G4 & A4 & L4 & B4).
    assert (a = ar).
    { unfold get_slot in G4. rewrite A3, A2, nth_upd_other, nth_upd_other, Nr in G4 by auto. congruence. } subst a.
    binv H u s5 E5. destruct u. apply p_adopt_inv in E5. destruct E5 as (a5 & t5 & G5 & G5' & A5 & K5).
    assert (a5 = empty_arr cfg (a_alloc ar) (a_base ar)).
    { unfold get_slot in G5. rewrite A4, nth_upd_same in G5 by (rewrite A3, A2, !upd_nth_length; auto). congruence. }
    assert (t5 = T).
    { unfold get_slot in G5'. rewrite A4, A3, A2, nth_upd_other, nth_upd_other, nth_upd_same in G5' by auto. congruence. }
    subst a5 t5.
    apply (p_dtor_empty tmp s5 s' (empty_arr cfg (a_alloc T) PNull)) in H.
    2:{ unfold get_slot. rewrite A5, nth_upd_same by (rewrite A4, A3, A2, !upd_nth_length; auto). auto. }
    2:{ rewrite (nel_empty cfg rank_pos). lia. }
    destruct H as [A6 K6].
    exists (with_bx (a_alloc ar) p (arr_bx at_)).
    assert (Bf : forall b, p = PBlk b -> bvals s' b = bvals s1 b /\ blive s' b = blive s1 b).
    { intros b ->. destruct Hp as (Hn & Eb & Len & _).
      destruct (bvals_blocks_eq s5 s' K6 b) as [-> ->]. destruct (bvals_blocks_eq s4 s5 K5 b) as [-> ->].
      destruct B4 as [_ F4]. destruct (F4 b) as [-> ->]; [rewrite L3, K2; lia| |].
      { intros Hin. apply Bd in Hin. lia. }
      destruct B3 as [_ F3]. destruct (F3 b) as [-> ->]; [rewrite K2; lia| |].
      { intros Hin. apply (own_live_lt s0) in Hin; auto. lia. }
      apply bvals_blocks_eq; auto. }
    split; [|split].
    + rewrite A6, A5, A4, A3, A2. cbn [a_alloc a_base a_exts a_first empty_arr]. unfold with_bx. upd_solve.
    + rewrite abs_arr_alt, arr_bx_with. unfold normal in Nrm. rewrite Nrm. f_equal.
      eapply avals_built; [exact E1| |rewrite nel_with_bx; apply (bnumel_arr_bx cfg rank_pos); auto|reflexivity|].
      * destruct p as [|b]; cbn; auto.
      * rewrite <- Sv, map_length. exact Sl.
    + assert (B15 : bsame (own at_ ++ own ar) s0 s').
      { eapply bsame_blocks_eq; [|exact K6]. eapply bsame_blocks_eq; [|exact K5].
        change (own at_ ++ own ar) with ([] ++ (own at_ ++ own ar)). eapply bsame_trans; [exact B1|].
        eapply bsame_trans; [|exact B4]. destruct B3 as [L3' F3]. split; [rewrite <- K2; auto|].
        intros b Hb Hn. rewrite <- K2 in Hb. destruct (F3 b Hb Hn) as [-> ->]. apply bvals_blocks_eq; auto. }
      eapply bsame_weaken; [exact B15|]. intros b Hin _. apply in_or_app. apply in_app_or in Hin. tauto.
  - (* the block of the source is taken over *)
    binv H u s1 E1. destruct u. apply p_clear_inv in E1. destruct E1 as (a & G1 & A1 & L1 & B1).
    assert (a = ar) by congruence. subst a.
    open_get H. unfold bind, set_arr in H. inv H. cbn [s_arrs set_arrs].
    eexists. split; [|split].
    + rewrite A1, upd_nth_twice. reflexivity.
    + rewrite abs_arr_realloc, abs_arr_alt. f_equal. apply avals_frame. intros Hn b Eb.
      destruct (Lv Hn) as (b0 & Eb0 & Lt0 & _). assert (b0 = b) by congruence. subst b0.
      destruct B1 as [_ F1]. unfold bvals, blive in *. cbn [s_blocks set_arrs]. apply F1; auto.
      intros Hin. apply (Dj b Hin). unfold own. rewrite Eb. destruct (Z.leb_spec (nel at_) 0); [lia|left; auto].
    + eapply bsame_weaken; [eapply bsame_blocks_eq; [exact B1|reflexivity]|]. intros b Hin _. apply in_or_app; auto.
Qed.

End Val6.

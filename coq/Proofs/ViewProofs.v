(* C01 core: every view-forming operation, inside its documented domain, takes a well-formed
   zero-based view to a well-formed zero-based view whose sizes are spec_sz and whose element at
   every valid index tuple idx is the old view's element at spec_map idx. *)
From BM Require Import Base.Tactics Model.Layout Model.View Model.Spec Proofs.LayoutProofs.
Local Open Scope Z_scope.

Definition step_ok (v v' : view) (sz sz' : list Z) (f : list Z -> list Z) : Prop :=
  lay_ok (lay v') sz' /\
  forall idx, valid_idx sz' idx -> valid_idx sz (f idx) /\ v_addr v' idx = v_addr v (f idx).

Ltac dok :=
  repeat match goal with
  | H : dim_ok _ _ |- _ =>
      let Hsz := fresh "Hsz" in let Hex := fresh "Hex" in
      pose proof (dim_ok_size _ _ H) as Hsz; pose proof (dim_ok_extension _ _ H) as Hex;
      destruct H as (? & ? & ? & ?)
  end.

Ltac vinv :=
  repeat match goal with
  | H : valid_idx (_ :: _) _ |- _ => inv H
  | H : valid_idx [] _ |- _ => inv H
  | H : Forall2 _ (_ :: _) _ |- _ => inv H
  | H : Forall2 _ [] _ |- _ => inv H
  end.

Lemma v_extension_ok d l n sz v :
  lay v = d :: l -> lay_ok (d :: l) (n :: sz) -> v_extension v = (0, n) /\ v_size v = n.
Proof.
  intros E H. inv H. unfold v_extension, v_size, l_extension, l_size. rewrite E.
  split; [apply dim_ok_extension|apply dim_ok_size]; assumption.
Qed.

Section Steps.
  Variable v : view.
  Variable sz : list Z.
  Hypothesis Hok : lay_ok (lay v) sz.

  Lemma step_index i : dom_op (OIndex i) v = true ->
    step_ok v (v_index i v) sz (spec_sz (OIndex i) sz) (spec_map (OIndex i) sz).
  Proof.
    unfold dom_op, v_rank, v_extension, step_ok. destruct v as [[|d l] b]; cbn [lay length] in *.
    - cbn. discriminate.
    - inv Hok. intros Hd. cbn [l_extension] in Hd. dok. rewrite Hex in Hd.
      unfold r_contains in Hd; cbn in Hd. bprop.
      split; [assumption|]. intros idx Hv. split.
      + constructor; [lia|assumption].
      + unfold v_addr, v_index; cbn. lia.
  Qed.

  Lemma step_sliced a b : dom_op (OSliced a b) v = true ->
    step_ok v (v_sliced a b v) sz (spec_sz (OSliced a b) sz) (spec_map (OSliced a b) sz).
  Proof.
    unfold dom_op, v_rank, v_extension, step_ok. destruct v as [[|d l] bs]; cbn [lay length] in *.
    - cbn. discriminate.
    - inv Hok. intros Hd. cbn [l_extension] in Hd.
      match goal with H : dim_ok d _ |- _ => pose proof H as Hdim end. dok. rewrite Hex in Hd.
      unfold in_slice in Hd; cbn in Hd. bprop.
      assert (Hnew : dim_ok (mkdim (d_stride d) (d_offset d) (d_stride d * (b - a))) (b - a)).
      { unfold dim_ok; cbn [d_stride d_offset d_nelems]. repeat split; try lia. }
      unfold v_sliced; cbn [lay base]. destruct l as [|d1 l].
      + (* D = 1 form *)
        assert (Hsl : d_slice d a b = mkdim (d_stride d) (d_offset d) (d_stride d * (b - a))).
        { unfold d_slice. f_equal. rewrite Hsz.
          destruct (d_nelems d =? 0) eqn:E; bprop.
          - destruct (Z.eq_dec y 0); [subst y; assert (a = b) by lia; subst; lia|].
            assert (0 < d_stride d) by lia. nia.
          - assert (y <> 0) by (intro; subst; lia).
            replace (d_nelems d) with (d_stride d * y) by lia.
            rewrite Z.mul_comm, Z.quot_mul by lia. lia. }
        rewrite Hsl. split.
        * cbn [spec_sz]. constructor; assumption.
        * intros idx Hv. cbn [spec_sz] in Hv. vinv. cbn [spec_map hdz hd tl]. split.
          { constructor; [lia|constructor]. }
          { unfold v_addr; cbn. lia. }
      + split.
        * cbn [spec_sz]. constructor; assumption.
        * intros idx Hv. cbn [spec_sz] in Hv. inv Hv. cbn [spec_map hdz hd tl]. split.
          { constructor; [lia|assumption]. }
          { unfold v_addr; cbn [lay base l_addr d_stride d_offset]. lia. }
  Qed.

  Lemma step_strided s : dom_op (OStrided s) v = true ->
    step_ok v (v_strided s v) sz (spec_sz (OStrided s) sz) (spec_map (OStrided s) sz).
  Proof.
    unfold dom_op, v_rank, v_size, step_ok. destruct v as [[|d l] bs]; cbn [lay length] in *.
    - cbn. discriminate.
    - inv Hok. intros Hd. cbn [l_size] in Hd. dok. rewrite Hsz in Hd. bprop.
      unfold v_strided; cbn [lay base spec_sz]. exactq y s q. clear Hsz Hex. subst y. split.
      + cbn [spec_sz]. constructor; [|assumption]. unfold dim_ok; cbn [d_stride d_offset d_nelems].
        repeat split; try lia; try nia.
      + intros idx Hv. cbn [spec_sz] in Hv. inv Hv. cbn [spec_map hdz hd tl]. split.
        * constructor; [nia|assumption].
        * unfold v_addr; cbn [lay base l_addr d_stride d_offset]. lia.
  Qed.

  Lemma step_dropped k : dom_op (ODropped k) v = true ->
    step_ok v (v_dropped k v) sz (spec_sz (ODropped k) sz) (spec_map (ODropped k) sz).
  Proof.
    unfold dom_op, v_rank, v_size, step_ok. destruct v as [[|d l] bs]; cbn [lay length] in *.
    - cbn. discriminate.
    - inv Hok. intros Hd. cbn [l_size] in Hd. dok. rewrite Hsz in Hd. bprop.
      unfold v_dropped, d_drop; cbn [lay base]. rewrite Hsz. split.
      + cbn [spec_sz]. constructor; [|assumption]. unfold dim_ok; cbn [d_stride d_offset d_nelems]. repeat split; lia.
      + intros idx Hv. cbn [spec_sz] in Hv. inv Hv. cbn [spec_map hdz hd tl]. split.
        * constructor; [lia|assumption].
        * unfold v_addr; cbn [lay base l_addr d_stride d_offset]. lia.
  Qed.

  Lemma step_taked k : dom_op (OTaked k) v = true ->
    step_ok v (v_taked k v) sz (spec_sz (OTaked k) sz) (spec_map (OTaked k) sz).
  Proof.
    unfold dom_op, v_rank, v_size, step_ok. destruct v as [[|d l] bs]; cbn [lay length] in *.
    - cbn. discriminate.
    - inv Hok. intros Hd. cbn [l_size] in Hd. dok. rewrite Hsz in Hd. bprop.
      unfold v_taked, d_take; cbn [lay base]. split.
      + cbn [spec_sz]. constructor; [|assumption]. unfold dim_ok; cbn [d_stride d_offset d_nelems]. repeat split; lia.
      + intros idx Hv. cbn [spec_sz] in Hv. inv Hv. cbn [spec_map]. split.
        * constructor; [lia|assumption].
        * unfold v_addr; cbn [lay base l_addr d_stride d_offset]. lia.
  Qed.

  Lemma step_rotated :
    step_ok v (v_rotated v) sz (spec_sz ORotated sz) (spec_map ORotated sz).
  Proof.
    unfold step_ok, v_rotated; cbn [lay base spec_sz spec_map].
    destruct (lay v) as [|d l] eqn:E.
    - inv Hok. cbn. split; [constructor|]. intros idx Hv; inv Hv. split; [constructor|].
      unfold v_addr; cbn. rewrite E. reflexivity.
    - inv Hok. rewrite l_rotate_cons, t_rot_cons. split.
      + apply Forall2_snoc; assumption.
      + intros idx Hv. unfold valid_idx in Hv. apply Forall2_snoc_inv in Hv as (m & x & -> & Hm & Hx).
        rewrite t_unrot_snoc. split.
        * constructor; assumption.
        * unfold v_addr; cbn [lay base]. rewrite E.
          rewrite l_addr_app by (rewrite (valid_idx_length _ _ Hm); eapply lay_ok_length; eassumption).
          cbn. lia.
  Qed.

  Lemma step_unrotated :
    step_ok v (v_unrotated v) sz (spec_sz OUnrotated sz) (spec_map OUnrotated sz).
  Proof.
    unfold step_ok, v_unrotated; cbn [lay base spec_sz spec_map].
    destruct (lay v) as [|d0 l0] eqn:E.
    - inv Hok. cbn. split; [constructor|]. intros idx Hv; inv Hv. split; [constructor|].
      unfold v_addr; cbn. rewrite E. reflexivity.
    - destruct (@exists_last _ (d0 :: l0)) as (l & d & El); [discriminate|]. rewrite El in *.
      apply Forall2_snoc_inv in Hok as (m & n & -> & Hm & Hn).
      rewrite l_unrotate_snoc, t_unrot_snoc. split.
      + constructor; assumption.
      + intros idx Hv. inv Hv. cbn [t_rot]. split.
        * apply Forall2_snoc; assumption.
        * unfold v_addr; cbn [lay base]. rewrite E.
          match goal with H : Forall2 _ m ?l' |- _ =>
            rewrite l_addr_app by (rewrite (valid_idx_length _ _ H); eapply lay_ok_length; eassumption) end.
          cbn. lia.
  Qed.

  Lemma step_transposed : dom_op OTransposed v = true ->
    step_ok v (v_transposed v) sz (spec_sz OTransposed sz) (spec_map OTransposed sz).
  Proof.
    unfold dom_op, v_rank, step_ok, v_transposed; cbn [lay base spec_sz spec_map].
    destruct (lay v) as [|d0 [|d1 l]] eqn:E; cbn [length]; try (intros; bprop; lia).
    intros _. inv Hok. match goal with H : Forall2 _ (d1 :: l) _ |- _ => inv H end.
    cbn [l_transpose t_transpose]. split.
    - constructor; [|constructor]; assumption.
    - intros idx Hv. inv Hv. match goal with H : Forall2 _ (_ :: _) _ |- _ => inv H end.
      cbn [t_transpose]. split.
      + constructor; [|constructor]; assumption.
      + unfold v_addr; cbn [lay base]. rewrite E. cbn. lia.
  Qed.

  Lemma step_reversed :
    step_ok v (v_reversed v) sz (spec_sz OReversed sz) (spec_map OReversed sz).
  Proof.
    unfold step_ok, v_reversed, l_reverse; cbn [lay base spec_sz spec_map]. split.
    - apply Forall2_rev. exact Hok.
    - intros idx Hv. split.
      + rewrite <- (rev_involutive sz). apply Forall2_rev. exact Hv.
      + unfold v_addr; cbn [lay base]. f_equal.
        rewrite <- (rev_involutive idx) at 1. apply l_addr_rev.
        rewrite rev_length, (valid_idx_length _ _ Hv), rev_length. eapply lay_ok_length; eassumption.
  Qed.

  Lemma step_partitioned k : dom_op (OPartitioned k) v = true ->
    step_ok v (v_partitioned k v) sz (spec_sz (OPartitioned k) sz) (spec_map (OPartitioned k) sz).
  Proof.
    unfold dom_op, v_rank, v_size, step_ok. destruct v as [[|d l] bs]; cbn [lay length] in *.
    - cbn. discriminate.
    - inv Hok. intros Hd. cbn [l_size] in Hd. dok. rewrite Hsz in Hd. bprop.
      unfold v_partitioned; cbn [lay base spec_sz spec_map hdz hd].
      exactq y k q. clear Hsz Hex. subst y.
      replace (d_nelems d) with (q * d_stride d * k) by lia.
      rewrite !Z.quot_mul by lia. split.
      + constructor; [|constructor; [|assumption]]; unfold dim_ok; cbn [d_stride d_offset d_nelems];
          repeat split; try lia; try nia.
      + intros idx Hv. inv Hv.
        match goal with H : Forall2 _ (_ :: _) _ |- _ => inv H end.
        cbn [hdz hd tl]. split.
        * constructor; [nia|assumption].
        * unfold v_addr; cbn [lay base l_addr d_stride d_offset]. lia.
  Qed.

  Lemma step_halved : dom_op OHalved v = true ->
    step_ok v (v_halved v) sz (spec_sz OHalved sz) (spec_map OHalved sz).
  Proof.
    unfold dom_op, v_rank, v_size, step_ok. destruct v as [[|d l] bs]; cbn [lay length] in *.
    - cbn. discriminate.
    - inv Hok. intros Hd. cbn [l_size] in Hd. dok. rewrite Hsz in Hd. bprop.
      unfold v_halved, d_take; cbn [lay base spec_sz spec_map hdz hd]. rewrite Hsz.
      exactq y 2 q. clear Hsz Hex. subst y.
      replace (d_nelems d) with (q * d_stride d * 2) by lia.
      rewrite !Z.quot_mul by lia. split.
      + constructor; [|constructor; [|assumption]]; unfold dim_ok; cbn [d_stride d_offset d_nelems];
          repeat split; try lia; try nia.
      + intros idx Hv. inv Hv.
        match goal with H : Forall2 _ (_ :: _) _ |- _ => inv H end.
        cbn [hdz hd tl]. split.
        * constructor; [nia|assumption].
        * unfold v_addr; cbn [lay base l_addr d_stride d_offset]. lia.
  Qed.

  Lemma step_flatted : dom_op OFlatted v = true ->
    step_ok v (v_flatted v) sz (spec_sz OFlatted sz) (spec_map OFlatted sz).
  Proof.
    unfold dom_op, v_rank, v_is_flattable, step_ok, v_flatted.
    destruct v as [[|d0 [|d1 l]] bs]; cbn [lay length base] in *; try (intros; bprop; lia).
    inv Hok. match goal with H : Forall2 _ (d1 :: l) _ |- _ => inv H end.
    intros Hd. dok. bprop.
    match goal with H : _ \/ _ |- _ => rename H into Hfl end.
    rewrite ?Hsz, ?Hsz0 in *. cbn [spec_sz]. split.
    - constructor; [|assumption]. unfold dim_ok; cbn [d_stride d_offset d_nelems]. repeat split; try lia; try nia.
    - intros idx Hv. inv Hv. cbn [spec_map hdz hd tl]. split.
      + constructor; [|constructor; [|assumption]]; nia.
      + unfold v_addr; cbn [lay base l_addr d_stride d_offset].
        match goal with |- context [Z.quot ?k ?n] =>
          pose proof (Z.quot_rem' k n) as Hqr;
          assert (Hrb : 0 <= Z.rem k n < n) by (apply Z.rem_bound_pos; nia);
          assert (Hqb : 0 <= Z.quot k n) by (apply Z.quot_pos; nia);
          set (q := Z.quot k n) in *; set (r := Z.rem k n) in *; clearbody q r end.
        destruct Hfl as [Hfl|Hfl]; bprop.
        * assert (q = 0) by nia. subst q. nia.
        * rewrite Hfl. nia.
  Qed.
End Steps.

(* The ownership invariant of the lifecycle machine and the frame relation for element-level steps.
   Inv X s: every array object with elements is backed by a live block of exactly that many constructed cells,
   produced by an allocator equal to the array's; no two array objects share a block; every live block is either
   owned by an array object or held by the running operation (X); released blocks are fully destroyed. *)
From BM Require Import Base.Tactics Model.Life Proofs.LifeBase Proofs.LifeMonad.
Local Open Scope Z_scope.

Section Inv.
Variable cfg : config.

Definition cinit (c : cell) : Prop := cell_init cfg c = true.
Definition cells_ok (cs : list cell) : Prop := Forall cinit cs.
Definition blk_wf (blk : block) : Prop := 0 < b_size blk /\ length (b_cells blk) = Z.to_nat (b_size blk).
Definition dead_ok (blk : block) : Prop :=
  b_live blk = false -> c_tdtor cfg = false -> all_raw (b_cells blk) = true.

Definition owner_of (s : state) (b : nat) (r : nat) : Prop :=
  exists a, get_slot s r = Some a /\ 0 < nel a /\ a_base a = PBlk b.

Definition arr_ok (s : state) (a : arr) : Prop :=
  0 < nel a ->
  exists b blk, a_base a = PBlk b /\ get_blk s b = Some blk /\ b_live blk = true /\ b_size blk = nel a
                /\ alloc_eq cfg (b_owner blk) (a_alloc a) = true /\ cells_ok (b_cells blk).

Record Inv (X : list nat) (s : state) : Prop := mkInv {
  inv_nslots : length (s_arrs s) = NSLOTS;
  inv_blk : forall b blk, get_blk s b = Some blk -> blk_wf blk /\ dead_ok blk;
  inv_arr : forall r a, get_slot s r = Some a -> arr_ok s a;
  inv_disj : forall r r' b, owner_of s b r -> owner_of s b r' -> r = r';
  inv_noleak : forall b blk, get_blk s b = Some blk -> b_live blk = true -> In b X \/ exists r, owner_of s b r;
  inv_held : forall b, In b X ->
      (exists blk, get_blk s b = Some blk /\ b_live blk = true) /\ (forall r, ~ owner_of s b r);
  inv_nodup : NoDup X }.

(* ---------------------------------------------------------------------------------------- *)
(* frame relation of element-level steps: only cells change; cells of blocks outside B keep  *)
(* being constructed; released blocks are not touched; the ledger only grows                 *)
(* ---------------------------------------------------------------------------------------- *)
Definition cell_le (c c' : cell) : Prop := cinit c -> cinit c'.
Definition blk_le (B : list nat) (b : nat) (blk blk' : block) : Prop :=
  b_owner blk' = b_owner blk /\ b_size blk' = b_size blk /\ b_live blk' = b_live blk
  /\ length (b_cells blk') = length (b_cells blk)
  /\ (b_live blk = false -> b_cells blk' = b_cells blk)
  /\ (~ In b B -> Forall2 cell_le (b_cells blk) (b_cells blk')).

Definition st_le (B : list nat) (s s' : state) : Prop :=
  s_arrs s' = s_arrs s
  /\ length (s_blocks s') = length (s_blocks s)
  /\ (exists l, s_ledger s' = l ++ s_ledger s)
  /\ forall b blk, get_blk s b = Some blk -> exists blk', get_blk s' b = Some blk' /\ blk_le B b blk blk'.

Lemma Forall2_cell_le_refl cs : Forall2 cell_le cs cs.
Proof. induction cs; constructor; auto. intro; auto. Qed.

Lemma Forall2_cell_le_trans a b c : Forall2 cell_le a b -> Forall2 cell_le b c -> Forall2 cell_le a c.
Proof.
  intros H; revert c; induction H; intros c' H2; inv H2; constructor; auto.
  intro Hi. auto.
Qed.

Lemma st_le_refl B s : st_le B s s.
Proof.
  repeat split; auto. - exists []; reflexivity.
  - intros b blk H. exists blk. split; auto. repeat split; auto. intros _. apply Forall2_cell_le_refl.
Qed.

Lemma st_le_trans B s1 s2 s3 : st_le B s1 s2 -> st_le B s2 s3 -> st_le B s1 s3.
Proof.
  intros (A1 & L1 & [l1 G1] & H1) (A2 & L2 & [l2 G2] & H2). repeat split; try congruence.
  - exists (l2 ++ l1). rewrite G2, G1, app_assoc. reflexivity.
  - intros b blk Hb. destruct (H1 b blk Hb) as (blk2 & Hb2 & O1 & S1 & V1 & N1 & D1 & C1).
    destruct (H2 b blk2 Hb2) as (blk3 & Hb3 & O2 & S2 & V2 & N2 & D2 & C2).
    exists blk3. split; auto. repeat split; try congruence.
    + intros Hd. rewrite D2, D1; auto. congruence.
    + intros Hn. eapply Forall2_cell_le_trans; eauto.
Qed.

Lemma st_le_ledger B s s' ev : st_le B s s' -> In ev (s_ledger s) -> In ev (s_ledger s').
Proof. intros (_ & _ & [l G] & _) H. rewrite G. apply in_or_app. auto. Qed.

Lemma st_le_slot B s s' r : st_le B s s' -> get_slot s' r = get_slot s r.
Proof. intros (A & _). unfold get_slot. rewrite A. reflexivity. Qed.

Lemma st_le_weaken B B' s s' : incl B B' -> st_le B s s' -> st_le B' s s'.
Proof.
  intros Hi (A & L & G & H). repeat split; auto.
  intros b blk Hb. destruct (H b blk Hb) as (blk' & Hb' & O & S & V & N & D & C).
  exists blk'. split; auto. repeat split; auto.
Qed.

Lemma Forall2_cell_le_ok cs cs' : Forall2 cell_le cs cs' -> cells_ok cs -> cells_ok cs'.
Proof. induction 1 as [|c c' l l' Hc Hf IH]; intros Hok; inv Hok; constructor; auto. apply IH; auto. Qed.

Lemma owner_of_st_le B s s' b r : st_le B s s' -> owner_of s' b r <-> owner_of s b r.
Proof. intros H. unfold owner_of. rewrite (st_le_slot _ _ _ r H). tauto. Qed.

(* the invariant is stable under element-level steps, provided the touched blocks are held by the operation or
   end up fully constructed *)
Lemma Inv_st_le X B s s' :
  Inv X s -> st_le B s s' ->
  (forall b, In b B -> In b X \/ (forall blk', get_blk s' b = Some blk' -> cells_ok (b_cells blk'))) ->
  Inv X s'.
Proof.
  intros I L HB. pose proof L as (A & Ln & G & H).
  assert (Hback : forall b blk', get_blk s' b = Some blk' -> exists blk, get_blk s b = Some blk /\ blk_le B b blk blk').
  { intros b blk' Hb'. assert (Hlt := get_blk_lt _ _ _ Hb'). rewrite Ln in Hlt.
    destruct (nth_error (s_blocks s) b) as [blk|] eqn:E; [|apply nth_error_None in E; lia].
    destruct (H b blk E) as (blk2 & Hb2 & Hle). exists blk. split; auto. congruence. }
  constructor.
  - rewrite A. apply I.
  - intros b blk' Hb'. destruct (Hback b blk' Hb') as (blk & Hb & O & S & V & N & D & C).
    destruct (inv_blk _ _ I b blk Hb) as [[W1 W2] Dd]. split.
    + split; congruence.
    + intros Hd Ht. rewrite V in Hd. rewrite D; auto.
  - intros r a Hr. rewrite (st_le_slot _ _ _ r L) in Hr. intros Hn.
    destruct (inv_arr _ _ I r a Hr Hn) as (b & blk & Hp & Hb & Hl & Hs & Ha & Hc).
    destruct (H b blk Hb) as (blk' & Hb' & O & S & V & N & D & C).
    exists b, blk'. repeat split; try congruence.
    destruct (in_dec Nat.eq_dec b B) as [Hin|Hnin].
    + destruct (HB b Hin) as [HX|Hok]; [|apply Hok; auto].
      exfalso. destruct (inv_held _ _ I b HX) as [_ Hno]. apply (Hno r). exists a. auto.
    + eapply Forall2_cell_le_ok; eauto.
  - intros r r' b H1 H2. apply (owner_of_st_le _ _ _ _ _ L) in H1. apply (owner_of_st_le _ _ _ _ _ L) in H2.
    eapply inv_disj; eauto.
  - intros b blk' Hb' Hl. destruct (Hback b blk' Hb') as (blk & Hb & O & S & V & N & D & C).
    destruct (inv_noleak _ _ I b blk Hb) as [HX|[r Hr]]; [congruence|auto|].
    right. exists r. apply (owner_of_st_le _ _ _ _ _ L). auto.
  - intros b HX. destruct (inv_held _ _ I b HX) as [(blk & Hb & Hl) Hno]. split.
    + destruct (H b blk Hb) as (blk' & Hb' & O & S & V & N & D & C). exists blk'. split; congruence.
    + intros r Hr. apply (owner_of_st_le _ _ _ _ _ L) in Hr. eapply Hno; eauto.
  - apply I.
Qed.

End Inv.

(* C15: the plan the adaptor builds visits exactly the view's index set, split by the mask, at the
   view's own addresses -- for every rank, mask, sizes and strides (induction over the mask). *)
From Coq Require Import Permutation.
From BM Require Import Base.Tactics Model.Layout Model.View Model.Spec Model.FftwPlan.
Local Open Scope Z_scope.

(* ---------- list plumbing ---------- *)
Lemma flat_map_nil_fun {A B} (l : list A) : flat_map (fun _ : A => @nil B) l = [].
Proof. induction l; cbn; auto. Qed.

Lemma flat_map_map_inner {A B D} (f : A -> list B) (g : B -> D) (l : list A) :
  map g (flat_map f l) = flat_map (fun x => map g (f x)) l.
Proof. induction l; cbn; auto. rewrite map_app, IHl. reflexivity. Qed.

Lemma flat_map_flat_map {A B D} (f : A -> list B) (g : B -> list D) (l : list A) :
  flat_map g (flat_map f l) = flat_map (fun x => flat_map g (f x)) l.
Proof. induction l; cbn; auto. rewrite flat_map_app, IHl. reflexivity. Qed.

Lemma flat_map_of_map {A B D} (f : A -> B) (g : B -> list D) (l : list A) :
  flat_map g (map f l) = flat_map (fun x => g (f x)) l.
Proof. induction l; cbn; auto. rewrite IHl. reflexivity. Qed.

Lemma flat_map_ext_in {A B} (f g : A -> list B) (l : list A) :
  (forall x, In x l -> f x = g x) -> flat_map f l = flat_map g l.
Proof.
  induction l; cbn; intros H; auto.
  rewrite H by auto. rewrite IHl; auto.
Qed.

Lemma Permutation_flat_map_pointwise {A B} (f g : A -> list B) (l : list A) :
  (forall x, Permutation (f x) (g x)) -> Permutation (flat_map f l) (flat_map g l).
Proof. intros H. induction l; cbn; auto. apply Permutation_app; auto. Qed.

Lemma Permutation_flat_map_app {A B} (f g : A -> list B) (l : list A) :
  Permutation (flat_map (fun x => f x ++ g x) l) (flat_map f l ++ flat_map g l).
Proof.
  induction l; cbn; auto.
  rewrite <- !app_assoc. apply Permutation_app_head.
  eapply Permutation_trans. { apply Permutation_app_head. exact IHl. }
  rewrite !app_assoc. apply Permutation_app_tail. apply Permutation_app_comm.
Qed.

(* exchanging two nested loops *)
Lemma Permutation_flat_map_swap {A B D} (h : A -> B -> list D) (la : list A) (lb : list B) :
  Permutation (flat_map (fun a => flat_map (fun b => h a b) lb) la)
              (flat_map (fun b => flat_map (fun a => h a b) la) lb).
Proof.
  induction la as [|a la IH]; cbn.
  - rewrite flat_map_nil_fun. constructor.
  - eapply Permutation_trans. { apply Permutation_app_head. exact IH. }
    apply Permutation_sym. apply Permutation_flat_map_app.
Qed.

(* ---------- zrange, tuples ---------- *)
Lemma In_zrange n i : In i (zrange n) <-> 0 <= i < n.
Proof.
  unfold zrange. rewrite in_map_iff. split.
  - intros (k & <- & Hk). apply in_seq in Hk. lia.
  - intros H. exists (Z.to_nat i). split; [lia|]. apply in_seq. lia.
Qed.

Lemma NoDup_zrange n : NoDup (zrange n).
Proof.
  unfold zrange. apply FinFun.Injective_map_NoDup.
  - intros a b H. lia.
  - apply seq_NoDup.
Qed.

Lemma In_tuples ns idx : In idx (tuples ns) <-> valid_idx ns idx.
Proof.
  unfold valid_idx. revert idx. induction ns as [|n ns IH]; intros idx; cbn.
  - split.
    + intros [<-|[]]. constructor.
    + intros H. inv H. auto.
  - rewrite in_flat_map. split.
    + intros (i & Hi & Hin). apply in_map_iff in Hin. destruct Hin as (r & <- & Hr).
      constructor; [apply In_zrange; auto | apply IH; auto].
    + intros H. inv H. exists y. split; [apply In_zrange; auto|].
      apply in_map. apply IH. auto.
Qed.

Lemma NoDup_tuples ns : NoDup (tuples ns).
Proof.
  induction ns as [|n ns IH]; cbn.
  - constructor; [intros []|constructor].
  - generalize (NoDup_zrange n). generalize (zrange n) as l.
    induction l as [|i l IHl]; cbn; intros Hnd; [constructor|].
    inv Hnd.
    assert (Hd : forall x, In x (map (cons i) (tuples ns)) ->
                           ~ In x (flat_map (fun i0 => map (cons i0) (tuples ns)) l)).
    { intros x Hx Hy. apply in_map_iff in Hx. destruct Hx as (r & <- & _).
      apply in_flat_map in Hy. destruct Hy as (j & Hj & Hy).
      apply in_map_iff in Hy. destruct Hy as (r' & Heq & _). inv Heq. contradiction. }
    assert (Hm : NoDup (map (cons i) (tuples ns))).
    { apply FinFun.Injective_map_NoDup; auto. intros a b Hab. inv Hab. reflexivity. }
    revert Hd Hm. generalize (map (cons i) (tuples ns)) as m.
    induction m as [|x m IHm]; cbn; intros Hd Hm; auto.
    inv Hm. constructor.
    + rewrite in_app_iff. intros [Hx|Hx]; [contradiction|]. apply (Hd x); auto.
    + apply IHm; auto.
Qed.

Lemma valid_idx_length ns idx : valid_idx ns idx -> length idx = length ns.
Proof. unfold valid_idx. intros H. induction H; cbn; auto. Qed.

(* ---------- zero-based views: v_addr is base + the dot product with the strides ---------- *)
Lemma l_addr_zero_based l idx : zero_based l -> l_addr l idx = dotp idx (l_strides l).
Proof.
  revert idx. induction l as [|d l IH]; intros idx Hz; destruct idx as [|i idx]; cbn; auto.
  inv Hz. rewrite IH by auto. unfold l_strides. lia.
Qed.

Lemma v_addr_zero_based v idx : zero_based (lay v) -> v_addr v idx - base v = dotp idx (l_strides (lay v)).
Proof. intros Hz. unfold v_addr. rewrite l_addr_zero_based by auto. lia. Qed.

(* ---------- the plan: dims / howmany_dims are the mask-selected sub-lists ---------- *)
Definition mk3 (n i o : list Z) : list iodim :=
  map (fun p => mkiodim (fst (fst p)) (snd (fst p)) (snd p)) (combine (combine n i) o).

Lemma plan_of_cons b which n ns i is o os :
  plan_of (b :: which) (n :: ns) (i :: is) (o :: os) =
  let '(d, h) := plan_of which ns is os in
  if b then (mkiodim n i o :: d, h) else (d, mkiodim n i o :: h).
Proof. unfold plan_of, stable_partition. cbn. destruct b; cbn; reflexivity. Qed.

Lemma plan_of_nil_l ns is os : plan_of [] ns is os = ([], []).
Proof. reflexivity. Qed.

Lemma plan_of_sizes which : forall ns is os,
  length ns = length which -> length is = length which -> length os = length which ->
  let '(d, h) := plan_of which ns is os in
     map io_n d = select which ns /\ map io_is d = select which is /\ map io_os d = select which os
  /\ map io_n h = select (map negb which) ns /\ map io_is h = select (map negb which) is
  /\ map io_os h = select (map negb which) os.
Proof.
  induction which as [|b which IH]; intros ns is os Hn Hi Ho.
  - destruct ns, is, os; try discriminate. cbn. repeat split.
  - destruct ns as [|n ns], is as [|i is], os as [|o os]; try discriminate.
    rewrite plan_of_cons. specialize (IH ns is os).
    destruct (plan_of which ns is os) as [d h].
    destruct IH as (A & B & D & E & F & G); [cbn in *; lia ..|].
    destruct b; cbn; rewrite ?A, ?B, ?D, ?E, ?F, ?G; auto 10.
Qed.

Lemma select_length_count {A} (m : list bool) : forall (l : list A), length l = length m ->
  length (select m l) = count_occ bool_dec m true.
Proof.
  induction m as [|b m IH]; intros l H; destruct l; try discriminate; cbn; auto.
  destruct b; cbn; rewrite IH by (cbn in H; lia); reflexivity.
Qed.

(* ---------- the main permutation, on lists ---------- *)
Definition list_cell (which : list bool) (is os idx : list Z) : cell :=
  (select (map negb which) idx, select which idx, dotp idx is, dotp idx os).

Definition push_batch (i is_ os_ : Z) (c : cell) : cell :=
  (i :: c_batch c, c_trans c, i * is_ + c_in c, i * os_ + c_out c).
Definition push_trans (i is_ os_ : Z) (c : cell) : cell :=
  (c_batch c, i :: c_trans c, i * is_ + c_in c, i * os_ + c_out c).

Lemma guru_cells_cons_h d dims hdims :
  guru_cells dims (d :: hdims) =
  flat_map (fun i => map (push_batch i (io_is d) (io_os d)) (guru_cells dims hdims)) (zrange (io_n d)).
Proof.
  unfold guru_cells. cbn [map tuples]. rewrite flat_map_flat_map.
  apply flat_map_ext_in. intros i _. rewrite flat_map_of_map, flat_map_map_inner.
  apply flat_map_ext_in. intros b _. rewrite map_map. apply map_ext. intros t.
  unfold guru_cell, push_batch, c_batch, c_trans, c_in, c_out. cbn. f_equal; [f_equal|]; lia.
Qed.

Lemma guru_cells_cons_d d dims hdims :
  Permutation (guru_cells (d :: dims) hdims)
    (flat_map (fun i => map (push_trans i (io_is d) (io_os d)) (guru_cells dims hdims)) (zrange (io_n d))).
Proof.
  unfold guru_cells. cbn [map tuples].
  (* left: for b, for i, for t' ; right: for i, for b, for t' *)
  eapply Permutation_trans.
  - apply Permutation_flat_map_pointwise with
      (g := fun b => flat_map (fun i => map (fun t' => guru_cell (d :: dims) hdims b (i :: t'))
                                            (tuples (map io_n dims))) (zrange (io_n d))).
    intros b. rewrite flat_map_map_inner.
    erewrite flat_map_ext_in; [apply Permutation_refl|]. intros i _. rewrite map_map. reflexivity.
  - eapply Permutation_trans; [apply Permutation_flat_map_swap|].
    erewrite flat_map_ext_in; [apply Permutation_refl|].
    intros i _. cbn beta. rewrite flat_map_map_inner. apply flat_map_ext_in. intros b _.
    rewrite map_map. apply map_ext. intros t.
    unfold guru_cell, push_trans, c_batch, c_trans, c_in, c_out. cbn. f_equal; [f_equal|]; lia.
Qed.

Lemma cells_perm which : forall ns is os,
  length ns = length which -> length is = length which -> length os = length which ->
  let '(d, h) := plan_of which ns is os in
  Permutation (guru_cells d h) (map (list_cell which is os) (tuples ns)).
Proof.
  induction which as [|b which IH]; intros ns is os Hn Hi Ho.
  - destruct ns, is, os; try discriminate. cbn. apply Permutation_refl.
  - destruct ns as [|n ns], is as [|i is], os as [|o os]; try discriminate.
    rewrite plan_of_cons. specialize (IH ns is os).
    destruct (plan_of which ns is os) as [d h].
    assert (IH' : Permutation (guru_cells d h) (map (list_cell which is os) (tuples ns)))
      by (apply IH; cbn in *; lia).
    clear IH. cbn [tuples]. rewrite flat_map_map_inner.
    destruct b.
    + eapply Permutation_trans; [apply guru_cells_cons_d|]. cbn [io_n io_is io_os].
      apply Permutation_flat_map_pointwise. intros k. rewrite map_map.
      eapply Permutation_trans; [apply Permutation_map; exact IH'|]. rewrite map_map.
      erewrite map_ext; [apply Permutation_refl|]. intros idx.
      unfold list_cell, push_trans, c_batch, c_trans, c_in, c_out. cbn. reflexivity.
    + rewrite guru_cells_cons_h. cbn [io_n io_is io_os].
      apply Permutation_flat_map_pointwise. intros k. rewrite map_map.
      eapply Permutation_trans; [apply Permutation_map; exact IH'|]. rewrite map_map.
      erewrite map_ext; [apply Permutation_refl|]. intros idx.
      unfold list_cell, push_batch, c_batch, c_trans, c_in, c_out. cbn. reflexivity.
Qed.

(* ---------- the property theorem, on views ---------- *)
Lemma l_sizes_length l : length (l_sizes l) = length l.
Proof. unfold l_sizes. apply map_length. Qed.
Lemma l_strides_length l : length (l_strides l) = length l.
Proof. unfold l_strides. apply map_length. Qed.

Theorem C15_plan_denotes_view_dft_proved :
  forall (which : list bool) (vin vout : view),
    length which = length (lay vin) -> length (lay vout) = length (lay vin) ->
    zero_based (lay vin) -> zero_based (lay vout) ->
    let '(dims, hdims) := plan_of which (l_sizes (lay vin)) (l_strides (lay vin)) (l_strides (lay vout)) in
       Permutation (guru_cells dims hdims) (view_cells which vin vout)
    /\ map io_n dims = select which (l_sizes (lay vin))
    /\ map io_n hdims = select (map negb which) (l_sizes (lay vin))
    /\ length dims = count_occ bool_dec which true.
Proof.
  intros which vin vout Hw Hl Zi Zo.
  pose proof (cells_perm which (l_sizes (lay vin)) (l_strides (lay vin)) (l_strides (lay vout))) as P.
  pose proof (plan_of_sizes which (l_sizes (lay vin)) (l_strides (lay vin)) (l_strides (lay vout))) as S.
  destruct (plan_of which (l_sizes (lay vin)) (l_strides (lay vin)) (l_strides (lay vout))) as [d h].
  rewrite l_sizes_length, !l_strides_length in P, S.
  specialize (P (eq_sym Hw) (eq_sym Hw) (eq_trans Hl (eq_sym Hw))).
  specialize (S (eq_sym Hw) (eq_sym Hw) (eq_trans Hl (eq_sym Hw))).
  destruct S as (A & _ & _ & E & _).
  split; [|split; [exact A|split; [exact E|]]].
  - eapply Permutation_trans; [exact P|]. unfold view_cells.
    erewrite map_ext; [apply Permutation_refl|]. intros idx.
    unfold list_cell, view_cell. rewrite !v_addr_zero_based by auto. reflexivity.
  - rewrite <- (map_length io_n), A. apply select_length_count. rewrite l_sizes_length. auto.
Qed.

(* an explicit plan object: exactly these dims, the view bases as pointers, the requested sign and
   FFTW_ESTIMATE|FFTW_PRESERVE_INPUT; one plan, one execute on the same pointers, one destroy *)
Lemma fe_plan_execute_call which vin vout s :
  exists g, fe_plan_execute which vin vout s = [EvPlan g; EvExecute (base vin) (base vout); EvDestroy]
    /\ (g_dims g, g_hdims g) = plan_of which (l_sizes (lay vin)) (l_strides (lay vin)) (l_strides (lay vout))
    /\ g_in g = base vin /\ g_out g = base vout /\ g_sign g = s
    /\ g_flags g = 80 /\ Z.testbit (g_flags g) 4 = true
    /\ g_rank g = Z.of_nat (length (g_dims g)) /\ g_hrank g = Z.of_nat (length (g_hdims g)).
Proof.
  unfold fe_plan_execute, plan_ctor, fftw_plan_dft.
  destruct (plan_of which (l_sizes (lay vin)) (l_strides (lay vin)) (l_strides (lay vout))) as [d h].
  eexists. split; [reflexivity|]. cbn. auto 10.
Qed.

(* fftw::dft: no FFTW call for an empty input view, otherwise the calls of a plan object *)
Lemma fe_dft_call which vin vout s :
  if l_num_elements (lay vin) =? 0 then fe_dft which vin vout s = []
  else fe_dft which vin vout s = fe_plan_execute which vin vout s.
Proof. unfold fe_dft. destruct (l_num_elements (lay vin) =? 0); reflexivity. Qed.

(* num_elements is the product of the sizes: zero iff there is no valid index tuple *)
Lemma num_elements_zero_no_idx l : Forall (fun n => 0 <= n) (l_sizes l) -> l_num_elements l = 0 ->
  forall idx, ~ valid_idx (l_sizes l) idx.
Proof.
  unfold valid_idx. induction l as [|d l IH]; cbn; intros Hn Hz idx Hv; [lia|].
  inv Hn. inv Hv. apply Z.mul_eq_0 in Hz. destruct Hz as [Hz|Hz]; [lia|]. eapply IH; eauto.
Qed.
Lemma num_elements_nonzero_pos l : Forall (fun n => 0 <= n) (l_sizes l) -> l_num_elements l <> 0 ->
  Forall (fun n => 0 < n) (l_sizes l).
Proof.
  induction l as [|d l IH]; cbn; intros Hn Hz; [constructor|]. inv Hn.
  constructor; [destruct (Z.eq_dec (d_size d) 0) as [E|E]; [rewrite E in Hz; lia|lia]|].
  apply IH; [exact H2|]. intro E. rewrite E in Hz. lia.
Qed.

(* Corollary: the plan writes exactly the elements of the output view (each once), and reads
   exactly the elements of the input view. *)
Theorem C15_output_frame_proved :
  forall (which : list bool) (vin vout : view) (s : Z),
    length which = length (lay vin) -> length (lay vout) = length (lay vin) ->
    zero_based (lay vin) -> zero_based (lay vout) ->
    l_sizes (lay vout) = l_sizes (lay vin) ->
    let g := plan_ctor which (base vin) (lay vin) (base vout) (lay vout) s in
       Permutation (plan_out_addresses g) (footprint vout)
    /\ Permutation (plan_in_addresses g) (footprint vin)
    /\ (forall a, In a (plan_out_addresses g) <->
                  exists idx, valid_idx (l_sizes (lay vout)) idx /\ a = v_addr vout idx).
Proof.
  intros which vin vout s Hw Hl Zi Zo Hs g.
  pose proof (C15_plan_denotes_view_dft_proved which vin vout Hw Hl Zi Zo) as P.
  subst g. unfold plan_ctor, fftw_plan_dft, plan_out_addresses, plan_in_addresses.
  destruct (plan_of which (l_sizes (lay vin)) (l_strides (lay vin)) (l_strides (lay vout))) as [d h].
  destruct P as (P & _). cbn [g_dims g_hdims g_in g_out].
  assert (Po : Permutation (map (fun c : cell => base vout + c_out c) (guru_cells d h)) (footprint vout)).
  { eapply Permutation_trans; [apply Permutation_map; exact P|].
    unfold view_cells, footprint. rewrite map_map, Hs.
    erewrite map_ext; [apply Permutation_refl|]. intros idx. unfold view_cell, c_out. cbn. lia. }
  split; [exact Po|split].
  - eapply Permutation_trans; [apply Permutation_map; exact P|].
    unfold view_cells, footprint. rewrite map_map.
    erewrite map_ext; [apply Permutation_refl|]. intros idx. unfold view_cell, c_in. cbn. lia.
  - intros a. split.
    + intros Ha. apply (Permutation_in _ Po) in Ha. unfold footprint in Ha.
      apply in_map_iff in Ha. destruct Ha as (idx & <- & Hi). exists idx. split; auto.
      apply In_tuples. auto.
    + intros (idx & Hv & ->). apply (Permutation_in _ (Permutation_sym Po)).
      unfold footprint. apply in_map. apply In_tuples. auto.
Qed.

(* non-vacuity: a 3x4x5 array, input rotated, output a padded sub-block, mask (T,F,T) *)
Example C15_plan_example :
  let vin := v_rotated (root_view [(0,3);(0,4);(0,5)]) in
  let vout := v_sliced 1 5 (root_view [(0,6);(0,5);(0,3)]) in
  plan_ctor [true;false;true] (base vin) (lay vin) (base vout) (lay vout) (-1)
  = mkguru 2 [mkiodim 4 5 15; mkiodim 3 20 1] 1 [mkiodim 5 1 3] 0 15 (-1) 80.
Proof. vm_compute. reflexivity. Qed.

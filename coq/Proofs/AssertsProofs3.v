(* C20, third part: (1) ALIASING operands of view assignment -- the assertion never reads the base pointer, so two views
   of one array are stopped exactly when their extensions differ; (2) view-forming calls outside their documented domain
   are stopped (taked / dropped beyond the size, slice bounds outside the extension, partitions that do not divide,
   halved of an odd size); (3) layout_t::scale after the fix notes/patches_C20/scale-offset-rebased.diff. *)
From BM Require Import Base.Tactics Model.Layout Model.View Model.Spec Model.Iter Model.Rebase Model.Assign Model.Asserts
  Proofs.LayoutProofs Proofs.ViewProofs2 Proofs.IterProofs Proofs.RebaseProofs Proofs.AssertsProofs Proofs.AssertsProofs2.
Local Open Scope Z_scope.

(* ---------------- (1) aliasing ---------------- *)
(* no "same first element" shortcut in the transcribed code: the verdict is a function of the two layouts only *)
Lemma asrt_assign_base_irrelevant k d s bd bs :
  asrt_assign k (mkview (lay d) bd) (mkview (lay s) bs) = asrt_assign k d s.
Proof. destruct k; reflexivity. Qed.

Theorem C20_assign_base_irrelevant_proved :
  forall k d s bd bs conv m,
    asrt_assign k (mkview (lay d) bd) (mkview (lay s) bs) = asrt_assign k d s
    /\ (g_assign Debug k conv (mkview (lay d) bd) (mkview (lay s) bs) m = Aborted <-> g_assign Debug k conv d s m = Aborted).
Proof.
  intros. split; [apply asrt_assign_base_irrelevant|]. unfold g_assign. rewrite asrt_assign_base_irrelevant.
  destruct (asrt_assign k d s); split; intro H; try discriminate; reflexivity.
Qed.

(* two views obtained from ONE root by two programs (same first element and strides with different extents, overlapping
   blocks, a sub-block and its enclosing block, a row and a column, the very same elements, ...): through every overload
   class of view assignment, move-assignment, swap and array_ref assignment the assertion-enabled build stops the
   statement before the copy loop EXACTLY when the extensions differ; when they are equal the copy loop runs *)
Theorem C20_assign_aliasing_exact_proved :
  forall (exts : list range) (opsd opss : list op) (d s : view) (k : akind),
    Forall (fun r => fst r <= snd r) exts ->
    run_ok opsd (root_view exts) = true -> run_ok opss (root_view exts) = true ->
    run_ops opsd (root_view exts) = Some d -> run_ops opss (root_view exts) = Some s ->
    view_kind k = true ->
    forall conv m,
       (x_eq (l_extensions (lay d)) (l_extensions (lay s)) = false -> g_assign Debug k conv d s m = Aborted)
    /\ (x_eq (l_extensions (lay d)) (l_extensions (lay s)) = true -> g_assign Debug k conv d s m = Done (assign_view conv d s m)).
Proof.
  intros exts opsd opss d s k Hx Hod Hos Hd Hs Hk conv m.
  assert (Hl : lok (lay (root_view exts))) by (cbn [root_view lay]; apply mk_lok; exact Hx).
  assert (Hp : pos (lay (root_view exts))) by (cbn [root_view lay]; apply mk_pos; exact Hx).
  destruct (run_inv opsd _ _ Hl Hp Hod Hd) as [Ld _]. destruct (run_inv opss _ _ Hl Hp Hos Hs) as [Ls _].
  split; intro E.
  - apply (C20_assign_fire_proved k d s Hk E).
  - unfold g_assign. rewrite (C20_assign_silent_proved k d s Ld Ls E). reflexivity.
Qed.

(* ---------------- (2) violating view-forming calls ---------------- *)
Lemma g_apply_aborted o v : asrt_op o v = false -> g_apply Debug o v = Aborted.
Proof. intro H. unfold g_apply, checks. rewrite H. reflexivity. Qed.

Lemma asrt_taked_exact n v d l : lay v = d :: l -> asrt_op (OTaked n) v = (n <=? v_size v).
Proof. intro E. unfold asrt_op, asrt_bm, asrt_plain, asrt_taked. rewrite E. apply andb_true_r. Qed.

Lemma asrt_dropped_exact n v d l : lay v = d :: l -> asrt_op (ODropped n) v = (n <=? v_size v).
Proof.
  intro E. unfold asrt_op, asrt_bm, asrt_plain, asrt_dropped_bm, asrt_dropped_plain. rewrite E.
  destruct l; [reflexivity|apply andb_true_r].
Qed.

Lemma asrt_halved_exact v d l : lay v = d :: l -> asrt_op OHalved v = (Z.rem (v_size v) 2 =? 0).
Proof. intro E. unfold asrt_op, asrt_bm, asrt_plain, asrt_halved_plain. rewrite E. reflexivity. Qed.

Lemma asrt_partitioned_exact n v d l : lay v = d :: l ->
  asrt_op (OPartitioned n) v = negb (n =? 0) && (Z.rem (d_nelems d) n =? 0).
Proof. intro E. unfold asrt_op, asrt_bm, asrt_plain, asrt_partitioned. rewrite E. apply andb_true_r. Qed.

Lemma asrt_sliced_exact a b v d d' l : lay v = d :: d' :: l -> dok d -> a <> b ->
  asrt_op (OSliced a b) v = r_contains (d_extension d) a && r_contains (d_extension d) (b - 1).
Proof.
  intros E Hd Hab. unfold asrt_op, asrt_bm, asrt_plain, asrt_sliced. rewrite E.
  rewrite (dok_a_ext _ Hd). replace (a =? b) with false by (symmetry; apply Z.eqb_neq; exact Hab).
  cbn [orb andb]. apply andb_true_r.
Qed.

(* the calls the death tests make: each is stopped in the assertion-enabled build *)
Theorem C20_violating_ops_fire_proved :
  forall (v : view) (d : dim) (l : layout), lay v = d :: l ->
       (forall n, v_size v < n -> g_apply Debug (OTaked n) v = Aborted /\ g_apply Debug (ODropped n) v = Aborted)
    /\ (Z.rem (v_size v) 2 <> 0 -> g_apply Debug OHalved v = Aborted)
    /\ (forall n, n = 0 \/ Z.rem (d_nelems d) n <> 0 -> g_apply Debug (OPartitioned n) v = Aborted)
    /\ (forall a b d' l', l = d' :: l' -> dok d -> a <> b ->
          r_contains (d_extension d) a = false \/ r_contains (d_extension d) (b - 1) = false ->
          g_apply Debug (OSliced a b) v = Aborted)
    /\ (forall n, n <= v_size v -> asrt_op (OTaked n) v = true /\ asrt_op (ODropped n) v = true).
Proof.
  intros v d l E. repeat split.
  - apply g_apply_aborted. rewrite (asrt_taked_exact n v d l E). apply Z.leb_gt. assumption.
  - apply g_apply_aborted. rewrite (asrt_dropped_exact n v d l E). apply Z.leb_gt. assumption.
  - intro H. apply g_apply_aborted. rewrite (asrt_halved_exact v d l E). apply Z.eqb_neq. exact H.
  - intros n H. apply g_apply_aborted. rewrite (asrt_partitioned_exact n v d l E). destruct H as [->|H].
    + reflexivity.
    + replace (Z.rem (d_nelems d) n =? 0) with false by (symmetry; apply Z.eqb_neq; exact H). apply andb_false_r.
  - intros a b d' l' El Hd Hab H. subst l. apply g_apply_aborted. rewrite (asrt_sliced_exact a b v d d' l' E Hd Hab).
    destruct H as [H|H]; rewrite H; [reflexivity|apply andb_false_r].
  - rewrite (asrt_taked_exact n v d l E). apply Z.leb_le. assumption.
  - rewrite (asrt_dropped_exact n v d l E). apply Z.leb_le. assumption.
Qed.

(* ---------------- (3) layout_t::scale after the fix ---------------- *)
(* zero-based views (offset 0): the repaired code computes what the old one did -- C12's theorems are untouched *)
Lemma scale_fixed_zero_offset num den d : d_offset d = 0 -> d_scale_fixed num den d = d_scale num den d.
Proof. intro H. unfold d_scale_fixed, d_scale. rewrite H. rewrite Z.mul_0_l. replace (Z.quot 0 den) with 0 by (destruct den; reflexivity). reflexivity. Qed.

Lemma rem_mul_of_rem f x den : Z.rem x den = 0 -> Z.rem (f * x) den = 0.
Proof.
  intro H. destruct (Z.eq_dec den 0) as [->|Hd].
  - rewrite Z.rem_0_r_ext in * by reflexivity. subst. lia.
  - pose proof (Z.quot_rem' x den) as Q. rewrite H in Q. rewrite Q.
    replace (f * (den * Z.quot x den + 0)) with ((f * Z.quot x den) * den) by lia. apply Z.rem_mul. exact Hd.
Qed.

(* silent on every well-formed layout, any index bases: the new offset assertion follows from the stride assertion *)
Theorem C20_scale_asserts_silent_proved :
  forall (num den : Z) (l : layout), lok l -> asrt_scale_stride num den l = true -> asrt_scale_plain num den l = true.
Proof.
  intros num den l Hl. unfold asrt_scale_stride, asrt_scale_plain. induction Hl as [|d l Hd Hl IH]; [reflexivity|].
  cbn [forallb]. intro H. apply andb_prop in H as [H1 H2]. rewrite (IH H2), H1. cbn [andb]. rewrite andb_true_r.
  apply Z.eqb_eq in H1. destruct Hd as (f & n & Ho & _). apply Z.eqb_eq.
  rewrite Ho. replace (f * d_stride d * num) with (f * (d_stride d * num)) by lia. apply rem_mul_of_rem. exact H1.
Qed.

(* the repaired scale keeps the index range: member_cast / reinterpret_array_cast of an array indexed [f, f+n) is indexed
   [f, f+n) (sizeof(T) = k * sizeof(T2), the static_assert of the casts) *)
Theorem C20_scale_keeps_extension_proved :
  forall (k den : Z) (d : dim) (f n : Z), 0 < k -> 0 < den -> dim_okg d f n ->
    dim_okg (d_scale_fixed (k * den) den d) f n
    /\ d_extension (d_scale_fixed (k * den) den d) = d_extension d.
Proof.
  intros k den d f n Hk Hden H. assert (G : dim_okg (d_scale_fixed (k * den) den d) f n).
  { destruct H as (Ho & Hn & H0 & Hs). unfold dim_okg, d_scale_fixed; cbn [d_stride d_offset d_nelems].
    replace (d_stride d * (k * den)) with ((d_stride d * k) * den) by lia.
    replace (d_offset d * (k * den)) with ((d_offset d * k) * den) by lia.
    replace (d_nelems d * (k * den)) with ((d_nelems d * k) * den) by lia.
    rewrite !Z.quot_mul by lia. repeat split; try lia; try (intro Hp; specialize (Hs Hp); nia). }
  split; [exact G|]. rewrite (dim_okg_extension _ _ _ G), (dim_okg_extension _ _ _ H). reflexivity.
Qed.

(* before the fix: the assertion of the old code, offset_ == 0, is false on every re-based dimension with elements *)
Definition asrt_scale_old (l : layout) : bool := forallb (fun d => d_offset d =? 0) l.
Theorem C20_scale_old_refuted_proved :
  exists l, lok l /\ asrt_scale_stride 16 8 l = true /\ asrt_scale_old l = false.
Proof.
  exists (mk_layout [(2, 5)]). split; [apply mk_lok; repeat constructor; cbn; lia|]. split; vm_compute; reflexivity.
Qed.

#!/bin/sh
# usage: dbg.sh File.v LINE  -- show the goal just before line LINE (development aid only)
f=$1; n=$2
mkdir -p /tmp/coqdbg
head -n $(($n-1)) $f > /tmp/coqdbg/Dbg.v
echo "Show. Abort." >> /tmp/coqdbg/Dbg.v
timeout 300 coqc -Q /verif/coq BM /tmp/coqdbg/Dbg.v 2>&1 | grep -v "^WARNING conda" | tail -${3:-60}

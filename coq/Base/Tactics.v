(* Arithmetic set-up shared by all proof files: lia sees truncating division (Z.quot/Z.rem),
   boolean comparisons and nat/Z conversions. *)
From Coq Require Export ZArith List Bool Lia ZifyBool.
Export ListNotations.

Ltac Zify.zify_post_hook ::= Z.to_euclidean_division_equations.

Ltac inv H := inversion H; subst; clear H.

(* split boolean conjunctions / comparisons in hypotheses into Props *)
Ltac bprop :=
  repeat match goal with
  | H : andb _ _ = true |- _ => apply andb_prop in H; destruct H
  | H : (_ <=? _)%Z = true |- _ => apply Z.leb_le in H
  | H : (_ <? _)%Z = true |- _ => apply Z.ltb_lt in H
  | H : (_ =? _)%Z = true |- _ => apply Z.eqb_eq in H
  | H : (_ =? _)%Z = false |- _ => apply Z.eqb_neq in H
  | H : (_ <=? _)%Z = false |- _ => apply Z.leb_gt in H
  | H : (_ <? _)%Z = false |- _ => apply Z.ltb_ge in H
  | H : orb _ _ = true |- _ => apply orb_prop in H
  end.

(* prove a boolean conjunction of comparisons from Prop facts *)
Ltac bsolve :=
  repeat match goal with
  | |- andb _ _ = true => apply andb_true_intro; split
  | |- (_ <=? _)%Z = true => apply Z.leb_le
  | |- (_ <? _)%Z = true => apply Z.ltb_lt
  | |- (_ =? _)%Z = true => apply Z.eqb_eq
  end; try assumption; try lia.

Local Open Scope Z_scope.
Lemma quot_exact_mul y s : s <> 0 -> Z.rem y s = 0 -> y = Z.quot y s * s.
Proof. intros Hs Hr. pose proof (Z.quot_rem' y s). lia. Qed.

(* name y / s as an opaque q with y = q * s *)
Ltac exactq y s q :=
  let H := fresh "Hq" in
  assert (H : y = Z.quot y s * s) by (apply quot_exact_mul; [lia|assumption]);
  set (q := Z.quot y s) in *; clearbody q.

(* Extraction of the executable C17 model.  ExtrOcamlBasic only: bool, option, unit, list, prod,
   sumbool map to OCaml's; Z, positive, nat stay the extracted inductive types.
   No Extract Constant, no further Extract Inductive. *)
From Coq Require Import ZArith List.
From Coq Require Extraction ExtrOcamlBasic.
From BM Require Import Model.CodecArray Model.CodecView.
Extraction Language OCaml.
Extraction "modelc17.ml"
  save_flat load_flat save_nested load_nested nested_dflt
  ca_make ca_clear cx_collapse cx_num cx_eq cx_indices load_events ev_run
  cv_recipe cv_addrs z_nodupb
  save_view_flat load_view_flat save_view_nested load_view_nested.

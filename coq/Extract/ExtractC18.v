(* Extraction of the executable C18 model.  ExtrOcamlBasic only: bool, option, unit, list, prod,
   sumbool map to OCaml's; Z, positive, nat stay the extracted inductive types.
   No Extract Constant, no further Extract Inductive. *)
From Coq Require Import ZArith List.
From Coq Require Extraction ExtrOcamlBasic.
From BM Require Import Model.Layout Model.View Model.MpiTypes Model.MpiSkeleton Model.MpiLedger Model.MpiRun.
Extraction Language OCaml.
Extraction "modelc18.ml"
  root_view run_ops apply_op dom_op exec_op
  l_sizes l_extensions l_strides l_num_elements l_is_empty v_size v_extension v_rank
  triple_of trace_of msg_byte_addrs flat_addrs index_addrs transfer_run
  typemap message_bytes dt_lb dt_extent dt_size dt_true_lb dt_true_ub
  ledger_balanced created count_free.

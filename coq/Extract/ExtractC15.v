(* Extraction of the executable C15 model.  ExtrOcamlBasic only: bool, option, unit, list, prod,
   sumbool map to OCaml's; Z, positive, nat stay the extracted inductive types.
   No Extract Constant, no further Extract Inductive. *)
From Coq Require Import ZArith List.
From Coq Require Extraction ExtrOcamlBasic.
From BM Require Import Model.Layout Model.View Model.FftwPlan.
Extraction Language OCaml.
Extraction "modelc15.ml"
  root_view run_ops apply_op dom_op exec_op l_sizes l_strides v_addr v_rank
  plan_of fftw_plan_dft guru_kosher
  fe_dft fe_plan_execute fe_fft_range iter_pair_okb v_from_iterators fe_dft_inplace fe_dft_forward fe_dft_backward
  plan_ctor planning_preserves_arrays planning_needs_wisdom plan_nonnull
  guru_cells plan_out_addresses plan_in_addresses footprint footprint_x firsts v_origin l_extensions r_eq
  iter_pair_sizeb zero_basedb tuples select.

(* C13: extraction of the executable dispatch model.  ExtrOcamlBasic only; Z/positive stay extracted inductives. *)
From Coq Require Import ZArith List.
From Coq Require Extraction ExtrOcamlBasic.
From BM Require Import Model.BlasC13 Model.BlasC13Ref Model.BlasC13Crit Model.BlasC13L1 Model.BlasC13L1Ref Model.BlasC13L3 Model.BlasC13L3Crit Model.BlasC13TrsmRef Model.BlasC13Code Model.BlasC13Expr.
Extraction Language OCaml.
Extraction "modelc13.ml"
  gemm_n gemm_inplace gemv_n gemv_inplace gemm_info gemv_info gemm_legal gemv_legal gemm_asserts gemv_asserts
  wf_matb shapes_conformb conj_mat gemm_lazy gemv_lazy fresh_mat gemm_implements_b gemv_implements_b dot_n_model l1_xy l1_x gemm_site_cond gemv_site_cond syrk_model herk_model trsm_model rk_info trsm_info rk_legal trsm_legal syrk_dispatch herk_dispatch trsm_dispatch hermitized rk_implements_b final_code vfinal_code axpy_call copy_call swap_call scal_call red_call trsm_implements_b rk_site_cond
  decos_mat decos_vec resolve vresolve geval gstmt_out gcompile veval vstmt_out vcompile aexpr_scale aexpr_vec astmt_alpha astmt_call
  dexpr_call dexpr_post tstmt_args tstmt_model hstmt_passes hstmt_out l1stmt_call l1stmt_scalar
  gI_mul gI_neg gplan_code vplan_code.

(* C16: extraction of the const automaton.  ExtrOcamlBasic only (bool, option, unit, list, prod, sumbool
   map to OCaml's); nat stays the extracted inductive type.  No Extract Constant / Extract Inductive. *)
From Coq Require Import List.
From Coq Require Extraction ExtrOcamlBasic.
From BM Require Import Model.ConstAutomaton.
Extraction Language OCaml.
Extraction "modelc16.ml"
  astep run_path writable ro hole clean_path keeps_mut mut_path assignable_thing
  all_ops mutators table_states table_rows states_upto rows_of is_root const_root mutable_root
  copy_constructible rebindable resizable all_kinds.

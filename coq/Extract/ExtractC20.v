(* C20: extraction of the executable model for the assertion checks.  ExtrOcamlBasic only (bool, option, unit, list,
   prod, sumbool map to OCaml's; Z, positive, nat stay extracted inductives); no Extract Constant, no further
   Extract Inductive.  The output module is called `model` (in its own directory build/extract/c20/) so that the
   shared ocaml/zu.ml and ocaml/views.ml (which say `open Model`) are reused unchanged; it is a superset of what
   coq/Extract/Extract.v extracts. *)
From Coq Require Import ZArith List.
From Coq Require Extraction ExtrOcamlBasic.
From BM Require Import Model.Layout Model.View Model.Spec Model.Iter Model.Rebase Model.Assign Model.Compare Model.Asserts Model.AssertsRecv.
Extraction Language OCaml.
Extraction "model.ml"
  mk_layout root_view run_ops apply_op dom_op exec_op
  l_sizes l_extensions l_strides l_num_elements l_is_empty v_size v_extension v_rank
  addr_brackets addr_paren addr_cursor v_addr
  run_spec root_spec spec_op rowmajor collapse valid_idxb
  it_begin it_end it_inc it_dec it_add it_sub it_diff it_eq it_lt it_ne it_gt it_le it_ge it_deref it_index
  er_begin er_end er_size e_inc e_dec e_add e_sub e_assign e_diff e_lt e_eq e_deref e_index er_at er_front er_back
  assign_view move_view fill_view swap_views assign_vals x_sizes_eq footprint e_addr
  v_eq v_ne v_lt v_le v_gt v_ge v_tree flat_t
  twin_op twin_ops norm firsts_of diag_ok v_first
  v_broadcasted v_index x_from_linear x_to_linear x_next_canonical x_prev_canonical x_intersection x_eq l_call
  a_ext asrt_observe nz_observe asrt_index asrt_brackets abort_level asrt_sliced asrt_sliced_nullbase
  asrt_bm asrt_plain asrt_op nz_op checks asserts_along g_apply g_run g_index g_brackets
  asrt_it_diff asrt_it_eq asrt_it_cmp asrt_e_cmp asrt_e_make_plain asrt_assign numel_eq exts_eq view_kind g_assign
  ov_of ov_asrt ov_next ov_first first_checked first_result g_entry abort_level_entry g_brackets_r
  asrt_elements_at elements_at_idx asrt_elements_at_all g_elements_at.

(* Extraction of the executable C12 model.  ExtrOcamlBasic only: bool, option, unit, list, prod,
   sumbool map to OCaml's; Z, positive, nat stay the extracted inductive types.
   No Extract Constant, no further Extract Inductive. *)
From Coq Require Import ZArith List.
From Coq Require Extraction ExtrOcamlBasic.
From BM Require Import Model.Layout Model.View Model.Spec Model.Iter Model.Rebase Model.ProjectC12Based Model.ProjectC12 Model.ProjectC12Walk.
Extraction Language OCaml.
Extraction "modelc12.ml"
  root_view dom_op exec_op v_rank v_size v_extension diag_ok
  l_sizes l_extensions l_strides l_offsets l_num_elements l_is_empty
  p_embed p_ptr p_addr_brackets p_addr p_exec_op p_dom_op p_exec_proj p_dom_proj dom_scale_b l_scale_b
  convert_construct convert_iter_pair convert_flat convert_assign c_at e_begin
  p_it_begin p_it_end p_it_deref p_it_index p_rit_deref p_rit_index p_index
  it_inc it_dec it_add it_sub it_diff
  p_e_begin p_e_end p_e_deref p_e_index e_inc e_dec e_add e_sub e_diff
  x_from_linear.

(* Extraction of the executable C12 model.  ExtrOcamlBasic only: bool, option, unit, list, prod,
   sumbool map to OCaml's; Z, positive, nat stay the extracted inductive types.
   No Extract Constant, no further Extract Inductive. *)
From Coq Require Import ZArith List.
From Coq Require Extraction ExtrOcamlBasic.
From BM Require Import Model.Layout Model.View Model.Spec Model.ProjectC12.
Extraction Language OCaml.
Extraction "modelc12.ml"
  root_view dom_op exec_op v_rank v_size v_extension
  l_sizes l_extensions l_strides l_num_elements l_is_empty
  p_embed p_ptr p_addr_brackets p_addr p_exec_op p_dom_op p_exec_proj p_dom_proj
  convert_construct c_at e_begin.

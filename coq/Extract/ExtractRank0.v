(* Extraction of the rank-0 lifecycle machine (C04, C05, C07 at dimensionality 0).  ExtrOcamlBasic only: bool, option, unit,
   list, prod, sumbool map to OCaml's; Z, positive, nat stay the extracted inductive types.
   No Extract Constant, no further Extract Inductive. *)
From Coq Require Import ZArith List.
From Coq Require Extraction ExtrOcamlBasic.
From BM Require Import Model.Life Model.LifeRank0.
Extraction Language OCaml.
Extraction "modelrank0.ml"
  step0 run_op0 run_rank0 st0 reset_counts unwind cmp0 rel0 read_operand ref_cell
  vstep0 run_values0 rval abs_state abs_arr ref_cell_state is_moved
  arr_valid arr_block alive_cells live_blocks cell_val nel
  default_alloc std_alloc pat NP NSLOTS.

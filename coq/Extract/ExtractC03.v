(* Extraction of the executable C03 model.  ExtrOcamlBasic only: bool, option, unit, list, prod, sumbool map to
   OCaml's; Z, positive, nat stay the extracted inductive types.  No Extract Constant, no further Extract Inductive. *)
From Coq Require Import ZArith List.
From Coq Require Extraction ExtrOcamlBasic.
From BM Require Import Model.Layout Model.View Model.Spec Model.Iter Model.Assign Model.Compare Model.C03Prog.
Extraction Language OCaml.
Extraction "modelc03.ml"
  mk_layout root_view run_ops apply_op dom_op exec_op
  l_sizes l_extensions l_strides l_num_elements l_is_empty v_size v_extension v_rank
  er_size e_addr footprint x_sizes_eq
  rows_of elems_of cat_rows run_on_view run_on_values abs_rows vals rd rd0 collapses flat_t v_tree
  script p_reverse p_fill p_find p_is_sorted_until p_sort p_rotate1 p_rotate p_unique p_remove p_swap_ranges p_copy p_equal bind.

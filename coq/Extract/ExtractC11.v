(* Extraction for the C11 driver: everything the view-family driver uses (so that ocaml/{zu,views,iters,assign,
   compare}.ml compile unchanged against it) plus the pointer-typed model of Model/PtrAlgebra.v and the (segment,
   offset) pointer it is run on.  ExtrOcamlBasic only; no Extract Constant, no further Extract Inductive. *)
From Coq Require Import ZArith List.
From Coq Require Extraction ExtrOcamlBasic.
From BM Require Import Model.Layout Model.View Model.Spec Model.Iter Model.Rebase Model.Assign Model.Compare Model.PtrAlgebra.
Extraction Language OCaml.
Extraction "model.ml"
  mk_layout root_view run_ops apply_op dom_op exec_op
  l_sizes l_extensions l_strides l_num_elements l_is_empty v_size v_extension v_rank
  addr_brackets addr_paren addr_cursor v_addr
  run_spec root_spec spec_op rowmajor collapse valid_idxb
  it_begin it_end it_inc it_dec it_add it_sub it_diff it_eq it_lt it_ne it_gt it_le it_ge it_deref it_index
  er_begin er_end er_size e_inc e_dec e_add e_sub e_assign e_diff e_lt e_eq e_deref e_index er_at er_front er_back
  assign_view move_view fill_view swap_views assign_vals x_sizes_eq footprint e_addr
  v_eq v_ne v_lt v_le v_gt v_ge v_tree flat_t
  twin_op twin_ops norm firsts_of diag_ok v_first
  v_broadcasted v_index x_from_linear x_to_linear x_next_canonical x_prev_canonical x_intersection x_eq l_call
  (* C11 *)
  observe_Z observe_ptr obs_map obs_ints
  p_index p_sliced p_apply_op p_exec_op p_dom_op p_addr_brackets p_addr_paren p_addr_cursor p_size p_extension p_rank
  p_it_begin p_it_end p_it_inc p_it_dec p_it_add p_it_sub p_it_diff p_it_eq p_it_lt p_it_deref p_it_index
  p_er_begin p_er_end p_er_size p_e_inc p_e_dec p_e_add p_e_sub p_e_diff p_e_lt p_e_eq p_e_deref p_e_index p_er_at
  p_assign_view p_move_view p_fill_view p_swap_views p_assign_vals
  p_v_eq p_v_ne p_v_lt p_v_le p_v_gt p_v_ge
  derefs_assign derefs_fill derefs_swap derefs_tree
  seg_add seg_diff seg_eq.

(* Extraction of the lifecycle machine (C04, C06, C08, C09, C10).  ExtrOcamlBasic only: bool, option, unit,
   list, prod, sumbool map to OCaml's; Z, positive, nat stay the extracted inductive types.
   No Extract Constant, no further Extract Inductive. *)
From Coq Require Import ZArith List.
From Coq Require Extraction ExtrOcamlBasic.
From BM Require Import Model.Layout Model.View Model.Iter Model.Assign Model.Life Model.LifeView.
Extraction Language OCaml.
Extraction "modellife.ml"
  step run_op run_life st0 reset_counts unwind
  arr_valid arr_block alive_cells live_blocks cell_val abs_state abs_arr
  run_values vstep
  numel collapse bx_eq norm_bx bnumel arr_bx arr_eqb zeros alloc_eq socc same_shape_rows nel
  default_alloc std_alloc pat NP NSLOTS
  root_view run_ops apply_op er_at l_sizes l_extensions l_num_elements view_vsrc.

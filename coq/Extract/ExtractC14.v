(* Extraction of the executable LAPACK marshalling model (C14).  ExtrOcamlBasic only: bool, option,
   unit, list, prod, sumbool map to OCaml's; Z, positive, nat stay the extracted inductive types.
   No Extract Constant, no further Extract Inductive. *)
From Coq Require Import ZArith List.
From Coq Require Extraction ExtrOcamlBasic.
From BM Require Import Model.Lapack.
Extraction Language OCaml.
Extraction "modelc14.ml"
  mk_operand root_block root_stride m_rotated m_block maddr vaddr
  filling_char flip ftri vtri
  potrf_dom potrf_asrt potrf_colbranch potrf_call_of potrf_ret potrf_legal potrf_order
  potrf_it_asrt potrf_it_call potrf_it_ret m_begin m_end it_plus it_distance
  geqrf_dom geqrf_asrt geqrf_mk geqrf_trace geqrf_ret geqrf_legal
  gesvd_dom gesvd_asrt gesvd_mk gesvd_trace gesvd_legal gesvd_minwork gesvd_value_operands
  syev_dom syev_asrt syev_step_of syev_ret syev_legal syev_work_size syev_rowbranch.

(* Extraction of the executable model.  ExtrOcamlBasic only: bool, option, unit, list, prod,
   sumbool map to OCaml's; Z, positive, nat stay the extracted inductive types.
   No Extract Constant, no further Extract Inductive. *)
From Coq Require Import ZArith List.
From Coq Require Extraction ExtrOcamlBasic.
From BM Require Import Model.Layout Model.View Model.Spec.
Extraction Language OCaml.
Extraction "model.ml"
  mk_layout root_view run_ops apply_op dom_op exec_op
  l_sizes l_extensions l_strides l_num_elements l_is_empty v_size v_extension v_rank
  addr_brackets addr_paren addr_cursor v_addr
  run_spec root_spec spec_op rowmajor collapse valid_idxb
  x_from_linear x_to_linear x_next_canonical x_prev_canonical x_intersection x_eq l_call.

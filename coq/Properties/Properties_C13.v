(* C13 -- BLAS adaptor gives the mathematical result for every accepted view combination.
   Only the property theorems, each closed by `exact`, with Print Assumptions.
   The full statement is FALSE of the pinned code (C13_gemm_full_refuted, C13_gemv_full_refuted and one theorem per
   defective call site in Proofs/BlasC13Refuted.v); what is proved instead is stated by the *_partial theorems, whose
   named exclusion predicates are gemm_site_cond / gemm_general_position_defect / gemv_site_cond (Model/BlasC13Crit.v). *)
From BM Require Import Base.Tactics Model.BlasC13 Model.BlasC13Gen Model.BlasC13Ref Model.BlasC13Crit Model.BlasC13Spec
  Model.BlasC13L1 Proofs.BlasC13Main Proofs.BlasC13Refuted Proofs.BlasC13Gemv Model.BlasC13L3 Model.BlasC13L3Crit Proofs.BlasC13RefProofs Proofs.BlasC13L1 Proofs.BlasC13Conj Proofs.BlasC13RankK.
Local Open Scope Z_scope.

(* the ladders the theorems speak about are the ones in the source text now *)
Theorem C13_dispatch_regenerated :
  gemm_nn_gen = gemm_nn /\ gemm_nj_gen = gemm_nj /\ gemm_jn_gen = gemm_jn /\ gemm_jj_gen = gemm_jj /\ gemv_gen = gemv_n
  /\ gemm_nn_asserts_gen = gemm_asserts /\ gemm_nj_asserts_gen = gemm_asserts /\ gemm_jn_asserts_gen = gemm_asserts
  /\ gemm_jj_asserts_gen = gemm_asserts /\ gemv_asserts_gen = gemv_asserts.
Proof. exact dispatch_regenerated. Qed.
Print Assumptions C13_dispatch_regenerated.

(* any xGEMM call that passes the decidable criterion is legal, computes alpha*A.B + beta*C on the logical contents of
   the views (conjugations included), and changes no cell outside the output view: all sizes, strides, flags *)
Theorem C13_gemm_criterion_sound :
  forall (R : Type) (rzero : R) (radd rmul : R -> R -> R) (cj : R -> R),
    (forall x y, rmul x y = rmul y x) ->
    forall (alpha beta : R) (a b c : mat) (k : gemm_call) (mem : Z -> R),
      shapes_conform a b c -> gemm_implements_b k a b c = true ->
      gemm_correct_at R rzero radd rmul cj alpha beta a b c k mem.
Proof. exact gemm_certified. Qed.
Print Assumptions C13_gemm_criterion_sound.

(* gemm_n as regenerated from gemm.hpp: every call site that has a named condition is right under it *)
Theorem C13_gemm_partial :
  forall (R : Type) (rzero : R) (radd rmul : R -> R -> R) (cj : R -> R),
    (forall x y, rmul x y = rmul y x) ->
    forall (alpha beta : R) (a b c : mat) (k : gemm_call) (mem : Z -> R),
      wf_mat a -> wf_mat b -> wf_mat c -> shapes_conform a b c -> mconj c = false ->
      (match mconj a, mconj b with
       | false, false => gemm_nn_gen a b c | false, true => gemm_nj_gen a b c
       | true, false => gemm_jn_gen a b c | true, true => gemm_jj_gen a b c end) = OCall k ->
      gemm_site_cond k a b c = true ->
      gemm_correct_at R rzero radd rmul cj alpha beta a b c k mem.
Proof. exact gemm_partial. Qed.
Print Assumptions C13_gemm_partial.

(* all three sizes >= 2: every site is right except 113, 201, 204, 205 and (206, 401 unless rows a = cols b) *)
Theorem C13_gemm_general_position :
  forall (R : Type) (rzero : R) (radd rmul : R -> R -> R) (cj : R -> R),
    (forall x y, rmul x y = rmul y x) ->
    forall (alpha beta : R) (a b c : mat) (k : gemm_call) (mem : Z -> R),
      wf_mat a -> wf_mat b -> wf_mat c -> shapes_conform a b c -> mconj c = false ->
      2 <= rows a -> 2 <= cols a -> 2 <= cols b ->
      (match mconj a, mconj b with
       | false, false => gemm_nn_gen a b c | false, true => gemm_nj_gen a b c
       | true, false => gemm_jn_gen a b c | true, true => gemm_jj_gen a b c end) = OCall k ->
      gemm_general_position_defect k a b = false ->
      gemm_correct_at R rzero radd rmul cj alpha beta a b c k mem.
Proof. exact gemm_general. Qed.
Print Assumptions C13_gemm_general_position.

(* conjugated output view (gemm.hpp:161: everything is conjugated and the ordinary dispatch runs on the underlying
   cells): if the call made for the conjugated operands, with conjugated scalars, passes the criterion, then the LOGICAL
   contents of c (the conjugates of its cells) become alpha*a.b + beta*c; cells outside c are unchanged *)
Theorem C13_gemm_conj_output :
  forall (R : Type) (rzero : R) (radd rmul : R -> R -> R) (cj : R -> R),
    (forall x y, rmul x y = rmul y x) ->
    (forall x, cj (cj x) = x) -> (forall x y, cj (radd x y) = radd (cj x) (cj y)) ->
    (forall x y, cj (rmul x y) = rmul (cj x) (cj y)) -> cj rzero = rzero ->
    forall (alpha beta : R) (a b c : mat) (k : gemm_call) (mem : Z -> R),
      shapes_conform a b c -> mconj c = true ->
      gemm_implements_b k (conj_mat a) (conj_mat b) (conj_mat c) = true ->
         gemm_legal k = true
      /\ (forall i j, 0 <= i < rows c -> 0 <= j < cols c ->
            cj (gemm_ref R rzero radd rmul cj (cj alpha) (cj beta) k mem (maddr c i j))
            = gemm_math R rzero radd rmul cj alpha beta a b c mem i j)
      /\ (forall p, ~ in_mat c p -> gemm_ref R rzero radd rmul cj (cj alpha) (cj beta) k mem p = mem p).
Proof. exact gemm_conj_output_sound. Qed.
Print Assumptions C13_gemm_conj_output.

Theorem C13_gemm_partial_satisfiable :
  let a := mk_mat 1000008 7 1 2 3 false in
  let b := mk_mat 2000005 1 6 3 4 false in
  let c := mk_mat 3000006 5 1 2 4 false in
  wf_mat a /\ wf_mat b /\ wf_mat c /\ shapes_conform a b c
  /\ exists k, gemm_nn_gen a b c = OCall k /\ g_site k = 115 /\ gemm_site_cond k a b c = true.
Proof. exact gemm_partial_instance. Qed.
Print Assumptions C13_gemm_partial_satisfiable.

(* the full statement is false of the pinned code *)
Theorem C13_gemm_full_refuted : ~ C13_gemm_full.
Proof. exact gemm_full_refuted. Qed.
Print Assumptions C13_gemm_full_refuted.

(* DESIGN 7 item 23 (row-major A, column-major B, column-major C computes B.A), item 22 (a_count == 1 and one column),
   item 21 (illegal lda for the transpose of an n x 1 array) *)
Theorem C13_gemm_site_113_refuted : ~ gemm_site_full 113.
Proof. exact gemm_site_113_refuted. Qed.
Print Assumptions C13_gemm_site_113_refuted.
Theorem C13_gemm_site_101_refuted : ~ gemm_site_full 101.
Proof. exact gemm_site_101_refuted. Qed.
Print Assumptions C13_gemm_site_101_refuted.
Theorem C13_gemm_site_103_refuted : ~ gemm_site_full 103.
Proof. exact gemm_site_103_refuted. Qed.
Print Assumptions C13_gemm_site_103_refuted.

(* gemv *)
Theorem C13_gemv_criterion_sound :
  forall (R : Type) (rzero : R) (radd rmul : R -> R -> R) (cj : R -> R)
         (alpha beta : R) (m : mat) (x y : vec) (k : gemv_call) (mem : Z -> R),
    gemv_shapes m x y -> gemv_implements_b k m x y = true ->
    gemv_correct_at R rzero radd rmul cj alpha beta m x y k mem.
Proof. exact gemv_criterion_sound. Qed.
Print Assumptions C13_gemv_criterion_sound.

Theorem C13_gemv_partial :
  forall (R : Type) (rzero : R) (radd rmul : R -> R -> R) (cj : R -> R)
         (alpha beta : R) (m : mat) (x y : vec) (k : gemv_call) (mem : Z -> R),
    wf_mat m -> wf_vec x -> wf_vec y -> gemv_shapes m x y -> vconj x = false -> vconj y = false ->
    gemv_gen m x y = VCall k ->
    gemv_site_cond k m = true ->
    gemv_correct_at R rzero radd rmul cj alpha beta m x y k mem.
Proof. exact gemv_partial. Qed.
Print Assumptions C13_gemv_partial.

Theorem C13_gemv_full_refuted : ~ C13_gemv_full.
Proof. exact gemv_full_refuted. Qed.
Print Assumptions C13_gemv_full_refuted.

(* dot: the dot / dotu / dotc selection (with its argument swap) computes sum_i x_i * y_i of the logical contents *)
Theorem C13_dot_selection_correct :
  forall (R : Type) (rzero : R) (radd rmul : R -> R -> R) (cj : R -> R),
    (forall x y, rmul x y = rmul y x) ->
    forall (e : etype) (x y : vec) (c : dot_call) (mem : Z -> R),
      len y = len x ->
      (is_complex_et e = false -> vconj x = false /\ vconj y = false) ->
      dot_n_model e x y = Some c ->
      (d_routine c = DViaGemv -> 0 < len x) ->
      dot_ref R rzero radd rmul cj c mem = Some (dot_math R rzero radd rmul cj x y mem).
Proof. exact dot_selection_correct. Qed.
Print Assumptions C13_dot_selection_correct.

(* without the length restriction it is false: empty real / unconjugated vectors leave the result cell unwritten *)
Theorem C13_dot_full_refuted : ~ dot_full.
Proof. exact dot_full_refuted. Qed.
Print Assumptions C13_dot_full_refuted.

(* syrk / herk: any xSYRK / xHERK call that passes the decidable criterion rk_implements_b is legal, stores
   alpha * (a.a^T | a.a^H)(i,j) + beta * c(i,j) (logical contents; `re` of it on the diagonal for herk) in every cell of the
   selected triangle of the view c, and changes no other cell -- the other triangle of c included.  All sizes and strides;
   herm = false is xSYRK, herm = true is xHERK; `re` (what xHERK keeps of a diagonal element) is an arbitrary function. *)
Theorem C13_rank_k_criterion_sound :
  forall (R : Type) (rzero : R) (radd rmul : R -> R -> R) (cj re : R -> R),
    (forall x y, rmul x y = rmul y x) -> (forall x, cj (cj x) = x) ->
    forall (herm upper : bool) (alpha beta : R) (a c : mat) (k : rk_call) (mem : Z -> R),
      rk_implements_b herm upper k a c = true ->
         rk_legal k = true
      /\ (forall i j, 0 <= i < rows c -> 0 <= j < rows c -> in_triangle upper i j = true ->
            rk_ref R rzero radd rmul cj re herm alpha beta k mem (maddr c i j) = rk_math R rzero radd rmul cj re herm alpha beta a c mem i j)
      /\ (forall p, ~ triangle_cell upper c p -> rk_ref R rzero radd rmul cj re herm alpha beta k mem p = mem p).
Proof. exact rk_criterion_sound. Qed.
Print Assumptions C13_rank_k_criterion_sound.

(* the criterion is satisfiable by the dispatch: herk of a column-major 3x2 a into the upper triangle of a column-major c
   (site 714), and of a row-major a into a row-major c through the transposed output (site 711) *)
Theorem C13_rank_k_satisfiable :
  (exists k, herk_dispatch true (mk_mat 1000000 1 3 3 2 false) (mk_mat 3000000 1 3 3 3 false) = L3Call k
             /\ rk_implements_b true true k (mk_mat 1000000 1 3 3 2 false) (mk_mat 3000000 1 3 3 3 false) = true)
  /\ (exists k, herk_dispatch false (mk_mat 1000000 2 1 3 2 false) (mk_mat 3000000 4 1 3 3 false) = L3Call k
              /\ rk_implements_b true false k (mk_mat 1000000 2 1 3 2 false) (mk_mat 3000000 4 1 3 3 false) = true).
Proof. exact rk_instances. Qed.
Print Assumptions C13_rank_k_satisfiable.

(* C13 -- BLAS adaptor gives the mathematical result for every accepted view combination.
   Only the property theorems, each closed by `exact`, with Print Assumptions.
   The full statement is FALSE of the pinned code (C13_gemm_full_refuted, C13_gemv_full_refuted and one theorem per
   defective call site in Proofs/BlasC13Refuted.v); what is proved instead is stated by the *_partial theorems, whose
   named exclusion predicates are gemm_site_cond / gemm_general_position_defect / gemv_site_cond (Model/BlasC13Crit.v). *)
From BM Require Import Base.Tactics Model.BlasC13 Model.BlasC13Gen Model.BlasC13Ref Model.BlasC13Crit Model.BlasC13Spec
  Model.BlasC13L1 Proofs.BlasC13Main Proofs.BlasC13Refuted Proofs.BlasC13Gemv Model.BlasC13L3 Model.BlasC13L3Crit Proofs.BlasC13RefProofs Proofs.BlasC13L1 Proofs.BlasC13Conj Proofs.BlasC13RankK
  Model.BlasC13L1Ref Model.BlasC13L3Spec Model.BlasC13TrsmRef Proofs.BlasC13L1Marsh Proofs.BlasC13RankKSites Proofs.BlasC13Trsm
  Model.BlasC13L3Gen Proofs.BlasC13L3GenEq.
Local Open Scope Z_scope.

(* the ladders the theorems speak about are the ones in the source text now *)
Theorem C13_dispatch_regenerated :
  gemm_nn_gen = gemm_nn /\ gemm_nj_gen = gemm_nj /\ gemm_jn_gen = gemm_jn /\ gemm_jj_gen = gemm_jj /\ gemv_gen = gemv_n
  /\ gemm_nn_asserts_gen = gemm_asserts /\ gemm_nj_asserts_gen = gemm_asserts /\ gemm_jn_asserts_gen = gemm_asserts
  /\ gemm_jj_asserts_gen = gemm_asserts /\ gemv_asserts_gen = gemv_asserts.
Proof. exact dispatch_regenerated. Qed.
Print Assumptions C13_dispatch_regenerated.

(* any xGEMM call that passes the decidable criterion is legal, computes alpha*A.B + beta*C on the logical contents of
   the views (conjugations included), and changes no cell outside the output view: all sizes, strides, flags *)
Theorem C13_gemm_criterion_sound :
  forall (R : Type) (rzero : R) (radd rmul : R -> R -> R) (cj : R -> R),
    (forall x y, rmul x y = rmul y x) ->
    forall (alpha beta : R) (a b c : mat) (k : gemm_call) (mem : Z -> R),
      shapes_conform a b c -> gemm_implements_b k a b c = true ->
      gemm_correct_at R rzero radd rmul cj alpha beta a b c k mem.
Proof. exact gemm_certified. Qed.
Print Assumptions C13_gemm_criterion_sound.

(* gemm_n as regenerated from gemm.hpp: every call site that has a named condition is right under it *)
Theorem C13_gemm_partial :
  forall (R : Type) (rzero : R) (radd rmul : R -> R -> R) (cj : R -> R),
    (forall x y, rmul x y = rmul y x) ->
    forall (alpha beta : R) (a b c : mat) (k : gemm_call) (mem : Z -> R),
      wf_mat a -> wf_mat b -> wf_mat c -> shapes_conform a b c -> mconj c = false ->
      (match mconj a, mconj b with
       | false, false => gemm_nn_gen a b c | false, true => gemm_nj_gen a b c
       | true, false => gemm_jn_gen a b c | true, true => gemm_jj_gen a b c end) = OCall k ->
      gemm_site_cond k a b c = true ->
      gemm_correct_at R rzero radd rmul cj alpha beta a b c k mem.
Proof. exact gemm_partial. Qed.
Print Assumptions C13_gemm_partial.

(* all three sizes >= 2: every site is right except 113, 201, 204, 205 and (206, 401 unless rows a = cols b) *)
Theorem C13_gemm_general_position :
  forall (R : Type) (rzero : R) (radd rmul : R -> R -> R) (cj : R -> R),
    (forall x y, rmul x y = rmul y x) ->
    forall (alpha beta : R) (a b c : mat) (k : gemm_call) (mem : Z -> R),
      wf_mat a -> wf_mat b -> wf_mat c -> shapes_conform a b c -> mconj c = false ->
      2 <= rows a -> 2 <= cols a -> 2 <= cols b ->
      (match mconj a, mconj b with
       | false, false => gemm_nn_gen a b c | false, true => gemm_nj_gen a b c
       | true, false => gemm_jn_gen a b c | true, true => gemm_jj_gen a b c end) = OCall k ->
      gemm_general_position_defect k a b = false ->
      gemm_correct_at R rzero radd rmul cj alpha beta a b c k mem.
Proof. exact gemm_general. Qed.
Print Assumptions C13_gemm_general_position.

(* conjugated output view (gemm.hpp:161: everything is conjugated and the ordinary dispatch runs on the underlying
   cells): if the call made for the conjugated operands, with conjugated scalars, passes the criterion, then the LOGICAL
   contents of c (the conjugates of its cells) become alpha*a.b + beta*c; cells outside c are unchanged *)
Theorem C13_gemm_conj_output :
  forall (R : Type) (rzero : R) (radd rmul : R -> R -> R) (cj : R -> R),
    (forall x y, rmul x y = rmul y x) ->
    (forall x, cj (cj x) = x) -> (forall x y, cj (radd x y) = radd (cj x) (cj y)) ->
    (forall x y, cj (rmul x y) = rmul (cj x) (cj y)) -> cj rzero = rzero ->
    forall (alpha beta : R) (a b c : mat) (k : gemm_call) (mem : Z -> R),
      shapes_conform a b c -> mconj c = true ->
      gemm_implements_b k (conj_mat a) (conj_mat b) (conj_mat c) = true ->
         gemm_legal k = true
      /\ (forall i j, 0 <= i < rows c -> 0 <= j < cols c ->
            cj (gemm_ref R rzero radd rmul cj (cj alpha) (cj beta) k mem (maddr c i j))
            = gemm_math R rzero radd rmul cj alpha beta a b c mem i j)
      /\ (forall p, ~ in_mat c p -> gemm_ref R rzero radd rmul cj (cj alpha) (cj beta) k mem p = mem p).
Proof. exact gemm_conj_output_sound. Qed.
Print Assumptions C13_gemm_conj_output.

Theorem C13_gemm_partial_satisfiable :
  let a := mk_mat 1000008 7 1 2 3 false in
  let b := mk_mat 2000005 1 6 3 4 false in
  let c := mk_mat 3000006 5 1 2 4 false in
  wf_mat a /\ wf_mat b /\ wf_mat c /\ shapes_conform a b c
  /\ exists k, gemm_nn_gen a b c = OCall k /\ g_site k = 115 /\ gemm_site_cond k a b c = true.
Proof. exact gemm_partial_instance. Qed.
Print Assumptions C13_gemm_partial_satisfiable.

(* the full statement is false of the pinned code *)
Theorem C13_gemm_full_refuted : ~ C13_gemm_full.
Proof. exact gemm_full_refuted. Qed.
Print Assumptions C13_gemm_full_refuted.

(* DESIGN 7 item 23 (row-major A, column-major B, column-major C computes B.A), item 22 (a_count == 1 and one column),
   item 21 (illegal lda for the transpose of an n x 1 array) *)
Theorem C13_gemm_site_113_refuted : ~ gemm_site_full 113.
Proof. exact gemm_site_113_refuted. Qed.
Print Assumptions C13_gemm_site_113_refuted.
Theorem C13_gemm_site_101_refuted : ~ gemm_site_full 101.
Proof. exact gemm_site_101_refuted. Qed.
Print Assumptions C13_gemm_site_101_refuted.
Theorem C13_gemm_site_103_refuted : ~ gemm_site_full 103.
Proof. exact gemm_site_103_refuted. Qed.
Print Assumptions C13_gemm_site_103_refuted.

(* gemv *)
Theorem C13_gemv_criterion_sound :
  forall (R : Type) (rzero : R) (radd rmul : R -> R -> R) (cj : R -> R)
         (alpha beta : R) (m : mat) (x y : vec) (k : gemv_call) (mem : Z -> R),
    gemv_shapes m x y -> gemv_implements_b k m x y = true ->
    gemv_correct_at R rzero radd rmul cj alpha beta m x y k mem.
Proof. exact gemv_criterion_sound. Qed.
Print Assumptions C13_gemv_criterion_sound.

Theorem C13_gemv_partial :
  forall (R : Type) (rzero : R) (radd rmul : R -> R -> R) (cj : R -> R)
         (alpha beta : R) (m : mat) (x y : vec) (k : gemv_call) (mem : Z -> R),
    wf_mat m -> wf_vec x -> wf_vec y -> gemv_shapes m x y -> vconj x = false -> vconj y = false ->
    gemv_gen m x y = VCall k ->
    gemv_site_cond k m = true ->
    gemv_correct_at R rzero radd rmul cj alpha beta m x y k mem.
Proof. exact gemv_partial. Qed.
Print Assumptions C13_gemv_partial.

Theorem C13_gemv_full_refuted : ~ C13_gemv_full.
Proof. exact gemv_full_refuted. Qed.
Print Assumptions C13_gemv_full_refuted.

(* dot: the dot / dotu / dotc selection (with its argument swap) computes sum_i x_i * y_i of the logical contents *)
Theorem C13_dot_selection_correct :
  forall (R : Type) (rzero : R) (radd rmul : R -> R -> R) (cj : R -> R),
    (forall x y, rmul x y = rmul y x) ->
    forall (e : etype) (x y : vec) (c : dot_call) (mem : Z -> R),
      len y = len x ->
      (is_complex_et e = false -> vconj x = false /\ vconj y = false) ->
      dot_n_model e x y = Some c ->
      (d_routine c = DViaGemv -> 0 < len x) ->
      dot_ref R rzero radd rmul cj c mem = Some (dot_math R rzero radd rmul cj x y mem).
Proof. exact dot_selection_correct. Qed.
Print Assumptions C13_dot_selection_correct.

(* without the length restriction it is false: empty real / unconjugated vectors leave the result cell unwritten *)
Theorem C13_dot_full_refuted : ~ dot_full.
Proof. exact dot_full_refuted. Qed.
Print Assumptions C13_dot_full_refuted.

(* syrk / herk: any xSYRK / xHERK call that passes the decidable criterion rk_implements_b is legal, stores
   alpha * (a.a^T | a.a^H)(i,j) + beta * c(i,j) (logical contents; `re` of it on the diagonal for herk) in every cell of the
   selected triangle of the view c, and changes no other cell -- the other triangle of c included.  All sizes and strides;
   herm = false is xSYRK, herm = true is xHERK; `re` (what xHERK keeps of a diagonal element) is an arbitrary function. *)
Theorem C13_rank_k_criterion_sound :
  forall (R : Type) (rzero : R) (radd rmul : R -> R -> R) (cj re : R -> R),
    (forall x y, rmul x y = rmul y x) -> (forall x, cj (cj x) = x) ->
    forall (herm upper : bool) (alpha beta : R) (a c : mat) (k : rk_call) (mem : Z -> R),
      rk_implements_b herm upper k a c = true ->
         rk_legal k = true
      /\ (forall i j, 0 <= i < rows c -> 0 <= j < rows c -> in_triangle upper i j = true ->
            rk_ref R rzero radd rmul cj re herm alpha beta k mem (maddr c i j) = rk_math R rzero radd rmul cj re herm alpha beta a c mem i j)
      /\ (forall p, ~ triangle_cell upper c p -> rk_ref R rzero radd rmul cj re herm alpha beta k mem p = mem p).
Proof. exact rk_criterion_sound. Qed.
Print Assumptions C13_rank_k_criterion_sound.

(* the criterion is satisfiable by the dispatch: herk of a column-major 3x2 a into the upper triangle of a column-major c
   (site 713), and of a row-major a into a row-major c through the transposed output (site 711) *)
Theorem C13_rank_k_satisfiable :
  (exists k, herk_dispatch true (mk_mat 1000000 1 3 3 2 false) (mk_mat 3000000 1 3 3 3 false) = L3Call k
             /\ rk_implements_b true true k (mk_mat 1000000 1 3 3 2 false) (mk_mat 3000000 1 3 3 3 false) = true)
  /\ (exists k, herk_dispatch false (mk_mat 1000000 2 1 3 2 false) (mk_mat 3000000 4 1 3 3 false) = L3Call k
              /\ rk_implements_b true false k (mk_mat 1000000 2 1 3 2 false) (mk_mat 3000000 4 1 3 3 false) = true).
Proof. exact rk_instances. Qed.
Print Assumptions C13_rank_k_satisfiable.

(* ------------------------------------------------------------------------------------------------------------------ *)
(* syrk / herk site by site: rk_site_cond names, per call site, when the site is right; the conditions are needed         *)
(* ------------------------------------------------------------------------------------------------------------------ *)
Theorem C13_syrk_partial :
  forall (R : Type) (rzero : R) (radd rmul : R -> R -> R) (cj re : R -> R),
    (forall x y, rmul x y = rmul y x) -> (forall x, cj (cj x) = x) ->
    forall (upper : bool) (alpha beta : R) (a c : mat) (mem : Z -> R),
      wf_mat a -> wf_mat c -> rows a = rows c -> cols c = rows c -> mconj a = false -> mconj c = false ->
      rk_site_cond (syrk_dispatch upper a c) a c = true ->
      rk_correct_at R rzero radd rmul cj re false upper alpha beta a c (syrk_dispatch upper a c) mem.
Proof. exact syrk_partial. Qed.
Print Assumptions C13_syrk_partial.

Theorem C13_herk_partial :
  forall (R : Type) (rzero : R) (radd rmul : R -> R -> R) (cj re : R -> R),
    (forall x y, rmul x y = rmul y x) -> (forall x, cj (cj x) = x) ->
    forall (upper : bool) (alpha beta : R) (a c : mat) (k : rk_call) (mem : Z -> R),
      wf_mat a -> wf_mat c -> rows a = rows c -> cols c = rows c -> mconj c = false ->
      herk_dispatch upper a c = L3Call k ->
      rk_site_cond k a c = true ->
      rk_correct_at R rzero radd rmul cj re true upper alpha beta a c k mem.
Proof. exact herk_partial. Qed.
Print Assumptions C13_herk_partial.

Theorem C13_syrk_site_601_refuted : ~ syrk_site_full 601.
Proof. exact syrk_site_601_refuted. Qed.
Print Assumptions C13_syrk_site_601_refuted.
Theorem C13_syrk_site_602_refuted : ~ syrk_site_full 602.
Proof. exact syrk_site_602_refuted. Qed.
Print Assumptions C13_syrk_site_602_refuted.
Theorem C13_herk_site_704_refuted : ~ herk_site_full 704.
Proof. exact herk_site_704_refuted. Qed.
Print Assumptions C13_herk_site_704_refuted.
Theorem C13_herk_site_711_refuted : ~ herk_site_full 711.
Proof. exact herk_site_711_refuted. Qed.
Print Assumptions C13_herk_site_711_refuted.

(* ------------------------------------------------------------------------------------------------------------------ *)
(* trsm, relative to the reference xTRSM RELATION (trsm_post: the column-major solution satisfies its triangular          *)
(* equation and nothing else changes): then the view-side contents satisfy tri(a).X = alpha.b resp. X.tri(a) = alpha.b    *)
(* ------------------------------------------------------------------------------------------------------------------ *)
Theorem C13_trsm_criterion_sound :
  forall (R : Type) (rzero rone : R) (radd rmul : R -> R -> R) (cj : R -> R),
    (forall x y, rmul x y = rmul y x) -> (forall x, cj (cj x) = x) ->
    (forall x y, cj (radd x y) = radd (cj x) (cj y)) -> (forall x y, cj (rmul x y) = rmul (cj x) (cj y)) ->
    cj rzero = rzero -> cj rone = rone ->
    forall (left lower unit : bool) (alpha : R) (a b : mat) (k : trsm_call) (mem mem' : Z -> R),
      trsm_implements_b left lower unit k a b = true ->
      trsm_post R rzero rone radd rmul cj (if t_conj_alpha k then cj alpha else alpha) k mem mem' ->
         trsm_legal k = true
      /\ trsm_math R rzero rone radd rmul cj left lower unit alpha a b mem mem'
      /\ (forall p, ~ in_mat b p -> mem' p = mem p).
Proof. exact trsm_criterion_sound. Qed.
Print Assumptions C13_trsm_criterion_sound.

(* all nine call sites of trsm.hpp:92-107 are right whenever the call they make is legal (trsm_site_cond = trsm_legal) *)
Theorem C13_trsm_partial :
  forall (R : Type) (rzero rone : R) (radd rmul : R -> R -> R) (cj : R -> R),
    (forall x y, rmul x y = rmul y x) -> (forall x, cj (cj x) = x) ->
    (forall x y, cj (radd x y) = radd (cj x) (cj y)) -> (forall x y, cj (rmul x y) = rmul (cj x) (cj y)) ->
    cj rzero = rzero -> cj rone = rone ->
    forall (left lower unit : bool) (alpha : R) (a b : mat) (k : trsm_call) (mem mem' : Z -> R),
      wf_mat a -> wf_mat b ->
      rows a = (if left then rows b else cols b) -> cols a = rows a ->
      trsm_dispatch left lower unit a b = L3Call k ->
      trsm_site_cond k = true ->
      trsm_post R rzero rone radd rmul cj (if t_conj_alpha k then cj alpha else alpha) k mem mem' ->
         trsm_math R rzero rone radd rmul cj left lower unit alpha a b mem mem'
      /\ (forall p, ~ in_mat b p -> mem' p = mem p).
Proof. exact trsm_partial. Qed.
Print Assumptions C13_trsm_partial.

Theorem C13_trsm_always_legal_refuted : ~ trsm_always_legal.
Proof. exact trsm_always_legal_refuted. Qed.
Print Assumptions C13_trsm_always_legal_refuted.

(* ------------------------------------------------------------------------------------------------------------------ *)
(* level 1: marshalling theorems (any length incl. 0 and 1, any positive increments, any base)                            *)
(* ------------------------------------------------------------------------------------------------------------------ *)
Theorem C13_axpy_marshalling :
  forall (R : Type) (radd rmul : R -> R -> R) (alpha : R) (x y : vec) (mem : Z -> R),
    wf_vec x -> wf_vec y -> len x = len y ->
       (forall l, 0 <= l < len y ->
          axpy_ref R radd rmul alpha (axpy_call x y) mem (vaddr y l) = radd (rmul alpha (xval R x mem l)) (xval R y mem l))
    /\ (forall p, ~ in_vec y p -> axpy_ref R radd rmul alpha (axpy_call x y) mem p = mem p).
Proof. exact axpy_marshalling. Qed.
Print Assumptions C13_axpy_marshalling.

Theorem C13_axpy_operator_marshalling :
  forall (R : Type) (radd rmul : R -> R -> R) (rneg : R -> R) (minus : bool) (alpha : R) (x y : vec) (mem : Z -> R),
    wf_vec x -> wf_vec y -> len x = len y ->
       (forall l, 0 <= l < len y ->
          axpy_ref R radd rmul (axpy_op_scalar R rneg minus alpha) (axpy_call x y) mem (vaddr y l)
          = radd (rmul (if minus then rneg alpha else alpha) (xval R x mem l)) (xval R y mem l))
    /\ (forall p, ~ in_vec y p -> axpy_ref R radd rmul (axpy_op_scalar R rneg minus alpha) (axpy_call x y) mem p = mem p).
Proof. exact axpy_operator_marshalling. Qed.
Print Assumptions C13_axpy_operator_marshalling.

Theorem C13_scal_marshalling :
  forall (R : Type) (rmul : R -> R -> R) (alpha : R) (x : vec) (mem : Z -> R),
    wf_vec x ->
       (forall l, 0 <= l < len x -> scal_ref R rmul alpha (scal_call x) mem (vaddr x l) = rmul alpha (xval R x mem l))
    /\ (forall p, ~ in_vec x p -> scal_ref R rmul alpha (scal_call x) mem p = mem p).
Proof. exact scal_marshalling. Qed.
Print Assumptions C13_scal_marshalling.

Theorem C13_copy_marshalling :
  forall (R : Type) (x y : vec) (mem : Z -> R),
    wf_vec x -> wf_vec y -> len x = len y ->
       (forall l, 0 <= l < len y -> copy_ref R (copy_call x y) mem (vaddr y l) = xval R x mem l)
    /\ (forall p, ~ in_vec y p -> copy_ref R (copy_call x y) mem p = mem p).
Proof. exact copy_marshalling. Qed.
Print Assumptions C13_copy_marshalling.

Theorem C13_swap_marshalling :
  forall (R : Type) (x y : vec) (mem : Z -> R),
    wf_vec x -> wf_vec y -> len x = len y -> vec_disjoint x y ->
       (forall l, 0 <= l < len x -> swap_ref R (swap_call x y) mem (vaddr x l) = xval R y mem l)
    /\ (forall l, 0 <= l < len y -> swap_ref R (swap_call x y) mem (vaddr y l) = xval R x mem l)
    /\ (forall p, ~ in_vec x p -> ~ in_vec y p -> swap_ref R (swap_call x y) mem p = mem p).
Proof. exact swap_marshalling. Qed.
Print Assumptions C13_swap_marshalling.

Theorem C13_asum_marshalling :
  forall (R Sc : Type) (szero : Sc) (sadd : Sc -> Sc -> Sc) (abs1 : R -> Sc) (x : vec) (mem : Z -> R),
    wf_vec x -> asum_ref R Sc szero sadd abs1 (red_call x) mem = asum_math R Sc szero sadd abs1 x mem.
Proof. exact asum_marshalling. Qed.
Print Assumptions C13_asum_marshalling.

Theorem C13_nrm2_marshalling :
  forall (R Sc : Type) (szero : Sc) (sadd : Sc -> Sc -> Sc) (sq : R -> Sc) (root : Sc -> Sc) (x : vec) (mem : Z -> R),
    wf_vec x -> root szero = szero ->
    nrm2_ref R Sc szero sadd sq root (red_call x) mem = nrm2_math R Sc szero sadd sq root x mem.
Proof. exact nrm2_marshalling. Qed.
Print Assumptions C13_nrm2_marshalling.

(* blas::iamax returns the 0-based index of the first element of largest |re|+|im| (BLAS is 1-based: core.hpp:397 subtracts 1) *)
Theorem C13_iamax_marshalling :
  forall (R Sc : Type) (abs1 : R -> Sc) (sltb : Sc -> Sc -> bool),
    (forall a b, sltb a b = true -> sltb b a = false) ->
    (forall a b c, sltb a b = false -> sltb b c = false -> sltb a c = false) ->
    (forall a b c, sltb b a = false -> sltb b c = true -> sltb a c = true) ->
    forall (x : vec) (mem : Z -> R),
      wf_vec x -> 0 < len x ->
      is_first_amax R Sc abs1 sltb x mem (iamax_model R Sc abs1 sltb x mem).
Proof. exact iamax_marshalling. Qed.
Print Assumptions C13_iamax_marshalling.

Theorem C13_iamax_empty :
  forall (R Sc : Type) (abs1 : R -> Sc) (sltb : Sc -> Sc -> bool) (x : vec) (mem : Z -> R),
    len x = 0 -> iamax_model R Sc abs1 sltb x mem = -1.
Proof. exact iamax_empty. Qed.
Print Assumptions C13_iamax_empty.

(* the syrk / herk / trsm ladders regenerated from syrk.hpp / herk.hpp / trsm.hpp on this run compute what the hand
   transcription (the subject of C13_syrk_partial, C13_herk_partial, C13_trsm_partial) computes *)
Theorem C13_level3_dispatch_regenerated :
     (forall upper a c, syrk_dispatch_gen upper a c = L3Call (syrk_dispatch upper a c))
  /\ (forall upper a c, herk_dispatch_gen upper a c = herk_dispatch upper a c)
  /\ (forall left lower unit a b, trsm_dispatch_gen left lower unit a b = trsm_dispatch left lower unit a b).
Proof. exact level3_dispatch_regenerated. Qed.
Print Assumptions C13_level3_dispatch_regenerated.

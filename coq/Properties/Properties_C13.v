(* C13 -- BLAS adaptor gives the mathematical result for every accepted view combination.
   Only the property theorems, each closed by `exact`, with Print Assumptions.
   The full statement is FALSE of the pinned code (C13_gemm_full_refuted, C13_gemv_full_refuted and one theorem per
   defective call site in Proofs/BlasC13Refuted.v); what is proved instead is stated by the *_partial theorems, whose
   named exclusion predicates are gemm_site_cond / gemm_general_position_defect / gemv_site_cond (Model/BlasC13Crit.v). *)
From BM Require Import Base.Tactics Model.BlasC13 Model.BlasC13Gen Model.BlasC13Ref Model.BlasC13Crit Model.BlasC13Spec
  Model.BlasC13L1 Proofs.BlasC13Main Proofs.BlasC13Refuted Proofs.BlasC13Gemv Model.BlasC13L3 Model.BlasC13L3Crit Proofs.BlasC13RefProofs Proofs.BlasC13L1 Proofs.BlasC13Conj Proofs.BlasC13RankK
  Model.BlasC13L1Ref Model.BlasC13L3Spec Model.BlasC13TrsmRef Proofs.BlasC13L1Marsh Proofs.BlasC13RankKSites Proofs.BlasC13Trsm
  Model.BlasC13L3Gen Proofs.BlasC13L3GenEq Model.BlasC13Expr Proofs.BlasC13Expr.
Local Open Scope Z_scope.

(* the ladders the theorems speak about are the ones in the source text now *)
Theorem C13_dispatch_regenerated :
  gemm_nn_gen = gemm_nn /\ gemm_nj_gen = gemm_nj /\ gemm_jn_gen = gemm_jn /\ gemm_jj_gen = gemm_jj /\ gemv_gen = gemv_n
  /\ gemm_nn_asserts_gen = gemm_asserts /\ gemm_nj_asserts_gen = gemm_asserts /\ gemm_jn_asserts_gen = gemm_asserts
  /\ gemm_jj_asserts_gen = gemm_asserts /\ gemv_asserts_gen = gemv_asserts.
Proof. exact dispatch_regenerated. Qed.
Print Assumptions C13_dispatch_regenerated.

(* any xGEMM call that passes the decidable criterion is legal, computes alpha*A.B + beta*C on the logical contents of
   the views (conjugations included), and changes no cell outside the output view: all sizes, strides, flags *)
Theorem C13_gemm_criterion_sound :
  forall (R : Type) (rzero : R) (radd rmul : R -> R -> R) (cj : R -> R),
    (forall x y, rmul x y = rmul y x) ->
    forall (alpha beta : R) (a b c : mat) (k : gemm_call) (mem : Z -> R),
      shapes_conform a b c -> gemm_implements_b k a b c = true ->
      gemm_correct_at R rzero radd rmul cj alpha beta a b c k mem.
Proof. exact gemm_certified. Qed.
Print Assumptions C13_gemm_criterion_sound.

(* gemm_n as regenerated from gemm.hpp: every call site that has a named condition is right under it *)
Theorem C13_gemm_partial :
  forall (R : Type) (rzero : R) (radd rmul : R -> R -> R) (cj : R -> R),
    (forall x y, rmul x y = rmul y x) ->
    forall (alpha beta : R) (a b c : mat) (k : gemm_call) (mem : Z -> R),
      wf_mat a -> wf_mat b -> wf_mat c -> shapes_conform a b c -> mconj c = false ->
      (match mconj a, mconj b with
       | false, false => gemm_nn_gen a b c | false, true => gemm_nj_gen a b c
       | true, false => gemm_jn_gen a b c | true, true => gemm_jj_gen a b c end) = OCall k ->
      gemm_site_cond k a b c = true ->
      gemm_correct_at R rzero radd rmul cj alpha beta a b c k mem.
Proof. exact gemm_partial. Qed.
Print Assumptions C13_gemm_partial.

(* all three sizes >= 2: every site is right except 113, 201, 204, 205 and (206, 401 unless rows a = cols b) *)
Theorem C13_gemm_general_position :
  forall (R : Type) (rzero : R) (radd rmul : R -> R -> R) (cj : R -> R),
    (forall x y, rmul x y = rmul y x) ->
    forall (alpha beta : R) (a b c : mat) (k : gemm_call) (mem : Z -> R),
      wf_mat a -> wf_mat b -> wf_mat c -> shapes_conform a b c -> mconj c = false ->
      2 <= rows a -> 2 <= cols a -> 2 <= cols b ->
      (match mconj a, mconj b with
       | false, false => gemm_nn_gen a b c | false, true => gemm_nj_gen a b c
       | true, false => gemm_jn_gen a b c | true, true => gemm_jj_gen a b c end) = OCall k ->
      gemm_general_position_defect k a b = false ->
      gemm_correct_at R rzero radd rmul cj alpha beta a b c k mem.
Proof. exact gemm_general. Qed.
Print Assumptions C13_gemm_general_position.

(* conjugated output view (gemm.hpp:161: everything is conjugated and the ordinary dispatch runs on the underlying
   cells): if the call made for the conjugated operands, with conjugated scalars, passes the criterion, then the LOGICAL
   contents of c (the conjugates of its cells) become alpha*a.b + beta*c; cells outside c are unchanged *)
Theorem C13_gemm_conj_output :
  forall (R : Type) (rzero : R) (radd rmul : R -> R -> R) (cj : R -> R),
    (forall x y, rmul x y = rmul y x) ->
    (forall x, cj (cj x) = x) -> (forall x y, cj (radd x y) = radd (cj x) (cj y)) ->
    (forall x y, cj (rmul x y) = rmul (cj x) (cj y)) -> cj rzero = rzero ->
    forall (alpha beta : R) (a b c : mat) (k : gemm_call) (mem : Z -> R),
      shapes_conform a b c -> mconj c = true ->
      gemm_implements_b k (conj_mat a) (conj_mat b) (conj_mat c) = true ->
         gemm_legal k = true
      /\ (forall i j, 0 <= i < rows c -> 0 <= j < cols c ->
            cj (gemm_ref R rzero radd rmul cj (cj alpha) (cj beta) k mem (maddr c i j))
            = gemm_math R rzero radd rmul cj alpha beta a b c mem i j)
      /\ (forall p, ~ in_mat c p -> gemm_ref R rzero radd rmul cj (cj alpha) (cj beta) k mem p = mem p).
Proof. exact gemm_conj_output_sound. Qed.
Print Assumptions C13_gemm_conj_output.

Theorem C13_gemm_partial_satisfiable :
  let a := mk_mat 1000008 7 1 2 3 false in
  let b := mk_mat 2000005 1 6 3 4 false in
  let c := mk_mat 3000006 5 1 2 4 false in
  wf_mat a /\ wf_mat b /\ wf_mat c /\ shapes_conform a b c
  /\ exists k, gemm_nn_gen a b c = OCall k /\ g_site k = 115 /\ gemm_site_cond k a b c = true.
Proof. exact gemm_partial_instance. Qed.
Print Assumptions C13_gemm_partial_satisfiable.

(* the full statement is false of the pinned code *)
Theorem C13_gemm_full_refuted : ~ C13_gemm_full.
Proof. exact gemm_full_refuted. Qed.
Print Assumptions C13_gemm_full_refuted.

(* DESIGN 7 item 23 (row-major A, column-major B, column-major C computes B.A), item 22 (a_count == 1 and one column),
   item 21 (illegal lda for the transpose of an n x 1 array) *)
Theorem C13_gemm_site_113_refuted : ~ gemm_site_full 113.
Proof. exact gemm_site_113_refuted. Qed.
Print Assumptions C13_gemm_site_113_refuted.
Theorem C13_gemm_site_101_refuted : ~ gemm_site_full 101.
Proof. exact gemm_site_101_refuted. Qed.
Print Assumptions C13_gemm_site_101_refuted.
Theorem C13_gemm_site_103_refuted : ~ gemm_site_full 103.
Proof. exact gemm_site_103_refuted. Qed.
Print Assumptions C13_gemm_site_103_refuted.

(* gemv *)
Theorem C13_gemv_criterion_sound :
  forall (R : Type) (rzero : R) (radd rmul : R -> R -> R) (cj : R -> R)
         (alpha beta : R) (m : mat) (x y : vec) (k : gemv_call) (mem : Z -> R),
    gemv_shapes m x y -> gemv_implements_b k m x y = true ->
    gemv_correct_at R rzero radd rmul cj alpha beta m x y k mem.
Proof. exact gemv_criterion_sound. Qed.
Print Assumptions C13_gemv_criterion_sound.

Theorem C13_gemv_partial :
  forall (R : Type) (rzero : R) (radd rmul : R -> R -> R) (cj : R -> R)
         (alpha beta : R) (m : mat) (x y : vec) (k : gemv_call) (mem : Z -> R),
    wf_mat m -> wf_vec x -> wf_vec y -> gemv_shapes m x y -> vconj x = false -> vconj y = false ->
    gemv_gen m x y = VCall k ->
    gemv_site_cond k m = true ->
    gemv_correct_at R rzero radd rmul cj alpha beta m x y k mem.
Proof. exact gemv_partial. Qed.
Print Assumptions C13_gemv_partial.

Theorem C13_gemv_full_refuted : ~ C13_gemv_full.
Proof. exact gemv_full_refuted. Qed.
Print Assumptions C13_gemv_full_refuted.

(* dot: the dot / dotu / dotc selection (with its argument swap) computes sum_i x_i * y_i of the logical contents *)
Theorem C13_dot_selection_correct :
  forall (R : Type) (rzero : R) (radd rmul : R -> R -> R) (cj : R -> R),
    (forall x y, rmul x y = rmul y x) ->
    forall (e : etype) (x y : vec) (c : dot_call) (mem : Z -> R),
      len y = len x ->
      (is_complex_et e = false -> vconj x = false /\ vconj y = false) ->
      dot_n_model e x y = Some c ->
      (d_routine c = DViaGemv -> 0 < len x) ->
      dot_ref R rzero radd rmul cj c mem = Some (dot_math R rzero radd rmul cj x y mem).
Proof. exact dot_selection_correct. Qed.
Print Assumptions C13_dot_selection_correct.

(* without the length restriction it is false: empty real / unconjugated vectors leave the result cell unwritten *)
Theorem C13_dot_full_refuted : ~ dot_full.
Proof. exact dot_full_refuted. Qed.
Print Assumptions C13_dot_full_refuted.

(* syrk / herk: any xSYRK / xHERK call that passes the decidable criterion rk_implements_b is legal, stores
   alpha * (a.a^T | a.a^H)(i,j) + beta * c(i,j) (logical contents; `re` of it on the diagonal for herk) in every cell of the
   selected triangle of the view c, and changes no other cell -- the other triangle of c included.  All sizes and strides;
   herm = false is xSYRK, herm = true is xHERK; `re` (what xHERK keeps of a diagonal element) is an arbitrary function. *)
Theorem C13_rank_k_criterion_sound :
  forall (R : Type) (rzero : R) (radd rmul : R -> R -> R) (cj re : R -> R),
    (forall x y, rmul x y = rmul y x) -> (forall x, cj (cj x) = x) ->
    forall (herm upper : bool) (alpha beta : R) (a c : mat) (k : rk_call) (mem : Z -> R),
      rk_implements_b herm upper k a c = true ->
         rk_legal k = true
      /\ (forall i j, 0 <= i < rows c -> 0 <= j < rows c -> in_triangle upper i j = true ->
            rk_ref R rzero radd rmul cj re herm alpha beta k mem (maddr c i j) = rk_math R rzero radd rmul cj re herm alpha beta a c mem i j)
      /\ (forall p, ~ triangle_cell upper c p -> rk_ref R rzero radd rmul cj re herm alpha beta k mem p = mem p).
Proof. exact rk_criterion_sound. Qed.
Print Assumptions C13_rank_k_criterion_sound.

(* the criterion is satisfiable by the dispatch: herk of a column-major 3x2 a into the upper triangle of a column-major c
   (site 713), and of a row-major a into a row-major c through the transposed output (site 711) *)
Theorem C13_rank_k_satisfiable :
  (exists k, herk_dispatch true (mk_mat 1000000 1 3 3 2 false) (mk_mat 3000000 1 3 3 3 false) = L3Call k
             /\ rk_implements_b true true k (mk_mat 1000000 1 3 3 2 false) (mk_mat 3000000 1 3 3 3 false) = true)
  /\ (exists k, herk_dispatch false (mk_mat 1000000 2 1 3 2 false) (mk_mat 3000000 4 1 3 3 false) = L3Call k
              /\ rk_implements_b true false k (mk_mat 1000000 2 1 3 2 false) (mk_mat 3000000 4 1 3 3 false) = true).
Proof. exact rk_instances. Qed.
Print Assumptions C13_rank_k_satisfiable.

(* ------------------------------------------------------------------------------------------------------------------ *)
(* syrk / herk site by site: rk_site_cond names, per call site, when the site is right; the conditions are needed         *)
(* ------------------------------------------------------------------------------------------------------------------ *)
Theorem C13_syrk_partial :
  forall (R : Type) (rzero : R) (radd rmul : R -> R -> R) (cj re : R -> R),
    (forall x y, rmul x y = rmul y x) -> (forall x, cj (cj x) = x) ->
    forall (upper : bool) (alpha beta : R) (a c : mat) (mem : Z -> R),
      wf_mat a -> wf_mat c -> rows a = rows c -> cols c = rows c -> mconj a = false -> mconj c = false ->
      rk_site_cond (syrk_dispatch upper a c) a c = true ->
      rk_correct_at R rzero radd rmul cj re false upper alpha beta a c (syrk_dispatch upper a c) mem.
Proof. exact syrk_partial. Qed.
Print Assumptions C13_syrk_partial.

Theorem C13_herk_partial :
  forall (R : Type) (rzero : R) (radd rmul : R -> R -> R) (cj re : R -> R),
    (forall x y, rmul x y = rmul y x) -> (forall x, cj (cj x) = x) ->
    forall (upper : bool) (alpha beta : R) (a c : mat) (k : rk_call) (mem : Z -> R),
      wf_mat a -> wf_mat c -> rows a = rows c -> cols c = rows c -> mconj c = false ->
      herk_dispatch upper a c = L3Call k ->
      rk_site_cond k a c = true ->
      rk_correct_at R rzero radd rmul cj re true upper alpha beta a c k mem.
Proof. exact herk_partial. Qed.
Print Assumptions C13_herk_partial.

Theorem C13_syrk_site_601_refuted : ~ syrk_site_full 601.
Proof. exact syrk_site_601_refuted. Qed.
Print Assumptions C13_syrk_site_601_refuted.
Theorem C13_syrk_site_602_refuted : ~ syrk_site_full 602.
Proof. exact syrk_site_602_refuted. Qed.
Print Assumptions C13_syrk_site_602_refuted.
Theorem C13_herk_site_704_refuted : ~ herk_site_full 704.
Proof. exact herk_site_704_refuted. Qed.
Print Assumptions C13_herk_site_704_refuted.
Theorem C13_herk_site_711_refuted : ~ herk_site_full 711.
Proof. exact herk_site_711_refuted. Qed.
Print Assumptions C13_herk_site_711_refuted.

(* ------------------------------------------------------------------------------------------------------------------ *)
(* trsm, relative to the reference xTRSM RELATION (trsm_post: the column-major solution satisfies its triangular          *)
(* equation and nothing else changes): then the view-side contents satisfy tri(a).X = alpha.b resp. X.tri(a) = alpha.b    *)
(* ------------------------------------------------------------------------------------------------------------------ *)
Theorem C13_trsm_criterion_sound :
  forall (R : Type) (rzero rone : R) (radd rmul : R -> R -> R) (cj : R -> R),
    (forall x y, rmul x y = rmul y x) -> (forall x, cj (cj x) = x) ->
    (forall x y, cj (radd x y) = radd (cj x) (cj y)) -> (forall x y, cj (rmul x y) = rmul (cj x) (cj y)) ->
    cj rzero = rzero -> cj rone = rone ->
    forall (left lower unit : bool) (alpha : R) (a b : mat) (k : trsm_call) (mem mem' : Z -> R),
      trsm_implements_b left lower unit k a b = true ->
      trsm_post R rzero rone radd rmul cj (if t_conj_alpha k then cj alpha else alpha) k mem mem' ->
         trsm_legal k = true
      /\ trsm_math R rzero rone radd rmul cj left lower unit alpha a b mem mem'
      /\ (forall p, ~ in_mat b p -> mem' p = mem p).
Proof. exact trsm_criterion_sound. Qed.
Print Assumptions C13_trsm_criterion_sound.

(* all nine call sites of trsm.hpp:92-107 are right whenever the call they make is legal (trsm_site_cond = trsm_legal) *)
Theorem C13_trsm_partial :
  forall (R : Type) (rzero rone : R) (radd rmul : R -> R -> R) (cj : R -> R),
    (forall x y, rmul x y = rmul y x) -> (forall x, cj (cj x) = x) ->
    (forall x y, cj (radd x y) = radd (cj x) (cj y)) -> (forall x y, cj (rmul x y) = rmul (cj x) (cj y)) ->
    cj rzero = rzero -> cj rone = rone ->
    forall (left lower unit : bool) (alpha : R) (a b : mat) (k : trsm_call) (mem mem' : Z -> R),
      wf_mat a -> wf_mat b ->
      rows a = (if left then rows b else cols b) -> cols a = rows a ->
      trsm_dispatch left lower unit a b = L3Call k ->
      trsm_site_cond k = true ->
      trsm_post R rzero rone radd rmul cj (if t_conj_alpha k then cj alpha else alpha) k mem mem' ->
         trsm_math R rzero rone radd rmul cj left lower unit alpha a b mem mem'
      /\ (forall p, ~ in_mat b p -> mem' p = mem p).
Proof. exact trsm_partial. Qed.
Print Assumptions C13_trsm_partial.

Theorem C13_trsm_always_legal_refuted : ~ trsm_always_legal.
Proof. exact trsm_always_legal_refuted. Qed.
Print Assumptions C13_trsm_always_legal_refuted.

(* ------------------------------------------------------------------------------------------------------------------ *)
(* level 1: marshalling theorems (any length incl. 0 and 1, any positive increments, any base)                            *)
(* ------------------------------------------------------------------------------------------------------------------ *)
Theorem C13_axpy_marshalling :
  forall (R : Type) (radd rmul : R -> R -> R) (alpha : R) (x y : vec) (mem : Z -> R),
    wf_vec x -> wf_vec y -> len x = len y ->
       (forall l, 0 <= l < len y ->
          axpy_ref R radd rmul alpha (axpy_call x y) mem (vaddr y l) = radd (rmul alpha (xval R x mem l)) (xval R y mem l))
    /\ (forall p, ~ in_vec y p -> axpy_ref R radd rmul alpha (axpy_call x y) mem p = mem p).
Proof. exact axpy_marshalling. Qed.
Print Assumptions C13_axpy_marshalling.

Theorem C13_axpy_operator_marshalling :
  forall (R : Type) (radd rmul : R -> R -> R) (rneg : R -> R) (minus : bool) (alpha : R) (x y : vec) (mem : Z -> R),
    wf_vec x -> wf_vec y -> len x = len y ->
       (forall l, 0 <= l < len y ->
          axpy_ref R radd rmul (axpy_op_scalar R rneg minus alpha) (axpy_call x y) mem (vaddr y l)
          = radd (rmul (if minus then rneg alpha else alpha) (xval R x mem l)) (xval R y mem l))
    /\ (forall p, ~ in_vec y p -> axpy_ref R radd rmul (axpy_op_scalar R rneg minus alpha) (axpy_call x y) mem p = mem p).
Proof. exact axpy_operator_marshalling. Qed.
Print Assumptions C13_axpy_operator_marshalling.

Theorem C13_scal_marshalling :
  forall (R : Type) (rmul : R -> R -> R) (alpha : R) (x : vec) (mem : Z -> R),
    wf_vec x ->
       (forall l, 0 <= l < len x -> scal_ref R rmul alpha (scal_call x) mem (vaddr x l) = rmul alpha (xval R x mem l))
    /\ (forall p, ~ in_vec x p -> scal_ref R rmul alpha (scal_call x) mem p = mem p).
Proof. exact scal_marshalling. Qed.
Print Assumptions C13_scal_marshalling.

Theorem C13_copy_marshalling :
  forall (R : Type) (x y : vec) (mem : Z -> R),
    wf_vec x -> wf_vec y -> len x = len y ->
       (forall l, 0 <= l < len y -> copy_ref R (copy_call x y) mem (vaddr y l) = xval R x mem l)
    /\ (forall p, ~ in_vec y p -> copy_ref R (copy_call x y) mem p = mem p).
Proof. exact copy_marshalling. Qed.
Print Assumptions C13_copy_marshalling.

Theorem C13_swap_marshalling :
  forall (R : Type) (x y : vec) (mem : Z -> R),
    wf_vec x -> wf_vec y -> len x = len y -> vec_disjoint x y ->
       (forall l, 0 <= l < len x -> swap_ref R (swap_call x y) mem (vaddr x l) = xval R y mem l)
    /\ (forall l, 0 <= l < len y -> swap_ref R (swap_call x y) mem (vaddr y l) = xval R x mem l)
    /\ (forall p, ~ in_vec x p -> ~ in_vec y p -> swap_ref R (swap_call x y) mem p = mem p).
Proof. exact swap_marshalling. Qed.
Print Assumptions C13_swap_marshalling.

Theorem C13_asum_marshalling :
  forall (R Sc : Type) (szero : Sc) (sadd : Sc -> Sc -> Sc) (abs1 : R -> Sc) (x : vec) (mem : Z -> R),
    wf_vec x -> asum_ref R Sc szero sadd abs1 (red_call x) mem = asum_math R Sc szero sadd abs1 x mem.
Proof. exact asum_marshalling. Qed.
Print Assumptions C13_asum_marshalling.

Theorem C13_nrm2_marshalling :
  forall (R Sc : Type) (szero : Sc) (sadd : Sc -> Sc -> Sc) (sq : R -> Sc) (root : Sc -> Sc) (x : vec) (mem : Z -> R),
    wf_vec x -> root szero = szero ->
    nrm2_ref R Sc szero sadd sq root (red_call x) mem = nrm2_math R Sc szero sadd sq root x mem.
Proof. exact nrm2_marshalling. Qed.
Print Assumptions C13_nrm2_marshalling.

(* blas::iamax returns the 0-based index of the first element of largest |re|+|im| (BLAS is 1-based: core.hpp:397 subtracts 1) *)
Theorem C13_iamax_marshalling :
  forall (R Sc : Type) (abs1 : R -> Sc) (sltb : Sc -> Sc -> bool),
    (forall a b, sltb a b = true -> sltb b a = false) ->
    (forall a b c, sltb a b = false -> sltb b c = false -> sltb a c = false) ->
    (forall a b c, sltb b a = false -> sltb b c = true -> sltb a c = true) ->
    forall (x : vec) (mem : Z -> R),
      wf_vec x -> 0 < len x ->
      is_first_amax R Sc abs1 sltb x mem (iamax_model R Sc abs1 sltb x mem).
Proof. exact iamax_marshalling. Qed.
Print Assumptions C13_iamax_marshalling.

Theorem C13_iamax_empty :
  forall (R Sc : Type) (abs1 : R -> Sc) (sltb : Sc -> Sc -> bool) (x : vec) (mem : Z -> R),
    len x = 0 -> iamax_model R Sc abs1 sltb x mem = -1.
Proof. exact iamax_empty. Qed.
Print Assumptions C13_iamax_empty.

(* the syrk / herk / trsm ladders regenerated from syrk.hpp / herk.hpp / trsm.hpp on this run compute what the hand
   transcription (the subject of C13_syrk_partial, C13_herk_partial, C13_trsm_partial) computes *)
Theorem C13_level3_dispatch_regenerated :
     (forall upper a c, syrk_dispatch_gen upper a c = L3Call (syrk_dispatch upper a c))
  /\ (forall upper a c, herk_dispatch_gen upper a c = herk_dispatch upper a c)
  /\ (forall left lower unit a b, trsm_dispatch_gen left lower unit a b = trsm_dispatch left lower unit a b).
Proof. exact level3_dispatch_regenerated. Qed.
Print Assumptions C13_level3_dispatch_regenerated.

(* ------------------------------------------------------------------------------------------------------------------ *)
(* FOLLOW-UP 3: the expression layer (Model/BlasC13Expr.v): lazy ranges, the operators on them, decorated operands,   *)
(* consuming statements.  Carrier laws used: commutative, associative multiplication with unit, rzero absorbing on    *)
(* the left and neutral for + on the right, commutative +, (-x)*y = -(x*y), conjugation involutive -- and, when the    *)
(* element type is real (cplx = false), trivial (numeric.hpp:291-295: conj() of a real array is the array itself).     *)
(* ------------------------------------------------------------------------------------------------------------------ *)

(* decorations compose: the logical contents of a view decorated by ANY sequence of blas::N / T / J / H (and ~, unary *
   of blas::operators) are the conjugate (iff an odd number of J, H) of the transposed (iff an odd number of T, H)
   contents of the undecorated view; shape, well-formedness and the set of cells follow the same parities *)
Theorem C13_decorations_compose :
  forall (R : Type) (cj : R -> R) (cplx : bool),
    (forall x, cj (cj x) = x) -> (cplx = false -> forall x, cj x = x) ->
    forall (o : operand) (mem : Z -> R) (i j : Z),
      let a := op_view o in let ds := op_decos o in
         mval R cj (resolve cplx o) mem i j = operand_den R cj o mem i j
      /\ operand_den R cj o mem i j = cjif R cj (decos_cj ds) (if decos_tr ds then mval R cj a mem j i else mval R cj a mem i j)
      /\ rows (resolve cplx o) = (if decos_tr ds then cols a else rows a)
      /\ cols (resolve cplx o) = (if decos_tr ds then rows a else cols a)
      /\ (wf_mat a -> wf_mat (resolve cplx o))
      /\ (forall p, in_mat (resolve cplx o) p <-> in_mat a p).
Proof. exact decorations_compose. Qed.
Print Assumptions C13_decorations_compose.

(* c = e, c += e, multi::array r = e, +e, arr = e, arr += e  with  e ::= blas::gemm(s, a, b) | a * b | f * e  and decorated
   a, b, c: if the statement reaches xGEMM with a call that passes the criterion, then -- with the scalars the expression
   layer hands over: the PRODUCT of all factors and s as alpha, 0 for = and 1 for += as beta -- the reference routine
   leaves in every element of the output the value of the expression (added to the old element for +=), and changes
   no cell outside the output view.  All trees, sizes, strides, bases, scalars. *)
Theorem C13_gemm_expr_sound :
  forall (R : Type) (rzero rone : R) (radd rmul : R -> R -> R) (cj : R -> R) (cplx : bool),
    (forall x y, rmul x y = rmul y x) -> (forall x y z, rmul (rmul x y) z = rmul x (rmul y z)) -> (forall x, rmul rone x = x) ->
    (forall x, rmul rzero x = rzero) -> (forall x, radd x rzero = x) -> (forall x y, radd x y = radd y x) ->
    (forall x, cj (cj x) = x) -> (cplx = false -> forall x, cj x = x) ->
    forall (debug : bool) (st : gstmt R) (alpha beta : R) (a b c : mat) (k : gemm_call) (mem : Z -> R),
      gcompile R rzero rone rmul cplx debug st = GpCall R alpha beta a b c (FBlas false k) ->
      shapes_conform a b c ->
      gemm_implements_b k a b c = true ->
         gemm_legal k = true
      /\ (forall i j, 0 <= i < rows c -> 0 <= j < cols c ->
            gemm_ref R rzero radd rmul cj alpha beta k mem (maddr c i j)
            = gstmt_den R rzero radd rmul cj cplx (gs_consume R st) (gs_expr R st) c mem i j)
      /\ (forall p, ~ in_mat c p -> gemm_ref R rzero radd rmul cj alpha beta k mem p = mem p).
Proof. exact gemm_expr_sound. Qed.
Print Assumptions C13_gemm_expr_sound.

(* the same at every call site of gemm_n that has a named condition (C13_gemm_partial), for well-formed operands *)
Theorem C13_gemm_expr_partial :
  forall (R : Type) (rzero rone : R) (radd rmul : R -> R -> R) (cj : R -> R) (cplx : bool),
    (forall x y, rmul x y = rmul y x) -> (forall x y z, rmul (rmul x y) z = rmul x (rmul y z)) -> (forall x, rmul rone x = x) ->
    (forall x, rmul rzero x = rzero) -> (forall x, radd x rzero = x) -> (forall x y, radd x y = radd y x) ->
    (forall x, cj (cj x) = x) -> (cplx = false -> forall x, cj x = x) ->
    forall (debug : bool) (st : gstmt R) (alpha beta : R) (a b c : mat) (k : gemm_call) (mem : Z -> R),
      gcompile R rzero rone rmul cplx debug st = GpCall R alpha beta a b c (FBlas false k) ->
      wf_mat a -> wf_mat b -> wf_mat c -> shapes_conform a b c -> mconj c = false ->
      gemm_site_cond k a b c = true ->
         gemm_legal k = true
      /\ (forall i j, 0 <= i < rows c -> 0 <= j < cols c ->
            gemm_ref R rzero radd rmul cj alpha beta k mem (maddr c i j)
            = gstmt_den R rzero radd rmul cj cplx (gs_consume R st) (gs_expr R st) c mem i j)
      /\ (forall p, ~ in_mat c p -> gemm_ref R rzero radd rmul cj alpha beta k mem p = mem p).
Proof. exact gemm_expr_partial. Qed.
Print Assumptions C13_gemm_expr_partial.

(* f * range keeps the operands and multiplies the stored scalar (gemm.hpp:300-302) *)
Theorem C13_gemm_scales_multiply :
  forall (R : Type) (rone : R) (rmul : R -> R -> R) (cplx : bool) (f : R) (e : gexpr R),
       gr_scale R (geval R rone rmul cplx (GxScale R f e)) = rmul f (gr_scale R (geval R rone rmul cplx e))
    /\ gr_a R (geval R rone rmul cplx (GxScale R f e)) = gr_a R (geval R rone rmul cplx e)
    /\ gr_b R (geval R rone rmul cplx (GxScale R f e)) = gr_b R (geval R rone rmul cplx e).
Proof. exact gemm_scales_multiply. Qed.
Print Assumptions C13_gemm_scales_multiply.

Theorem C13_gemm_expr_satisfiable :
  let a := mk_operand [] (mk_mat 1000008 7 1 2 3 false) in
  let b := mk_operand [DcT; DcH; DcH] (mk_mat 2000005 6 1 4 3 false) in
  let c := mk_operand [] (mk_mat 3000006 5 1 2 4 false) in
  let e := GxScale gI (2, 0) (GxScale gI (1, 1) (GxGemm gI (3, 0) a b)) in
  let st := mk_gstmt gI (GtView c) CsPlusAssign e in
  exists k, gcompile gI (0, 0) (1, 0) gI_mul true true st
            = GpCall gI (6, 6) (1, 0) (op_view a) (mk_mat 2000005 1 6 3 4 false) (op_view c) (FBlas false k)
            /\ g_site k = 115 /\ gemm_implements_b k (op_view a) (mk_mat 2000005 1 6 3 4 false) (op_view c) = true.
Proof. exact gemm_expr_instance. Qed.
Print Assumptions C13_gemm_expr_satisfiable.

(* y = e, y += e, multi::array r = e, +e, arr = e, arr += e  with  e ::= blas::gemv(s, m, x) | (aa * m) % x | m % x *)
Theorem C13_gemv_expr_sound :
  forall (R : Type) (rzero rone : R) (radd rmul : R -> R -> R) (cj : R -> R) (cplx : bool),
    (forall x, rmul rone x = x) -> (forall x, rmul rzero x = rzero) -> (forall x, radd x rzero = x) -> (forall x y, radd x y = radd y x) ->
    (forall x, cj (cj x) = x) -> (cplx = false -> forall x, cj x = x) ->
    forall (debug : bool) (st : vstmt R) (alpha beta : R) (m : mat) (x y : vec) (k : gemv_call) (mem : Z -> R),
      vcompile R rzero rone cplx debug st = VpCall R alpha beta m x y (GBlas k) ->
      gemv_shapes m x y ->
      gemv_implements_b k m x y = true ->
         gemv_legal k = true
      /\ (forall i, 0 <= i < rows m ->
            gemv_ref R rzero radd rmul cj alpha beta k mem (vaddr y i)
            = vstmt_den R rzero radd rmul cj cplx (vs_consume R st) (vs_expr R st) y mem i)
      /\ (forall p, ~ in_vec y p -> gemv_ref R rzero radd rmul cj alpha beta k mem p = mem p).
Proof. exact gemv_expr_sound. Qed.
Print Assumptions C13_gemv_expr_sound.

(* y += e, y -= e  with  e ::= blas::axpy(a, x) | e *= s | a * x | x :  y(l) becomes y(l) + e(l) resp. y(l) - e(l), the scalars
   of repeated *= multiply, -= hands the NEGATED scalar to xAXPY, and only the elements of y change *)
Theorem C13_axpy_expr_sound :
  forall (R : Type) (rone : R) (radd rmul : R -> R -> R) (rneg : R -> R),
    (forall x y, rmul x y = rmul y x) -> (forall x y z, rmul (rmul x y) z = rmul x (rmul y z)) -> (forall x, rmul rone x = x) ->
    (forall x y, radd x y = radd y x) -> (forall x y, rmul (rneg x) y = rneg (rmul x y)) ->
    forall (sg : asign) (e : aexpr R) (y : vec) (mem : Z -> R),
      wf_vec (aexpr_vec R e) -> wf_vec y -> len (aexpr_vec R e) = len y ->
         (forall l, 0 <= l < len y ->
            axpy_ref R radd rmul (astmt_alpha R rone rmul rneg sg e) (astmt_call R y e) mem (vaddr y l)
            = astmt_den R radd rmul rneg sg e y mem l)
      /\ (forall p, ~ in_vec y p -> axpy_ref R radd rmul (astmt_alpha R rone rmul rneg sg e) (astmt_call R y e) mem p = mem p).
Proof. exact axpy_expr_sound. Qed.
Print Assumptions C13_axpy_expr_sound.

(* T r = dot(x, y), +dot(x, y), (x, y), f2 * (f1 * dot(x, y)), with blas::C decorations: the value is the product of the factors
   and sum_l x(l) * y(l) of the decorated logical contents, whenever the routine stores a result (not: empty vectors on the
   xGEMV route, C13_dot_full_refuted) *)
Theorem C13_dot_expr_sound :
  forall (R : Type) (rzero : R) (radd rmul : R -> R -> R) (cj : R -> R) (cplx : bool),
    (forall x y, rmul x y = rmul y x) -> (forall x, cj (cj x) = x) -> (cplx = false -> forall x, cj x = x) ->
    forall (et : etype) (e : dexpr R) (c : dot_call) (mem : Z -> R) (stored : R),
      cplx = is_complex_et et ->
      vconj (vo_view (dexpr_x R e)) = false -> vconj (vo_view (dexpr_y R e)) = false ->
      len (vo_view (dexpr_y R e)) = len (vo_view (dexpr_x R e)) ->
      dexpr_call R cplx et e = Some c ->
      (d_routine c = DViaGemv -> 0 < len (vo_view (dexpr_x R e))) ->
      dot_ref R rzero radd rmul cj c mem = Some stored ->
      dexpr_post R rmul e stored = dden R rzero radd rmul cj e mem.
Proof. exact dot_expr_sound. Qed.
Print Assumptions C13_dot_expr_sound.

(* every spelling of trsm -- trsm(side, fill, alpha, a, b), trsm(side, alpha, U(a) | L(a), b), b /= U(a) | L(a), b |= U(a) | L(a) --
   solves the system it names: tstmt_args gives (side, triangle, non-unit diagonal, scalar; right and 1 for /=, left and 1 for |=) *)
Theorem C13_trsm_stmt_sound :
  forall (R : Type) (rzero rone : R) (radd rmul : R -> R -> R) (cj : R -> R),
    (forall x y, rmul x y = rmul y x) -> (forall x, cj (cj x) = x) ->
    (forall x y, cj (rmul x y) = rmul (cj x) (cj y)) -> (forall x y, cj (radd x y) = radd (cj x) (cj y)) ->
    cj rzero = rzero -> cj rone = rone ->
    forall (debug : bool) (st : tstmt R) (a b : mat) (k : trsm_call) (mem mem' : Z -> R),
      let g := tstmt_args rone st in
      tstmt_model rone debug st a b = L3Call k ->
      trsm_implements_b (ta_left g) (ta_lower g) (ta_unit g) k a b = true ->
      trsm_post R rzero rone radd rmul cj (if t_conj_alpha k then cj (ta_alpha g) else ta_alpha g) k mem mem' ->
         trsm_legal k = true
      /\ trsm_math R rzero rone radd rmul cj (ta_left g) (ta_lower g) (ta_unit g) (ta_alpha g) a b mem mem'
      /\ (forall p, ~ in_mat b p -> mem' p = mem p).
Proof. exact trsm_stmt_sound. Qed.
Print Assumptions C13_trsm_stmt_sound.

(* herk | syrk (fill, alpha, a, c): one pass with beta = 0: the selected triangle gets alpha * a.a^H (a.a^T), nothing else changes *)
Theorem C13_rk_nobeta_sound :
  forall (R : Type) (rzero rone : R) (radd rmul : R -> R -> R) (cj re : R -> R),
    (forall x y, rmul x y = rmul y x) -> (forall x, cj (cj x) = x) -> (forall x, rmul rzero x = rzero) -> (forall x, radd x rzero = x) ->
    forall (herm upper : bool) (alpha : R) (a c : mat) (k : rk_call) (mem : Z -> R),
      hstmt_passes rzero rone (HkNoBeta upper alpha) = [(upper, alpha, rzero)] ->
      rk_implements_b herm upper k a c = true ->
         rk_legal k = true
      /\ (forall i j, 0 <= i < rows c -> 0 <= j < rows c -> in_triangle upper i j = true ->
            rk_ref R rzero radd rmul cj re herm alpha rzero k mem (maddr c i j) = rk_value R rzero radd rmul cj re herm alpha a mem i j)
      /\ (forall p, ~ triangle_cell upper c p -> rk_ref R rzero radd rmul cj re herm alpha rzero k mem p = mem p).
Proof. exact rk_nobeta_sound. Qed.
Print Assumptions C13_rk_nobeta_sound.

(* herk(alpha, a, c), herk(a, c), herk(alpha, a), herk(a): the upper pass, then the lower pass on its result, both with beta = 0:
   every element of c ends up with alpha * (a.a^H)(i,j) computed from the original a; no cell outside c changes *)
Theorem C13_rk_both_sound :
  forall (R : Type) (rzero rone : R) (radd rmul : R -> R -> R) (cj re : R -> R),
    (forall x y, rmul x y = rmul y x) -> (forall x, cj (cj x) = x) -> (forall x, rmul rzero x = rzero) -> (forall x, radd x rzero = x) ->
    forall (herm : bool) (alpha : R) (a c : mat) (k1 k2 : rk_call) (mem : Z -> R),
      hstmt_passes rzero rone (HkBoth alpha) = [(true, alpha, rzero); (false, alpha, rzero)] ->
      wf_mat c -> (s0 c = 1 \/ s1 c = 1) ->
      (forall p, in_mat a p -> ~ in_mat c p) ->
      rk_implements_b herm true k1 a c = true ->
      rk_implements_b herm false k2 a c = true ->
      let mem1 := rk_ref R rzero radd rmul cj re herm alpha rzero k1 mem in
      let mem2 := rk_ref R rzero radd rmul cj re herm alpha rzero k2 mem1 in
         (forall i j, 0 <= i < rows c -> 0 <= j < rows c -> mem2 (maddr c i j) = rk_value R rzero radd rmul cj re herm alpha a mem i j)
      /\ (forall p, ~ in_mat c p -> mem2 p = mem p).
Proof. exact rk_both_sound. Qed.
Print Assumptions C13_rk_both_sound.

(* x *= blas::scal(a), x *= a, blas::scal(a, first, last), y << x, y = blas::copy(x): the call of the named routine *)
Theorem C13_l1stmt_sound :
  forall (R : Type) (rmul : R -> R -> R) (st : l1stmt R) (mem : Z -> R),
    match st with
    | L1ScalRange a x | L1ScalOp x a | L1ScalIt a x =>
        wf_vec x ->
           (forall l, 0 <= l < len x -> scal_ref R rmul a (l1stmt_call st) mem (vaddr x l) = rmul a (xval R x mem l))
        /\ (forall p, ~ in_vec x p -> scal_ref R rmul a (l1stmt_call st) mem p = mem p)
    | L1CopyShift y x | L1CopyAssign y x =>
        wf_vec x -> wf_vec y -> len x = len y ->
           (forall l, 0 <= l < len y -> copy_ref R (l1stmt_call st) mem (vaddr y l) = xval R x mem l)
        /\ (forall p, ~ in_vec y p -> copy_ref R (l1stmt_call st) mem p = mem p)
    end.
Proof. exact l1stmt_sound. Qed.
Print Assumptions C13_l1stmt_sound.

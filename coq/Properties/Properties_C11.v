(* C11 -- All guarantees are independent of the pointer type.
   The logic half of the property (DESIGN 5/C11): the address computations of the model (views, iterators, flat
   element ranges, the element loops of assignment/fill/swap/move, comparison), re-stated in Model/PtrAlgebra.v over
   an abstract pointer type that is only ever moved by its own + (padd), subtracted by its own - (pdiff), compared
   by its own == (peq) and dereferenced, give for EVERY pointer type satisfying the torsor laws the observation of
   the integer model with every address a replaced by root + a, all integer observables identical; and every
   dereference of the model lies inside [0, N) of the root.  The other half (the library's templates instantiate
   with pointer types that have no conversion to or from T*, and behave the same) is decided by compiling and
   replaying (vlib/c11.py).  Only the property theorems, each closed by `exact`, with Print Assumptions. *)
From BM Require Import Base.Tactics Model.Layout Model.View Model.Spec Model.Iter Model.Assign Model.Compare
  Model.PtrAlgebra Proofs.LayoutProofs Proofs.ViewProofs2 Proofs.AssignProofs Proofs.PtrAlgebraProofs Proofs.PtrBoundsProofs.
From BM Require Model.Life Proofs.LifeMonad Proofs.LifeInv Proofs.LifeOps Proofs.LifeMain Proofs.LifeFacts Proofs.PtrLifeProofs.
Local Open Scope Z_scope.

(* view programs (operations, index probes, iterator walks on begin()/end() and on elements()): the pointer-typed
   observation is the integer observation with padd root applied to every address; sizes, extensions, strides,
   positions, iterator differences and comparisons are the same *)
Theorem C11_pointer_parametric :
  forall (ptr : Type) (padd : ptr -> Z -> ptr) (pdiff : ptr -> ptr -> Z) (peq : ptr -> ptr -> bool),
    (forall p, padd p 0 = p) ->
    (forall p a b, padd (padd p a) b = padd p (a + b)) ->
    (forall p a, pdiff (padd p a) p = a) ->
    (forall p q, peq p q = true <-> p = q) ->
    forall (root : ptr) (x : list range) (prog : list item),
       observe_ptr ptr padd pdiff peq root x prog = map (obs_map (padd root)) (observe_Z x prog)
    /\ map obs_ints (observe_ptr ptr padd pdiff peq root x prog) = map obs_ints (observe_Z x prog)
    /\ (forall k a, nth_error (observe_Z x prog) k = Some a ->
          nth_error (observe_ptr ptr padd pdiff peq root x prog) k = Some (obs_map (padd root) a)).
Proof. exact pointer_parametric_full_proved. Qed.
Print Assumptions C11_pointer_parametric.

(* the same, step by step (any view, not only those reached from a root) *)
Theorem C11_pointer_parametric_steps :
  forall (ptr : Type) (padd : ptr -> Z -> ptr) (pdiff : ptr -> ptr -> Z) (peq : ptr -> ptr -> bool),
    (forall p, padd p 0 = p) ->
    (forall p a b, padd (padd p a) b = padd p (a + b)) ->
    (forall p a, pdiff (padd p a) p = a) ->
    (forall p q, peq p q = true <-> p = q) ->
    forall (root : ptr),
    let pv := pv_of ptr padd root in let pa := pa_of ptr padd root in let pe := pe_of ptr padd root in
       (forall o v, p_apply_op ptr padd o (pv v) = option_map pv (apply_op o v))
    /\ (forall v idx, p_addr_brackets ptr padd (pv v) idx = padd root (addr_brackets v idx)
                   /\ p_addr_paren ptr padd (pv v) idx = padd root (addr_paren v idx)
                   /\ p_addr_cursor ptr padd (pv v) idx = padd root (addr_cursor v idx))
    /\ (forall a b, p_it_diff ptr pdiff (pa a) (pa b) = it_diff a b
                 /\ p_it_eq ptr peq (pa a) (pa b) = it_eq a b
                 /\ p_it_lt ptr pdiff (pa a) (pa b) = it_lt a b)
    /\ (forall o a, p_a_step ptr padd o (pa a) = pa (a_step o a))
    /\ (forall o e, p_e_step ptr o (pe e) = pe (e_step o e))
    /\ (forall e k, p_e_deref ptr padd (pe e) = padd root (e_deref e)
                 /\ p_e_index ptr padd (pe e) k = padd root (e_index e k)).
Proof. exact pointer_step_parametric_proved. Qed.
Print Assumptions C11_pointer_parametric_steps.

(* assignment, element-moving assignment, fill, swap, assignment from values: storage reached through pointers
   ends up holding, at root + a, what the integer model holds at a; storage not reachable from root is untouched *)
Theorem C11_storage_parametric :
  forall (ptr : Type) (padd : ptr -> Z -> ptr) (pdiff : ptr -> ptr -> Z) (peq : ptr -> ptr -> bool),
    (forall p, padd p 0 = p) ->
    (forall p a b, padd (padd p a) b = padd p (a + b)) ->
    (forall p a, pdiff (padd p a) p = a) ->
    (forall p q, peq p q = true <-> p = q) ->
    forall (root : ptr) (conv : Z -> Z) (x : Z) (vals : list Z) (dst src : view) (pm : pmem ptr),
    let pv := pv_of ptr padd root in
    let m := seen ptr padd root pm in
       (forall a, p_assign_view ptr padd peq conv (pv dst) (pv src) pm (padd root a) = assign_view conv dst src m a)
    /\ (forall a, p_move_view ptr padd peq (pv dst) (pv src) pm (padd root a) = move_view dst src m a)
    /\ (forall a, p_fill_view ptr padd peq x (pv dst) pm (padd root a) = fill_view x dst m a)
    /\ (forall a, p_swap_views ptr padd peq (pv dst) (pv src) pm (padd root a) = swap_views dst src m a)
    /\ (forall a, p_assign_vals ptr padd peq vals (pv dst) pm (padd root a) = assign_vals vals dst m a)
    /\ (forall p, off_orbit ptr padd root p ->
            p_assign_view ptr padd peq conv (pv dst) (pv src) pm p = pm p
         /\ p_move_view ptr padd peq (pv dst) (pv src) pm p = pm p
         /\ p_fill_view ptr padd peq x (pv dst) pm p = pm p
         /\ p_swap_views ptr padd peq (pv dst) (pv src) pm p = pm p
         /\ p_assign_vals ptr padd peq vals (pv dst) pm p = pm p).
Proof. exact storage_parametric_proved. Qed.
Print Assumptions C11_storage_parametric.

(* == != < <= > >= read the same values and give the same answers *)
Theorem C11_compare_parametric :
  forall (ptr : Type) (padd : ptr -> Z -> ptr),
    (forall p a b, padd (padd p a) b = padd p (a + b)) ->
    forall (root : ptr) (a b : view) (pm : ptr -> Z),
    let pv := pv_of ptr padd root in
    let m := fun x => pm (padd root x) in
       p_v_tree ptr padd (pv a) pm = v_tree a m
    /\ p_v_eq ptr padd (pv a) (pv b) pm = v_eq a b m
    /\ p_v_ne ptr padd (pv a) (pv b) pm = v_ne a b m
    /\ p_v_lt ptr padd (pv a) (pv b) pm = v_lt a b m
    /\ p_v_le ptr padd (pv a) (pv b) pm = v_le a b m
    /\ p_v_gt ptr padd (pv a) (pv b) pm = v_gt a b m
    /\ p_v_ge ptr padd (pv a) (pv b) pm = v_ge a b m.
Proof. exact compare_parametric_proved. Qed.
Print Assumptions C11_compare_parametric.

(* every dereference of a view reached as in C01 is inside the root: indexing by the three access paths, iterators
   of the leading dimension in [begin, end), flat iterators before end after any in-range trace, elements()[k],
   the cells of the element range, the values comparison reads *)
Theorem C11_deref_in_bounds :
  forall (sz : list Z) (ops : list op) (v : view),
    Forall (fun n => 0 <= n) sz -> Forall c01_op ops -> run_ops ops (root_view (zb sz)) = Some v ->
    let a := run_spec ops (root_spec sz) in let N := prod sz in
       (forall idx, valid_idx (asz a) idx ->
            inb N (addr_brackets v idx) /\ inb N (addr_paren v idx) /\ inb N (addr_cursor v idx))
    /\ (forall n r, asz a = n :: r -> forall p, 0 <= p < n -> forall idx, valid_idx r idx ->
            inb N (v_addr (it_deref (it_add (it_begin v) p)) idx))
    /\ (forall tr, trace_ok (er_size v) 0 tr = true -> run_pos tr 0 < er_size v ->
            inb N (e_deref (run_e tr (er_begin v))))
    /\ (forall k, 0 <= k < er_size v -> inb N (e_addr v k))
    /\ Forall (inb N) (footprint v)
    /\ Forall (inb N) (derefs_tree v).
Proof. exact deref_in_bounds_proved. Qed.
Print Assumptions C11_deref_in_bounds.

(* the element loops read and write nothing but their deref lists (outside: unchanged; inside: a function of
   what was inside), comparison reads nothing but the leaves of the two value trees ... *)
Theorem C11_loops_touch_only_derefs :
  forall (conv : Z -> Z) (x : Z) (vals : list Z) (dst src : view),
     touches_only (assign_view conv dst src) (derefs_assign dst src)
  /\ touches_only (move_view dst src) (derefs_move dst src)
  /\ touches_only (fill_view x dst) (derefs_fill dst)
  /\ touches_only (swap_views dst src) (derefs_swap dst src)
  /\ touches_only (assign_vals vals dst) (derefs_vals dst).
Proof. exact loops_touch_only_derefs_proved. Qed.
Print Assumptions C11_loops_touch_only_derefs.

Theorem C11_compare_reads_only_leaves :
  forall (a b : view) (m m' : Z -> Z),
    (forall x, In x (derefs_compare a b) -> m x = m' x) ->
       v_tree a m = v_tree a m' /\ v_tree b m = v_tree b m'
    /\ v_eq a b m = v_eq a b m' /\ v_ne a b m = v_ne a b m' /\ v_lt a b m = v_lt a b m' /\ v_le a b m = v_le a b m'
    /\ v_gt a b m = v_gt a b m' /\ v_ge a b m = v_ge a b m'.
Proof. exact compare_reads_only_leaves_proved. Qed.
Print Assumptions C11_compare_reads_only_leaves.

(* ... and those lists consist of cells of the two element ranges, each inside its own root *)
Theorem C11_loops_in_bounds :
  forall (szd szs : list Z) (opsd opss : list op) (dst src : view),
    Forall (fun n => 0 <= n) szd -> Forall c01_op opsd -> run_ops opsd (root_view (zb szd)) = Some dst ->
    Forall (fun n => 0 <= n) szs -> Forall c01_op opss -> run_ops opss (root_view (zb szs)) = Some src ->
    er_size dst = er_size src ->
    forall x, (In x (derefs_assign dst src) \/ In x (derefs_swap dst src) \/ In x (derefs_fill dst)) ->
       (exists k, x = e_addr dst k /\ inb (prod szd) x) \/ (exists k, x = e_addr src k /\ inb (prod szs) x).
Proof. exact loops_in_bounds_proved. Qed.
Print Assumptions C11_loops_in_bounds.

(* ---- lifecycle (Model/Life.v): every cell touched by construct / destroy / read / assign lies in a LIVE block ---- *)
Module LifeC11.
Import Model.Life Proofs.LifeMonad Proofs.LifeInv Proofs.LifeOps Proofs.LifeMain Proofs.LifeFacts Proofs.PtrLifeProofs.

(* the element micro-steps (allocator_traits::construct / destroy, element read / assignment, moved-from marking) either
   touch cell i of a live block b, or return one of EOutOfBlock / EDangling / EUnknownBlock *)
Theorem C11_life_steps_touch_live_cells : forall cfg b i v s,
     (forall s', construct1 b i v s = Ok tt s' -> in_live_block s b i)
  /\ (forall s', destroy1 b i s = Ok tt s' -> in_live_block s b i)
  /\ (forall x s', read1 cfg b i s = Ok x s' -> in_live_block s b i)
  /\ (forall s', assign1 cfg b i v s = Ok tt s' -> in_live_block s b i)
  /\ (c_quiet cfg = false -> forall s', mark_moved cfg b i s = Ok tt s' -> in_live_block s b i)
  /\ (~ in_live_block s b i ->
        (exists e, construct1 b i v s = Err e /\ access_err e) /\ (exists e, destroy1 b i s = Err e /\ access_err e)
     /\ (exists e, read1 cfg b i s = Err e /\ access_err e) /\ (exists e, assign1 cfg b i v s = Err e /\ access_err e)).
Proof. exact life_steps_touch_live_cells_proved. Qed.
Print Assumptions C11_life_steps_touch_live_cells.

(* hence: no history of array.hpp entry points in its documented domain (construct, copy, move, assign, swap, reextent,
   clear, reshape, destroy ...) ever touches a cell outside a live block; the final state satisfies the ownership
   invariant (in which every live cell index is below its block's size: live_cell_below_size) *)
Theorem C11_life_no_access_outside_live_blocks :
  forall cfg, (1 <= c_rank cfg)%nat -> forall (h : list lop), hist_dom cfg h (st0 None) ->
    let '(outs, s') := run_life cfg h (st0 None) in
    Good cfg s' /\ Forall (fun o => forall e, o = OutErr e -> ~ access_err e) outs.
Proof. exact life_no_access_outside_live_blocks_proved. Qed.
Print Assumptions C11_life_no_access_outside_live_blocks.

(* the same with an exception injected at any fallible event, at the sites C09's partial theorem covers *)
Theorem C11_life_no_access_outside_live_blocks_fault :
  forall cfg, (1 <= c_rank cfg)%nat -> forall (h : list lop) (k : nat), hist_dom cfg h (st0 (Some k)) ->
    let '(outs, s') := run_life cfg h (st0 (Some k)) in
    (forall w, In (EvThrow w) (s_ledger s') -> ok_site w) ->
    Good cfg s' /\ Forall (fun o => forall e, o = OutErr e -> ~ access_err e) outs.
Proof. exact life_no_access_outside_live_blocks_fault_proved. Qed.
Print Assumptions C11_life_no_access_outside_live_blocks_fault.

Theorem C11_life_cell_below_block_size : forall cfg s b i, Good cfg s -> in_live_block s b i ->
  exists blk, nth_error (s_blocks s) b = Some blk /\ b_live blk = true /\ Z.of_nat i < b_size blk.
Proof. exact live_cell_below_size. Qed.
Print Assumptions C11_life_cell_below_block_size.
End LifeC11.

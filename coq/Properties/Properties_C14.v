(* C14 -- LAPACK adaptor: marshalling of views into Fortran calls, relative to LAPACK's contracts.
   This file holds only the property theorems, each closed by `exact`, with Print Assumptions.
   What is proved: for every accepted view (all sizes, strides, offsets, both orientations, both
   triangles) the call is legal, LAPACK sees the view's matrix or its transpose, the triangle flag
   designates the selected triangle, nothing outside the view is designated, the returned view is
   the leading block by info, the workspace protocol is balanced on every path; and, GIVEN the
   column-major contracts of the routines (premises `*_contract`), the factors reconstruct the
   input in the view's own reading and only the documented outputs change.
   What is not proved: floating-point accuracy (measured by the correspondence check). *)
From BM Require Import Base.Tactics Model.Lapack Model.LapackSem
  Proofs.LapackProofs Proofs.LapackSemProofs Proofs.C14Main.
Local Open Scope Z_scope.

Theorem C14_potrf_marshalling :
  forall (uplo : filling) (v : mat), potrf_dom v = true ->
    let c := potrf_call_of uplo v in
       potrf_asrt v = true
    /\ potrf_legal c = true
    /\ pc_n c = m_n0 v
    /\ (forall i j, pc_a c + i + j * pc_lda c = if potrf_colbranch v then maddr v i j else maddr v j i)
    /\ pc_uplo c = (if potrf_colbranch v then filling_char (flip uplo) else filling_char uplo)
    /\ (forall i j, ftri (pc_uplo c) i j = if potrf_colbranch v then vtri uplo i j else vtri uplo j i)
    /\ (forall p, in_coltri (pc_uplo c) (pc_a c) (pc_lda c) (pc_n c) p <-> in_mattri uplo v p)
    /\ (forall p, in_coltri (pc_uplo c) (pc_a c) (pc_lda c) (pc_n c) p -> in_mat v p).
Proof. exact C14_potrf_marshalling_proved. Qed.
Print Assumptions C14_potrf_marshalling.

(* the returned view is the leading k x k block (k = n, or info - 1 after a non-positive minor) *)
Theorem C14_potrf_leading_block :
  forall v info, potrf_dom v = true ->
    let k := potrf_order (m_n0 v) info in
       potrf_ret v info = m_block v k k
    /\ m_base (potrf_ret v info) = m_base v /\ m_s0 (potrf_ret v info) = m_s0 v /\ m_s1 (potrf_ret v info) = m_s1 v
    /\ m_n0 (potrf_ret v info) = k /\ m_n1 (potrf_ret v info) = k.
Proof. exact C14_potrf_leading_block_proved. Qed.
Print Assumptions C14_potrf_leading_block.

Theorem C14_potrf_factorization : C14_potrf_factorization_statement.
Proof. exact C14_potrf_factorization_proved. Qed.
Print Assumptions C14_potrf_factorization.

Theorem C14_workspace :
     (forall aa tau qinfo lwork rinfo,
        let t := geqrf_trace aa tau qinfo lwork rinfo in
           ws_ok gq_work gq_lwork [] t = true
        /\ calls_of t = (if qinfo =? 0 then [geqrf_mk aa tau WLocal (-1); geqrf_mk aa tau WAlloc lwork]
                         else [geqrf_mk aa tau WLocal (-1)])
        /\ allocs_of t = (if qinfo =? 0 then [lwork] else [])
        /\ throws t = negb ((qinfo =? 0) && (rinfo =? 0)))
  /\ (forall aa uu ss vv qinfo lwork rinfo,
        let t := gesvd_trace aa uu ss vv qinfo lwork rinfo in
           ws_ok gs_work gs_lwork [] t = true
        /\ calls_of t = (if qinfo =? 0 then [gesvd_mk aa uu ss vv WLocal (-1); gesvd_mk aa uu ss vv WAlloc lwork]
                         else [gesvd_mk aa uu ss vv WLocal (-1)])
        /\ allocs_of t = (if qinfo =? 0 then [lwork] else [])
        /\ throws t = negb ((qinfo =? 0) && (rinfo =? 0))).
Proof. exact C14_workspace_proved. Qed.
Print Assumptions C14_workspace.

Theorem C14_geqrf_marshalling :
  forall aa tau, geqrf_dom aa tau = true ->
    forall w lwork, let c := geqrf_mk aa tau w lwork in
       geqrf_asrt aa tau = true
    /\ ((lwork = -1 \/ Z.max 1 (m_n0 aa) <= lwork) -> geqrf_legal c = true)
    /\ gq_m c = m_n1 aa /\ gq_n c = m_n0 aa
    /\ (forall i j, gq_a c + i + j * gq_lda c = maddr aa j i)
    /\ (forall p, in_colmajor (gq_a c) (gq_lda c) (gq_m c) (gq_n c) p <-> in_mat aa p)
    /\ (forall p, in_run (gq_tau c) (Z.min (gq_m c) (gq_n c)) p <-> in_vec tau p)
    /\ geqrf_ret aa = aa.
Proof. exact C14_geqrf_marshalling_proved. Qed.
Print Assumptions C14_geqrf_marshalling.

Theorem C14_geqrf_factorization : C14_geqrf_factorization_statement.
Proof. exact C14_geqrf_factorization_proved. Qed.
Print Assumptions C14_geqrf_factorization.

Theorem C14_gesvd_marshalling :
  forall aa uu ss vv, gesvd_dom aa uu ss vv = true ->
    forall w lwork, let c := gesvd_mk aa uu ss vv w lwork in
       gesvd_asrt aa uu ss vv = true
    /\ ((lwork = -1 \/ gesvd_minwork (m_n1 aa) (m_n0 aa) <= lwork) -> gesvd_legal c = true)
    /\ gs_m c = m_n1 aa /\ gs_n c = m_n0 aa
    /\ (forall i j, gs_a c + i + j * gs_lda c = maddr aa j i)
    /\ (forall i j, gs_u c + i + j * gs_ldu c = maddr vv j i)
    /\ (forall i j, gs_vt c + i + j * gs_ldvt c = maddr uu j i)
    /\ (forall l, gs_s c + l = vaddr ss l)
    /\ (forall p, in_colmajor (gs_a c) (gs_lda c) (gs_m c) (gs_n c) p <-> in_mat aa p)
    /\ (forall p, in_colmajor (gs_u c) (gs_ldu c) (gs_m c) (gs_m c) p <-> in_mat vv p)
    /\ (forall p, in_colmajor (gs_vt c) (gs_ldvt c) (gs_n c) (gs_n c) p <-> in_mat uu p)
    /\ (forall p, in_run (gs_s c) (Z.min (gs_m c) (gs_n c)) p <-> in_vec ss p).
Proof. exact C14_gesvd_marshalling_proved. Qed.
Print Assumptions C14_gesvd_marshalling.

Theorem C14_gesvd_factorization : C14_gesvd_factorization_statement.
Proof. exact C14_gesvd_factorization_proved. Qed.
Print Assumptions C14_gesvd_factorization.

Theorem C14_gesvd_by_value : forall r c, 1 <= r -> 1 <= c ->
  let '(aa, uu, ss, vv) := gesvd_value_operands r c in
  gesvd_dom aa uu ss vv = true /\ m_n0 aa = r /\ m_n1 aa = c.
Proof. exact C14_gesvd_by_value_proved. Qed.
Print Assumptions C14_gesvd_by_value.

Theorem C14_syev_marshalling :
  forall uplo a w work, syev_dom a w work = true ->
       syev_asrt a w work = true
    /\ (m_n0 a = 0 -> syev_step_of uplo a w work = SyNoCall)
    /\ (0 < m_n0 a -> exists c, syev_step_of uplo a w work = SyCall c
          /\ syev_legal c = true /\ sy_n c = m_n0 a
          /\ (forall i j, sy_a c + i + j * sy_lda c = if syev_rowbranch a then maddr a j i else maddr a i j)
          /\ (forall i j, ftri (sy_uplo c) i j = if syev_rowbranch a then vtri uplo j i else vtri uplo i j)
          /\ (forall p, in_colmajor (sy_a c) (sy_lda c) (sy_n c) (sy_n c) p <-> in_mat a p)
          /\ (forall p, in_run (sy_w c) (sy_n c) p <-> in_vec w p)
          /\ (forall p, in_run (sy_work c) (sy_lwork c) p <-> in_vec work p))
    /\ (forall info, syev_ret a info = if m_n0 a =? 0 then a else m_block a (m_n0 a - info) (m_n0 a - info))
    /\ (forall n, Z.max 1 (3 * n - 1) <= syev_work_size n).
Proof. exact C14_syev_marshalling_proved. Qed.
Print Assumptions C14_syev_marshalling.

Theorem C14_syev_factorization : C14_syev_factorization_statement.
Proof. exact C14_syev_factorization_proved. Qed.
Print Assumptions C14_syev_factorization.

Theorem C14_quantified_views_accepted :
     (forall C r0 c0 n t, 0 <= n -> 0 <= c0 -> c0 + n <= C -> 1 <= C ->
        potrf_dom (mk_operand C r0 c0 n n t) = true)
  /\ (forall C r0 c0 nr nc off, 0 <= nr -> 0 <= nc -> 0 <= c0 -> c0 + nc <= C -> 1 <= C ->
        geqrf_dom (root_block C r0 c0 nr nc) (mkvec off 1 (Z.min nc nr)) = true)
  /\ (forall CA ra ca CU ru cu CV rv cv r c off,
        0 <= r -> 0 <= c -> 0 <= ca -> ca + c <= CA -> 1 <= CA -> 0 <= cu -> cu + r <= CU -> 1 <= CU ->
        0 <= cv -> cv + c <= CV -> 1 <= CV ->
        gesvd_dom (root_block CA ra ca r c) (root_block CU ru cu r r) (mkvec off 1 (Z.min r c)) (root_block CV rv cv c c) = true)
  /\ (forall C r0 c0 n t woff koff kn, 0 <= n -> 0 <= c0 -> c0 + n <= C -> 1 <= C -> Z.max 1 (3 * n - 1) <= kn ->
        syev_dom (mk_operand C r0 c0 n n t) (mkvec woff 1 n) (mkvec koff 1 kn) = true).
Proof. exact C14_quantified_views_accepted_proved. Qed.
Print Assumptions C14_quantified_views_accepted.

(* whatever passes geqrf's own assertions (geqrf.hpp:40-42) and DGEQRF's argument checks is in the
   documented domain and designates exactly the elements of the view and of tau *)
Theorem C14_geqrf_checks_suffice :
  forall aa tau w lwork,
    geqrf_asrt aa tau = true -> 0 <= m_n0 aa -> 0 <= m_n1 aa ->
    let c := geqrf_mk aa tau w lwork in
    geqrf_legal c = true ->
       geqrf_dom aa tau = true
    /\ (forall p, in_colmajor (gq_a c) (gq_lda c) (gq_m c) (gq_n c) p <-> in_mat aa p)
    /\ (forall p, in_run (gq_tau c) (Z.min (gq_m c) (gq_n c)) p <-> in_vec tau p).
Proof. exact geqrf_checks_suffice. Qed.
Print Assumptions C14_geqrf_checks_suffice.

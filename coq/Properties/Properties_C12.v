(* C12 -- Projection views transform, cast or reinterpret exactly element by element.
   This file holds only the property theorems, each closed by `exact`, with Print Assumptions.
   Model: Model/ProjectC12.v (on Model/Layout.v, Model/View.v); byte addresses are measured from the
   root array's data_elements(); `reachable sz ops v` = v is obtained from a zero-based root of sizes sz
   by any finite sequence of C01 view operations, each inside its documented domain. *)
From BM Require Import Base.Tactics Model.Layout Model.View Model.Spec Model.ProjectC12
  Proofs.LayoutProofs Proofs.ViewProofs2 Proofs.C01Main Proofs.ProjectC12Compose Proofs.ProjectC12ComposeN
  Proofs.ProjectC12Main.
Local Open Scope Z_scope.

(* member_cast designates exactly the named member of each element *)
Theorem C12_member_cast_addr :
  forall (x : pview) (sz : list Z) (szU moff : Z),
    lay_ok (lay (p_view x)) sz ->
    0 < p_esz x -> 0 < szU ->
    dom_scale (p_esz x) szU (lay (p_view x)) = true ->
    let m := p_member_cast szU moff x in
       lay_ok (lay (p_view m)) sz
    /\ shape_agrees (p_view m) sz
    /\ p_esz m = szU
    /\ forall idx, p_addr_brackets m idx = p_addr_brackets x idx + moff.
Proof. exact C12_member_cast_addr_proved. Qed.
Print Assumptions C12_member_cast_addr.

Theorem C12_member_cast_from_root :
  forall (sz : list Z) (ops : list op) (v : view) (szT szU moff : Z),
    reachable sz ops v -> dom_member szT szU moff = true ->
    let a := run_spec ops (root_spec sz) in
    let m := p_member_cast szU moff (p_embed szT v) in
       shape_agrees (p_view m) (asz a)
    /\ forall idx, valid_idx (asz a) idx ->
         let k := rowmajor (collapse sz) (amap a idx) in
            p_addr_brackets m idx = szT * addr_brackets v idx + moff
         /\ p_addr_brackets m idx = szT * k + moff
         /\ 0 <= k < prod sz
         /\ szT * k <= p_addr_brackets m idx /\ p_addr_brackets m idx + szU <= szT * (k + 1).
Proof. exact C12_member_cast_from_root_proved. Qed.
Print Assumptions C12_member_cast_from_root.

(* reinterpret_array_cast<U>() reinterprets each element in place *)
Theorem C12_reinterpret_addr :
  forall (x : pview) (sz : list Z) (szU : Z),
    lay_ok (lay (p_view x)) sz -> 0 < p_esz x -> 0 < szU ->
    dom_scale (p_esz x) szU (lay (p_view x)) = true ->
    let m := p_reinterpret szU x in
       lay_ok (lay (p_view m)) sz
    /\ shape_agrees (p_view m) sz
    /\ p_esz m = szU
    /\ forall idx, p_addr_brackets m idx = p_addr_brackets x idx.
Proof. exact C12_reinterpret_addr_proved. Qed.
Print Assumptions C12_reinterpret_addr.

Theorem C12_reinterpret_same_size :
  forall (sz : list Z) (ops : list op) (v : view) (szT : Z),
    reachable sz ops v -> 0 < szT ->
    let a := run_spec ops (root_spec sz) in
    let m := p_reinterpret szT (p_embed szT v) in
       shape_agrees (p_view m) (asz a)
    /\ forall idx, valid_idx (asz a) idx ->
            p_addr_brackets m idx = szT * addr_brackets v idx
         /\ p_addr_brackets m idx = szT * rowmajor (collapse sz) (amap a idx).
Proof. exact C12_reinterpret_same_size_proved. Qed.
Print Assumptions C12_reinterpret_same_size.

(* reinterpret_array_cast<U>(n) adds a trailing dimension of size n over each element's bytes *)
Theorem C12_reinterpret_extra_dim :
  forall (x : pview) (sz : list Z) (szU n : Z),
    lay_ok (lay (p_view x)) sz -> 0 < p_esz x -> 0 < szU -> 0 <= n ->
    dom_scale (p_esz x) szU (lay (p_view x)) = true ->
    let m := p_reinterpret_n szU n x in
       lay_ok (lay (p_view m)) (sz ++ [n])
    /\ l_extensions (lay (p_view m)) = l_extensions (lay (p_view x)) ++ [(0, n)]
    /\ shape_agrees (p_view m) (sz ++ [n])
    /\ p_esz m = szU
    /\ forall idx j, length idx = length sz ->
            p_addr_brackets m (idx ++ [j]) = p_addr_brackets x idx + j * szU
         /\ (0 <= j < n -> p_esz x = szU * n ->
               p_addr_brackets x idx <= p_addr_brackets m (idx ++ [j])
            /\ p_addr_brackets m (idx ++ [j]) + szU <= p_addr_brackets x idx + p_esz x).
Proof. exact C12_reinterpret_extra_dim_proved. Qed.
Print Assumptions C12_reinterpret_extra_dim.

Theorem C12_reinterpret_extra_dim_from_root :
  forall (sz : list Z) (ops : list op) (v : view) (szT szU n : Z),
    reachable sz ops v -> dom_reinterpret_n szT szU n = true ->
    let a := run_spec ops (root_spec sz) in
    let m := p_reinterpret_n szU n (p_embed szT v) in
       l_extensions (lay (p_view m)) = zb (asz a ++ [n])
    /\ shape_agrees (p_view m) (asz a ++ [n])
    /\ forall idx j, valid_idx (asz a) idx -> 0 <= j < n ->
         let k := rowmajor (collapse sz) (amap a idx) in
            p_addr_brackets m (idx ++ [j]) = szT * k + j * szU
         /\ 0 <= k < prod sz
         /\ szT * k <= p_addr_brackets m (idx ++ [j]) /\ p_addr_brackets m (idx ++ [j]) + szU <= szT * (k + 1).
Proof. exact C12_reinterpret_extra_dim_from_root_proved. Qed.
Print Assumptions C12_reinterpret_extra_dim_from_root.

(* element_transformed(f): lazy, source extents, value = f (source element at access time) *)
Theorem C12_transformed :
  forall (A B : Type) (f : A -> B) (sz : list Z) (ops : list op) (v : view),
    reachable sz ops v ->
    let a := run_spec ops (root_spec sz) in
    let t := v_element_transformed v in
       shape_agrees t (asz a)
    /\ l_extensions (lay t) = l_extensions (lay v)
    /\ forall (s : Z -> A) idx, valid_idx (asz a) idx ->
            t_read f s v idx = f (v_read s v idx)
         /\ t_read f s v idx = f (s (rowmajor (collapse sz) (amap a idx))).
Proof. exact @C12_transformed_proved. Qed.
Print Assumptions C12_transformed.

(* ... and writes through when f yields a reference (f = get of a sub-object, put = its setter) *)
Theorem C12_transformed_write_through :
  forall (A B C : Type) (f : A -> B) (put : B -> A -> A),
    (forall x a, f (put x a) = x) ->
    forall g : A -> C, (forall x a, g (put x a) = g a) ->
    forall (s : Z -> A) (v : view) (idx : list Z) (x : B),
      let s' := t_write put s v idx x in
         t_read f s' v idx = x
      /\ f (v_read s' v idx) = x
      /\ g (v_read s' v idx) = g (v_read s v idx)
      /\ (forall k, k <> addr_brackets v idx -> s' k = s k)
      /\ (forall idx', addr_brackets v idx' <> addr_brackets v idx ->
            v_read s' v idx' = v_read s v idx' /\ t_read f s' v idx' = t_read f s v idx').
Proof. exact @C12_transformed_write_through_proved. Qed.
Print Assumptions C12_transformed_write_through.

(* static_array_cast, const_array_cast and as_const keep extents and element identity *)
Theorem C12_cast_identity :
  forall v : view,
       v_static_array_cast v = v /\ v_const_array_cast v = v /\ v_as_const v = v
    /\ (forall idx, addr_brackets (v_static_array_cast v) idx = addr_brackets v idx
                 /\ addr_brackets (v_const_array_cast v) idx = addr_brackets v idx
                 /\ addr_brackets (v_as_const v) idx = addr_brackets v idx)
    /\ l_extensions (lay (v_static_array_cast v)) = l_extensions (lay v)
    /\ l_extensions (lay (v_const_array_cast v)) = l_extensions (lay v)
    /\ l_extensions (lay (v_as_const v)) = l_extensions (lay v).
Proof. exact C12_cast_identity_proved. Qed.
Print Assumptions C12_cast_identity.

(* these views compose with the view algebra: operation after projection = projection after operation *)
Theorem C12_compose :
  forall (x : pview) (sz : list Z) (o : op) (p : proj),
    lay_ok (lay (p_view x)) sz -> c01_op o -> p_dom_op o x = true -> proj_admissible p x ->
       p_dom_op o (p_exec_proj p x) = true
    /\ lay_ok (lay (p_view (p_exec_op o (p_exec_proj p x)))) (spec_sz o sz)
    /\ lay_ok (lay (p_view (p_exec_proj p (p_exec_op o x)))) (spec_sz o sz)
    /\ p_esz (p_exec_op o (p_exec_proj p x)) = p_esz (p_exec_proj p (p_exec_op o x))
    /\ forall idx, valid_idx (spec_sz o sz) idx ->
         p_addr_brackets (p_exec_op o (p_exec_proj p x)) idx = p_addr_brackets (p_exec_proj p (p_exec_op o x)) idx.
Proof. exact C12_compose_proved. Qed.
Print Assumptions C12_compose.

(* ... reinterpret_array_cast<U>(n) (one more dimension) commutes with every operation on the leading dimensions
   (head_op: all of C01's operations except rotated / unrotated / reversed, which move the appended dimension) *)
Theorem C12_compose_extra_dim :
  forall (x : pview) (sz : list Z) (o : op) (szU n : Z),
    lay_ok (lay (p_view x)) sz -> c01_op o -> head_op o -> p_dom_op o x = true ->
    dom_reinterpret_n (p_esz x) szU n = true ->
       p_dom_op o (p_reinterpret_n szU n x) = true
    /\ lay_ok (lay (p_view (p_exec_op o (p_reinterpret_n szU n x)))) (spec_sz o sz ++ [n])
    /\ lay_ok (lay (p_view (p_reinterpret_n szU n (p_exec_op o x)))) (spec_sz o sz ++ [n])
    /\ forall idx j, valid_idx (spec_sz o sz) idx -> 0 <= j < n ->
         p_addr_brackets (p_exec_op o (p_reinterpret_n szU n x)) (idx ++ [j])
         = p_addr_brackets (p_reinterpret_n szU n (p_exec_op o x)) (idx ++ [j]).
Proof. exact C12_compose_extra_dim_proved. Qed.
Print Assumptions C12_compose_extra_dim.

(* ... and any further sequence of view operations acts on a projected view by the documented index maps *)
Theorem C12_compose_ops :
  forall (x : pview) (sz : list Z) (ops : list op) (y : pview),
    lay_ok (lay (p_view x)) sz -> Forall c01_op ops -> p_run_ops ops x = Some y ->
    let a := run_spec ops (mkaview sz (fun i => i)) in
       shape_agrees (p_view y) (asz a)
    /\ p_esz y = p_esz x
    /\ forall idx, valid_idx (asz a) idx ->
         valid_idx sz (amap a idx) /\ p_addr_brackets y idx = p_addr_brackets x (amap a idx).
Proof. exact C12_compose_ops_proved. Qed.
Print Assumptions C12_compose_ops.

(* constructing an array from any of them (or from a view of a convertible element type) preserves extents
   and converts element by element *)
Theorem C12_convert_construct :
  forall (A B : Type) (conv : A -> B) (rd : Z -> A) (sz : list Z) (ops : list op) (v : view),
    reachable sz ops v ->
    let a := run_spec ops (root_spec sz) in
    exists c, convert_construct conv rd (lay v) = Some c
      /\ l_extensions (c_lay c) = zb (collapse (asz a))
      /\ l_sizes (c_lay c) = collapse (asz a)
      /\ (prod (asz a) <> 0 -> collapse (asz a) = asz a)
      /\ length (c_data c) = Z.to_nat (prod (asz a))
      /\ forall idx, valid_idx (collapse (asz a)) idx ->
           c_at c idx = Some (conv (rd (l_addr (lay v) idx))).
Proof. exact C12_convert_construct_proved. Qed.
Print Assumptions C12_convert_construct.

Theorem C12_convert_construct_pview :
  forall (A B : Type) (conv : A -> B) (rdb : Z -> A) (x : pview) (sz : list Z),
    lay_ok (lay (p_view x)) sz ->
    exists c, convert_construct conv (fun k => rdb (p_ptr x + p_esz x * k)) (lay (p_view x)) = Some c
      /\ l_sizes (c_lay c) = collapse sz
      /\ forall idx, valid_idx (collapse sz) idx -> c_at c idx = Some (conv (rdb (p_addr_brackets x idx))).
Proof. exact C12_convert_construct_pview_proved. Qed.
Print Assumptions C12_convert_construct_pview.

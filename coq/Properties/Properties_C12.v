(* C12 -- Projection views transform, cast or reinterpret exactly element by element.
   This file holds only the property theorems, each closed by `exact`, with Print Assumptions.
   Model: Model/ProjectC12.v (on Model/Layout.v, Model/View.v); byte addresses are measured from the
   root array's data_elements(); `reachable sz ops v` = v is obtained from a zero-based root of sizes sz
   by any finite sequence of C01 view operations, each inside its documented domain. *)
From BM Require Import Base.Tactics Model.Layout Model.View Model.Spec Model.Iter Model.Rebase Model.Asserts
  Model.ProjectC12Based Model.ProjectC12 Model.ProjectC12Walk
  Proofs.LayoutProofs Proofs.ViewProofs2 Proofs.IterProofs Proofs.ElemProofs Proofs.C01Main Proofs.RebaseProofs
  Proofs.ProjectC12Compose Proofs.ProjectC12ComposeN Proofs.ProjectC12Main Proofs.ProjectC12ConvertBased
  Proofs.ProjectC12Walk Proofs.ProjectC12Based.
Local Open Scope Z_scope.

(* member_cast designates exactly the named member of each element *)
Theorem C12_member_cast_addr :
  forall (x : pview) (sz : list Z) (szU moff : Z),
    lay_ok (lay (p_view x)) sz ->
    0 < p_esz x -> 0 < szU ->
    dom_scale (p_esz x) szU (lay (p_view x)) = true ->
    let m := p_member_cast szU moff x in
       lay_ok (lay (p_view m)) sz
    /\ shape_agrees (p_view m) sz
    /\ p_esz m = szU
    /\ forall idx, p_addr_brackets m idx = p_addr_brackets x idx + moff.
Proof. exact C12_member_cast_addr_proved. Qed.
Print Assumptions C12_member_cast_addr.

Theorem C12_member_cast_from_root :
  forall (sz : list Z) (ops : list op) (v : view) (szT szU moff : Z),
    reachable sz ops v -> dom_member szT szU moff = true ->
    let a := run_spec ops (root_spec sz) in
    let m := p_member_cast szU moff (p_embed szT v) in
       shape_agrees (p_view m) (asz a)
    /\ forall idx, valid_idx (asz a) idx ->
         let k := rowmajor (collapse sz) (amap a idx) in
            p_addr_brackets m idx = szT * addr_brackets v idx + moff
         /\ p_addr_brackets m idx = szT * k + moff
         /\ 0 <= k < prod sz
         /\ szT * k <= p_addr_brackets m idx /\ p_addr_brackets m idx + szU <= szT * (k + 1).
Proof. exact C12_member_cast_from_root_proved. Qed.
Print Assumptions C12_member_cast_from_root.

(* reinterpret_array_cast<U>() reinterprets each element in place *)
Theorem C12_reinterpret_addr :
  forall (x : pview) (sz : list Z) (szU : Z),
    lay_ok (lay (p_view x)) sz -> 0 < p_esz x -> 0 < szU ->
    dom_scale (p_esz x) szU (lay (p_view x)) = true ->
    let m := p_reinterpret szU x in
       lay_ok (lay (p_view m)) sz
    /\ shape_agrees (p_view m) sz
    /\ p_esz m = szU
    /\ forall idx, p_addr_brackets m idx = p_addr_brackets x idx.
Proof. exact C12_reinterpret_addr_proved. Qed.
Print Assumptions C12_reinterpret_addr.

Theorem C12_reinterpret_same_size :
  forall (sz : list Z) (ops : list op) (v : view) (szT : Z),
    reachable sz ops v -> 0 < szT ->
    let a := run_spec ops (root_spec sz) in
    let m := p_reinterpret szT (p_embed szT v) in
       shape_agrees (p_view m) (asz a)
    /\ forall idx, valid_idx (asz a) idx ->
            p_addr_brackets m idx = szT * addr_brackets v idx
         /\ p_addr_brackets m idx = szT * rowmajor (collapse sz) (amap a idx).
Proof. exact C12_reinterpret_same_size_proved. Qed.
Print Assumptions C12_reinterpret_same_size.

(* reinterpret_array_cast<U>(n) adds a trailing dimension of size n over each element's bytes *)
Theorem C12_reinterpret_extra_dim :
  forall (x : pview) (sz : list Z) (szU n : Z),
    lay_ok (lay (p_view x)) sz -> 0 < p_esz x -> 0 < szU -> 0 <= n ->
    dom_scale (p_esz x) szU (lay (p_view x)) = true ->
    let m := p_reinterpret_n szU n x in
       lay_ok (lay (p_view m)) (sz ++ [n])
    /\ l_extensions (lay (p_view m)) = l_extensions (lay (p_view x)) ++ [(0, n)]
    /\ shape_agrees (p_view m) (sz ++ [n])
    /\ p_esz m = szU
    /\ forall idx j, length idx = length sz ->
            p_addr_brackets m (idx ++ [j]) = p_addr_brackets x idx + j * szU
         /\ (0 <= j < n -> p_esz x = szU * n ->
               p_addr_brackets x idx <= p_addr_brackets m (idx ++ [j])
            /\ p_addr_brackets m (idx ++ [j]) + szU <= p_addr_brackets x idx + p_esz x).
Proof. exact C12_reinterpret_extra_dim_proved. Qed.
Print Assumptions C12_reinterpret_extra_dim.

Theorem C12_reinterpret_extra_dim_from_root :
  forall (sz : list Z) (ops : list op) (v : view) (szT szU n : Z),
    reachable sz ops v -> dom_reinterpret_n szT szU n = true ->
    let a := run_spec ops (root_spec sz) in
    let m := p_reinterpret_n szU n (p_embed szT v) in
       l_extensions (lay (p_view m)) = zb (asz a ++ [n])
    /\ shape_agrees (p_view m) (asz a ++ [n])
    /\ forall idx j, valid_idx (asz a) idx -> 0 <= j < n ->
         let k := rowmajor (collapse sz) (amap a idx) in
            p_addr_brackets m (idx ++ [j]) = szT * k + j * szU
         /\ 0 <= k < prod sz
         /\ szT * k <= p_addr_brackets m (idx ++ [j]) /\ p_addr_brackets m (idx ++ [j]) + szU <= szT * (k + 1).
Proof. exact C12_reinterpret_extra_dim_from_root_proved. Qed.
Print Assumptions C12_reinterpret_extra_dim_from_root.

(* element_transformed(f): lazy, source extents, value = f (source element at access time) *)
Theorem C12_transformed :
  forall (A B : Type) (f : A -> B) (sz : list Z) (ops : list op) (v : view),
    reachable sz ops v ->
    let a := run_spec ops (root_spec sz) in
    let t := v_element_transformed v in
       shape_agrees t (asz a)
    /\ l_extensions (lay t) = l_extensions (lay v)
    /\ forall (s : Z -> A) idx, valid_idx (asz a) idx ->
            t_read f s v idx = f (v_read s v idx)
         /\ t_read f s v idx = f (s (rowmajor (collapse sz) (amap a idx))).
Proof. exact @C12_transformed_proved. Qed.
Print Assumptions C12_transformed.

(* ... and writes through when f yields a reference (f = get of a sub-object, put = its setter) *)
Theorem C12_transformed_write_through :
  forall (A B C : Type) (f : A -> B) (put : B -> A -> A),
    (forall x a, f (put x a) = x) ->
    forall g : A -> C, (forall x a, g (put x a) = g a) ->
    forall (s : Z -> A) (v : view) (idx : list Z) (x : B),
      let s' := t_write put s v idx x in
         t_read f s' v idx = x
      /\ f (v_read s' v idx) = x
      /\ g (v_read s' v idx) = g (v_read s v idx)
      /\ (forall k, k <> addr_brackets v idx -> s' k = s k)
      /\ (forall idx', addr_brackets v idx' <> addr_brackets v idx ->
            v_read s' v idx' = v_read s v idx' /\ t_read f s' v idx' = t_read f s v idx').
Proof. exact @C12_transformed_write_through_proved. Qed.
Print Assumptions C12_transformed_write_through.

(* static_array_cast, const_array_cast and as_const keep extents and element identity *)
Theorem C12_cast_identity :
  forall v : view,
       v_static_array_cast v = v /\ v_const_array_cast v = v /\ v_as_const v = v
    /\ (forall idx, addr_brackets (v_static_array_cast v) idx = addr_brackets v idx
                 /\ addr_brackets (v_const_array_cast v) idx = addr_brackets v idx
                 /\ addr_brackets (v_as_const v) idx = addr_brackets v idx)
    /\ l_extensions (lay (v_static_array_cast v)) = l_extensions (lay v)
    /\ l_extensions (lay (v_const_array_cast v)) = l_extensions (lay v)
    /\ l_extensions (lay (v_as_const v)) = l_extensions (lay v).
Proof. exact C12_cast_identity_proved. Qed.
Print Assumptions C12_cast_identity.

(* these views compose with the view algebra: operation after projection = projection after operation *)
Theorem C12_compose :
  forall (x : pview) (sz : list Z) (o : op) (p : proj),
    lay_ok (lay (p_view x)) sz -> c01_op o -> p_dom_op o x = true -> proj_admissible p x ->
       p_dom_op o (p_exec_proj p x) = true
    /\ lay_ok (lay (p_view (p_exec_op o (p_exec_proj p x)))) (spec_sz o sz)
    /\ lay_ok (lay (p_view (p_exec_proj p (p_exec_op o x)))) (spec_sz o sz)
    /\ p_esz (p_exec_op o (p_exec_proj p x)) = p_esz (p_exec_proj p (p_exec_op o x))
    /\ forall idx, valid_idx (spec_sz o sz) idx ->
         p_addr_brackets (p_exec_op o (p_exec_proj p x)) idx = p_addr_brackets (p_exec_proj p (p_exec_op o x)) idx.
Proof. exact C12_compose_proved. Qed.
Print Assumptions C12_compose.

(* ... reinterpret_array_cast<U>(n) (one more dimension) commutes with every operation on the leading dimensions
   (head_op: all of C01's operations except rotated / unrotated / reversed, which move the appended dimension) *)
Theorem C12_compose_extra_dim :
  forall (x : pview) (sz : list Z) (o : op) (szU n : Z),
    lay_ok (lay (p_view x)) sz -> c01_op o -> head_op o -> p_dom_op o x = true ->
    dom_reinterpret_n (p_esz x) szU n = true ->
       p_dom_op o (p_reinterpret_n szU n x) = true
    /\ lay_ok (lay (p_view (p_exec_op o (p_reinterpret_n szU n x)))) (spec_sz o sz ++ [n])
    /\ lay_ok (lay (p_view (p_reinterpret_n szU n (p_exec_op o x)))) (spec_sz o sz ++ [n])
    /\ forall idx j, valid_idx (spec_sz o sz) idx -> 0 <= j < n ->
         p_addr_brackets (p_exec_op o (p_reinterpret_n szU n x)) (idx ++ [j])
         = p_addr_brackets (p_reinterpret_n szU n (p_exec_op o x)) (idx ++ [j]).
Proof. exact C12_compose_extra_dim_proved. Qed.
Print Assumptions C12_compose_extra_dim.

(* ... and any further sequence of view operations acts on a projected view by the documented index maps *)
Theorem C12_compose_ops :
  forall (x : pview) (sz : list Z) (ops : list op) (y : pview),
    lay_ok (lay (p_view x)) sz -> Forall c01_op ops -> p_run_ops ops x = Some y ->
    let a := run_spec ops (mkaview sz (fun i => i)) in
       shape_agrees (p_view y) (asz a)
    /\ p_esz y = p_esz x
    /\ forall idx, valid_idx (asz a) idx ->
         valid_idx sz (amap a idx) /\ p_addr_brackets y idx = p_addr_brackets x (amap a idx).
Proof. exact C12_compose_ops_proved. Qed.
Print Assumptions C12_compose_ops.

(* constructing an array from any of them (or from a view of a convertible element type) preserves extents
   and converts element by element *)
Theorem C12_convert_construct :
  forall (A B : Type) (conv : A -> B) (rd : Z -> A) (sz : list Z) (ops : list op) (v : view),
    reachable sz ops v ->
    let a := run_spec ops (root_spec sz) in
    exists c, convert_construct conv rd (lay v) = Some c
      /\ l_extensions (c_lay c) = zb (collapse (asz a))
      /\ l_sizes (c_lay c) = collapse (asz a)
      /\ (prod (asz a) <> 0 -> collapse (asz a) = asz a)
      /\ length (c_data c) = Z.to_nat (prod (asz a))
      /\ forall idx, valid_idx (collapse (asz a)) idx ->
           c_at c idx = Some (conv (rd (l_addr (lay v) idx))).
Proof. exact C12_convert_construct_proved. Qed.
Print Assumptions C12_convert_construct.

Theorem C12_convert_construct_pview :
  forall (A B : Type) (conv : A -> B) (rdb : Z -> A) (x : pview) (sz : list Z),
    lay_ok (lay (p_view x)) sz ->
    exists c, convert_construct conv (fun k => rdb (p_ptr x + p_esz x * k)) (lay (p_view x)) = Some c
      /\ l_sizes (c_lay c) = collapse sz
      /\ forall idx, valid_idx (collapse sz) idx -> c_at c idx = Some (conv (rdb (p_addr_brackets x idx))).
Proof. exact C12_convert_construct_pview_proved. Qed.
Print Assumptions C12_convert_construct_pview.

(* ================================================================================================
   FOLLOW-UP 2: iterators of projected views, index bases, the other ways of making an array.
   proj_ok p x            = the assertion of layout_t::scale holds (stride*sizeof(T) % sizeof(U) == 0 at every level)
   pv_same a b            = same layout, same element size, same byte value of the base pointer (hence the same
                            byte address for every index tuple: Proofs.ProjectC12Walk.pv_same_addr_brackets)
   p_it_deref M it        = what *it designates (a sub-view; an element for rank 1), p_index r x = x[r]
   run_a tr / run_e tr    = any finite trace of ++ -- += -= (Model/Iter.v), run_pos tr 0 = the integer it computes
   ================================================================================================ *)

(* The leading iterator of a projected view, after any iterator arithmetic, is at the position the arithmetic
   computes, and at every dereferenceable position r it designates (a) what indexing designates and (b) the
   projection of the source's r-th sub-view; it[k], *reverse_iterator(it) and reverse_iterator(it)[k] are the
   dereferences at positions q+k, q-1, q-1-k.  All four projection kinds (member_cast, reinterpret_array_cast<U>(),
   reinterpret_array_cast<U>(n), the casts that keep (layout, base) incl. element_transformed), any rank >= 1,
   any extents, strides, traces. *)
Theorem C12_projected_iterator_lead :
  forall (x : pview) (n : Z) (sz : list Z) (p : proj),
    lay_ok (lay (p_view x)) (n :: sz) -> 0 < n -> proj_ok p x -> proj_count_ok p ->
    let M := p_exec_proj p x in
    let b := p_it_begin M in
    forall tr : list iop,
      let q := run_pos tr 0 in
      let it := run_a tr b in
         it = it_add b q
      /\ it_diff it b = q /\ it_diff (p_it_end M) it = n - q
      /\ (forall r, 0 <= r < n ->
              p_it_deref M (it_add b r) = p_index r M
           /\ pv_same (p_it_deref M (it_add b r)) (p_exec_proj p (p_index r x))
           /\ lay_ok (lay (p_view (p_it_deref M (it_add b r)))) (proj_sizes p sz))
      /\ (0 <= q < n -> p_it_deref M it = p_it_deref M (it_add b q))
      /\ (forall k, p_it_index M it k = p_it_deref M (it_add b (q + k)))
      /\ p_rit_deref M it = p_it_deref M (it_add b (q - 1))
      /\ (forall k, p_rit_index M it k = p_it_deref M (it_add b (q - 1 - k))).
Proof. exact C12_projected_iterator_lead_proved. Qed.
Print Assumptions C12_projected_iterator_lead.

(* The same for views with ANY index base f (roots over based extensions, reindexed views), for the casts that
   keep layout and base pointer (static_array_cast, const_array_cast, as_const, element_transformed): the iterator
   at position r designates cast (v[f + r]); an element_transformed iterator reads g (source element). *)
Theorem C12_projected_iterator_any_base :
  forall (v : view) (d : dim) (l : layout) (f n : Z) (c : view -> view),
    lay v = d :: l -> dim_okg d f n -> d_stride d <> 0 -> same_view_cast c ->
    forall tr : list iop,
      let q := run_pos tr 0 in
      let it := run_a tr (it_begin (c v)) in
         it = it_add (it_begin (c v)) q
      /\ it_diff it (it_begin (c v)) = q /\ it_diff (it_end (c v)) it = n - q
      /\ (forall r, 0 <= r < n -> it_deref (it_add (it_begin (c v)) r) = c (v_index (f + r) v))
      /\ (forall k, it_index it k = it_deref (it_add (it_begin (c v)) (q + k)))
      /\ it_deref (it_dec it) = it_deref (it_add (it_begin (c v)) (q - 1))
      /\ (forall (A B : Type) (g : A -> B) (s : Z -> A) r idx, 0 <= r < n ->
            t_read g s (it_deref (it_add (it_begin (v_element_transformed v)) r)) idx = g (v_read s (v_index (f + r) v) idx)).
Proof. exact C12_projected_iterator_any_base_proved. Qed.
Print Assumptions C12_projected_iterator_any_base.

(* The flat iterators (elements().begin()/end()) of a projected view: after any trace inside [begin, end] the
   iterator is at position q, *it and it[k] are at the byte address of the projected element at the q-th / (q+k)-th
   index tuple in canonical order (last index fastest), which for the rank-preserving projections is the source
   element's address plus the member offset. *)
Theorem C12_projected_iterator_flat :
  forall (x : pview) (sz : list Z) (p : proj),
    lay_ok (lay (p_view x)) sz -> proj_ok p x -> proj_count_ok p ->
    Forall (fun n => 0 < n) (proj_sizes p sz) ->
    let M := p_exec_proj p x in
    let N := er_size (p_view M) in
    forall tr : list iop, trace_ok N 0 tr = true ->
      let q := run_pos tr 0 in
      let it := run_e tr (p_e_begin M) in
         en it = q /\ 0 <= q <= N /\ N = prod (proj_sizes p sz)
      /\ e_diff it (p_e_begin M) = q /\ e_diff (p_e_end M) it = N - q
      /\ (q < N -> valid_idx (proj_sizes p sz) (canon (p_view M) q)
                /\ p_e_deref M it = p_addr_brackets M (canon (p_view M) q))
      /\ (forall k, p_e_index M it k = p_addr_brackets M (canon (p_view M) (q + k)))
      /\ (forall k, 0 <= k < N ->
            valid_idx (proj_sizes p sz) (canon (p_view M) k)
         /\ rowmajor (proj_sizes p sz) (canon (p_view M) k) = k)
      /\ (forall idx,
            match p with
            | PReinterpretN _ _ => True
            | _ => p_addr_brackets M idx = p_addr_brackets x idx + proj_off p
            end).
Proof. exact C12_projected_iterator_flat_proved. Qed.
Print Assumptions C12_projected_iterator_flat.

(* Index bases.  static_array_cast / const_array_cast / as_const / element_transformed of EVERY view reachable from a
   root built over arbitrary index extensions (operations of C01 and C19: reindexed, blocked; run_safe as in
   C19_rebase_transparent) are the same (layout, base); reading element idx (any idx inside the view's extensions)
   through element_transformed(g) gives g of the root element at the position the documented index maps prescribe
   for the zero-based twin program. *)
Theorem C12_identity_any_base :
  forall (A B : Type) (g : A -> B) (exts : list range) (ops : list op) (w : view),
    Forall (fun r => fst r <= snd r) exts ->
    run_safe ops (root_view exts) = true -> run_ops ops (root_view exts) = Some w ->
    let sz := map r_size exts in
    let a := run_spec (twin_ops ops (root_view exts)) (root_spec sz) in
       v_static_array_cast w = w /\ v_const_array_cast w = w /\ v_as_const w = w /\ v_element_transformed w = w
    /\ forall (s : Z -> A) idx, in_extl (lay w) idx ->
            t_read g s w idx = g (v_read s w idx)
         /\ v_read s w idx = s (rowmajor (collapse sz) (amap a (vsubz idx (firsts_of w))))
         /\ 0 <= rowmajor (collapse sz) (amap a (vsubz idx (firsts_of w))) < prod sz.
Proof. exact C12_identity_any_base_proved. Qed.
Print Assumptions C12_identity_any_base.

(* reinterpret_array_cast<U>() of a CONST rank-1 view has its own hand-written code (array_ref.hpp:3287-3295): any index
   base; only the stride assertion is made there (the general statement for both codes is C12_reinterpret_any_base) *)
Theorem C12_reinterpret_rank1_any_base :
  forall (x : pview) (d : dim) (f n szU : Z),
    lay (p_view x) = [d] -> dim_okg d f n -> 0 < p_esz x -> 0 < szU ->
    Z.rem (d_stride d * p_esz x) szU = 0 ->
    let m := p_reinterpret szU x in
    exists d', lay (p_view m) = [d'] /\ dim_okg d' f n /\ p_esz m = szU
      /\ l_extensions (lay (p_view m)) = l_extensions (lay (p_view x))
      /\ forall i, p_addr_brackets m [i] = p_addr_brackets x [i].
Proof. exact C12_reinterpret_rank1_any_base_proved. Qed.
Print Assumptions C12_reinterpret_rank1_any_base.

(* ================================================================================================
   FOLLOW-UP 3: layout_t::scale as repaired by /repo 1b46e17 (stride, OFFSET and nelems scaled; asserts that
   stride*num and offset*num are multiples of den).  member_cast / reinterpret_array_cast<U>() /
   reinterpret_array_cast<U>(n) are now defined on views with any index bases; the model (Model/ProjectC12.v)
   uses ProjectC12Based.l_scale_b everywhere, so the theorems above (zero-based, lay_ok) are about the same code.
   lay_okg l fn  = dimension k has (snd fn_k) valid indices starting at (fst fn_k), any sign (IterProofs.dim_okg);
   lok l         = such fn exists; every view reachable from a root over arbitrary extensions is lok.
   ================================================================================================ *)

(* What the assertions inside scale require, and that they hold: on every well-formed layout the new offset
   assertion follows from the stride assertion; sizeof(T) a multiple of sizeof(U) makes both true whatever the
   strides and index bases.  l_scale_b is C20's l_scale_fixed, and the pre-1b46e17 layout on zero offsets. *)
Theorem C12_scale_assertions :
     (forall num den l, dom_scale_b num den l = true <->
        Forall (fun d => Z.rem (d_stride d * num) den = 0 /\ Z.rem (d_offset d * num) den = 0) l)
  /\ (forall num den l, lok l -> dom_scale num den l = true -> dom_scale_b num den l = true)
  /\ (forall szT szU l, lok l -> szU <> 0 -> Z.rem szT szU = 0 -> dom_scale_b szT szU l = true)
  /\ (forall num den l, l_scale_b num den l = l_scale_fixed num den l /\ dom_scale_b num den l = asrt_scale_plain num den l)
  /\ (forall num den l, dom_scale_off l = true -> l_scale_b num den l = l_scale num den l)
  /\ (forall num den l sz, lay_ok l sz -> l_scale_b num den l = l_scale num den l).
Proof. exact C12_scale_assertions_proved. Qed.
Print Assumptions C12_scale_assertions.

(* Record of the old behaviour (code before 1b46e17): its assertion offset_ == 0 held on zero-based views only,
   and with assertions disabled the unscaled offset moved the index range ([2,5) became [1,4)). *)
Theorem C12_scale_old_code_refuted :
     (forall l sz, lay_ok l sz -> dom_scale_off l = true)
  /\ (forall d l f n, dim_okg d f n -> 0 < n -> f <> 0 -> dom_scale_off (d :: l) = false)
  /\ (exists l, lok l /\ dom_scale 16 8 l = true
                /\ l_extensions l = [(2, 5)] /\ l_extensions (l_scale 16 8 l) = [(1, 4)] /\ l_extensions (l_scale_b 16 8 l) = [(2, 5)]).
Proof. exact C12_scale_old_code_refuted_proved. Qed.
Print Assumptions C12_scale_old_code_refuted.

(* member_cast on a view with ANY index bases: both assertions of scale hold, the result has the index ranges
   (extensions) and sizes of the source, is again well-formed with the same first indices, and at EVERY index
   tuple designates byte offsetof(member) of the source element at the SAME index tuple. *)
Theorem C12_member_cast_any_base :
  forall (x : pview) (fn : list (Z * Z)) (szU moff : Z),
    lay_okg (lay (p_view x)) fn -> 0 < p_esz x -> 0 < szU ->
    dom_scale (p_esz x) szU (lay (p_view x)) = true ->
    let m := p_member_cast szU moff x in
       dom_scale_b (p_esz x) szU (lay (p_view x)) = true
    /\ lay_okg (lay (p_view m)) fn
    /\ l_extensions (lay (p_view m)) = l_extensions (lay (p_view x))
    /\ l_sizes (lay (p_view m)) = l_sizes (lay (p_view x))
    /\ p_esz m = szU
    /\ forall idx, p_addr_brackets m idx = p_addr_brackets x idx + moff.
Proof. exact C12_member_cast_any_base_proved. Qed.
Print Assumptions C12_member_cast_any_base.

(* reinterpret_array_cast<U>() (the generic code through scale and the hand-written rank-1 const& code), any index
   bases: same index ranges, every element stays at its address. *)
Theorem C12_reinterpret_any_base :
  forall (x : pview) (fn : list (Z * Z)) (szU : Z),
    lay_okg (lay (p_view x)) fn -> 0 < p_esz x -> 0 < szU ->
    dom_scale (p_esz x) szU (lay (p_view x)) = true ->
    let m := p_reinterpret szU x in
       dom_scale_b (p_esz x) szU (lay (p_view x)) = true
    /\ lay_okg (lay (p_view m)) fn
    /\ l_extensions (lay (p_view m)) = l_extensions (lay (p_view x))
    /\ l_sizes (lay (p_view m)) = l_sizes (lay (p_view x))
    /\ p_esz m = szU
    /\ forall idx, p_addr_brackets m idx = p_addr_brackets x idx.
Proof. exact C12_reinterpret_any_base_proved. Qed.
Print Assumptions C12_reinterpret_any_base.

(* reinterpret_array_cast<U>(n), any index bases: the source dimensions keep their index ranges, the added trailing
   dimension is [0, n) whatever the bases of the source, and element (idx, j) is at byte j*sizeof(U) of the source
   element idx (inside it when sizeof(T) = n*sizeof(U)). *)
Theorem C12_reinterpret_extra_dim_any_base :
  forall (x : pview) (fn : list (Z * Z)) (szU n : Z),
    lay_okg (lay (p_view x)) fn -> 0 < p_esz x -> 0 < szU -> 0 <= n ->
    dom_scale (p_esz x) szU (lay (p_view x)) = true ->
    let m := p_reinterpret_n szU n x in
       dom_scale_b (p_esz x) szU (lay (p_view x)) = true
    /\ lay_okg (lay (p_view m)) (fn ++ [(0, n)])
    /\ l_extensions (lay (p_view m)) = l_extensions (lay (p_view x)) ++ [(0, n)]
    /\ l_sizes (lay (p_view m)) = l_sizes (lay (p_view x)) ++ [n]
    /\ p_esz m = szU
    /\ forall idx j, length idx = length fn ->
            p_addr_brackets m (idx ++ [j]) = p_addr_brackets x idx + j * szU
         /\ (0 <= j < n -> p_esz x = szU * n ->
               p_addr_brackets x idx <= p_addr_brackets m (idx ++ [j])
            /\ p_addr_brackets m (idx ++ [j]) + szU <= p_addr_brackets x idx + p_esz x).
Proof. exact C12_reinterpret_extra_dim_any_base_proved. Qed.
Print Assumptions C12_reinterpret_extra_dim_any_base.

(* From the root: on EVERY view reachable from a root built over arbitrary index extensions by the operations of C01
   and C19 (run_safe as in C19_rebase_transparent), with sizeof(T) a multiple of sizeof(U) (the static_assert of the
   casts), every assertion of the projection holds for every receiver kind (p_dom_proj), the projected view has the
   source's index ranges, and element idx is the member / the bytes of the root element at the position the documented
   index maps of the zero-based twin program prescribe. *)
Theorem C12_member_cast_from_based_root :
  forall (exts : list range) (ops : list op) (w : view) (szT szU moff : Z),
    Forall (fun r => fst r <= snd r) exts ->
    run_safe ops (root_view exts) = true -> run_ops ops (root_view exts) = Some w ->
    dom_member szT szU moff = true ->
    let sz := map r_size exts in
    let a := run_spec (twin_ops ops (root_view exts)) (root_spec sz) in
    let m := p_member_cast szU moff (p_embed szT w) in
       p_dom_proj false (PMember szU moff) (p_embed szT w) = true
    /\ p_dom_proj true (PMember szU moff) (p_embed szT w) = true
    /\ l_extensions (lay (p_view m)) = l_extensions (lay w)
    /\ forall idx, in_extl (lay w) idx ->
         let k := rowmajor (collapse sz) (amap a (vsubz idx (firsts_of w))) in
            p_addr_brackets m idx = szT * addr_brackets w idx + moff
         /\ p_addr_brackets m idx = szT * k + moff
         /\ 0 <= k < prod sz
         /\ szT * k <= p_addr_brackets m idx /\ p_addr_brackets m idx + szU <= szT * (k + 1).
Proof. exact C12_member_cast_from_based_root_proved. Qed.
Print Assumptions C12_member_cast_from_based_root.

Theorem C12_reinterpret_from_based_root :
  forall (exts : list range) (ops : list op) (w : view) (szT szU : Z),
    Forall (fun r => fst r <= snd r) exts ->
    run_safe ops (root_view exts) = true -> run_ops ops (root_view exts) = Some w ->
    0 < szT -> 0 < szU -> Z.rem szT szU = 0 ->
    let sz := map r_size exts in
    let a := run_spec (twin_ops ops (root_view exts)) (root_spec sz) in
    let m := p_reinterpret szU (p_embed szT w) in
       (forall constref, p_dom_proj constref (PReinterpret szU) (p_embed szT w) = true)
    /\ l_extensions (lay (p_view m)) = l_extensions (lay w)
    /\ forall idx, in_extl (lay w) idx ->
         let k := rowmajor (collapse sz) (amap a (vsubz idx (firsts_of w))) in
            p_addr_brackets m idx = szT * addr_brackets w idx
         /\ p_addr_brackets m idx = szT * k
         /\ 0 <= k < prod sz.
Proof. exact C12_reinterpret_from_based_root_proved. Qed.
Print Assumptions C12_reinterpret_from_based_root.

Theorem C12_reinterpret_extra_dim_from_based_root :
  forall (exts : list range) (ops : list op) (w : view) (szT szU n : Z),
    Forall (fun r => fst r <= snd r) exts ->
    run_safe ops (root_view exts) = true -> run_ops ops (root_view exts) = Some w ->
    dom_reinterpret_n szT szU n = true ->
    let sz := map r_size exts in
    let a := run_spec (twin_ops ops (root_view exts)) (root_spec sz) in
    let m := p_reinterpret_n szU n (p_embed szT w) in
       (forall constref, p_dom_proj constref (PReinterpretN szU n) (p_embed szT w) = true)
    /\ l_extensions (lay (p_view m)) = l_extensions (lay w) ++ [(0, n)]
    /\ forall idx j, in_extl (lay w) idx -> 0 <= j < n ->
         let k := rowmajor (collapse sz) (amap a (vsubz idx (firsts_of w))) in
            p_addr_brackets m (idx ++ [j]) = szT * k + j * szU
         /\ 0 <= k < prod sz
         /\ szT * k <= p_addr_brackets m (idx ++ [j]) /\ p_addr_brackets m (idx ++ [j]) + szU <= szT * (k + 1).
Proof. exact C12_reinterpret_extra_dim_from_based_root_proved. Qed.
Print Assumptions C12_reinterpret_extra_dim_from_based_root.

(* Conversion-construction from every re-based reachable view: always defined; when the view has elements the new
   array has the SAME extensions (first indices included) and element idx = conv (source element idx) for every
   idx inside them; when it has none the array is empty. *)
Theorem C12_convert_construct_any_base :
  forall (A B : Type) (conv : A -> B) (rd : Z -> A) (exts : list range) (ops : list op) (w : view),
    Forall (fun r => fst r <= snd r) exts ->
    run_safe ops (root_view exts) = true -> run_ops ops (root_view exts) = Some w ->
    exists c, convert_construct conv rd (lay w) = Some c
      /\ (Forall (fun n => 0 < n) (l_sizes (lay w)) ->
             l_extensions (c_lay c) = l_extensions (lay w)
          /\ l_sizes (c_lay c) = l_sizes (lay w)
          /\ length (c_data c) = Z.to_nat (l_num_elements (lay w))
          /\ forall idx, in_ext (l_extensions (lay w)) idx ->
               c_at c idx = Some (conv (rd (l_addr (lay w) idx))))
      /\ (l_num_elements (lay w) = 0 ->
             c_data c = [] /\ l_num_elements (c_lay c) = 0 /\ c_lay c = mk_layout (l_extensions (lay w))).
Proof. exact C12_convert_construct_any_base_proved. Qed.
Print Assumptions C12_convert_construct_any_base.

(* ... the same for any well-formed layout (lay_okg: any first indices, any strides), which also covers projected
   views; assignment from a view/array of another element type (convert_assign) denotes the same value *)
Theorem C12_convert_construct_based :
  forall (A B : Type) (conv : A -> B) (rd : Z -> A) (l : layout) (fn : list (Z * Z)),
    lay_okg l fn -> Forall (fun p => 0 < snd p) fn ->
    exists c, convert_construct conv rd l = Some c
      /\ convert_assign conv rd l = Some c
      /\ l_extensions (c_lay c) = l_extensions l
      /\ l_sizes (c_lay c) = map snd fn
      /\ length (c_data c) = Z.to_nat (l_num_elements l)
      /\ forall idx, in_ext (l_extensions l) idx -> c_at c idx = Some (conv (rd (l_addr l idx))).
Proof. exact C12_convert_construct_based_proved. Qed.
Print Assumptions C12_convert_construct_based.

(* array(first, last) over the iterators of a view: the leading index range restarts at 0, inner extensions and
   elements are kept (array.hpp:250-271) *)
Theorem C12_convert_iter_pair :
  forall (A B : Type) (conv : A -> B) (rd : Z -> A) (l : layout) (fn : list (Z * Z)) (r : range) (X : list range),
    lay_okg l fn -> Forall (fun p => 0 < snd p) fn -> l_extensions l = r :: X ->
    exists c, convert_iter_pair conv rd l = Some c
      /\ l_extensions (c_lay c) = (0, r_size r) :: X
      /\ length (c_data c) = Z.to_nat (l_num_elements l)
      /\ forall i idx, in_ext (r :: X) (i :: idx) -> c_at c ((i - fst r) :: idx) = Some (conv (rd (l_addr l (i :: idx)))).
Proof. exact C12_convert_iter_pair_proved. Qed.
Print Assumptions C12_convert_iter_pair.

(* array<T2,1>(view.elements()): element k is the conversion of the k-th element in canonical order *)
Theorem C12_convert_flat :
  forall (A B : Type) (conv : A -> B) (rd : Z -> A) (l : layout) (fn : list (Z * Z)),
    lay_okg l fn -> Forall (fun p => 0 < snd p) fn ->
    exists c, convert_flat conv rd l = Some c
      /\ l_extensions (c_lay c) = [(0, l_num_elements l)]
      /\ forall k, 0 <= k < l_num_elements l ->
           c_at c [k] = Some (conv (rd (l_addr l (x_from_linear (l_extensions l) k)))).
Proof. exact C12_convert_flat_proved. Qed.
Print Assumptions C12_convert_flat.

(* C05 -- Assignment through views is deep and writes exactly the viewed elements.
   e_addr v k is the address of the k-th element of v.elements() (C02: the k-th index tuple in canonical
   order).  inj_upto: distinct positions are distinct cells; disj_upto: destination and source share no cell;
   outside: an address that is no element of the view.  Nothing here can rebind or resize: views are inputs only. *)
From BM Require Import Base.Tactics Model.Layout Model.View Model.Spec Model.Iter Model.Assign Model.Rebase
  Proofs.LayoutProofs Proofs.IterProofs Proofs.ElemProofs Proofs.AssignProofs Proofs.C05Main.
Local Open Scope Z_scope.

Theorem C05_assign_exact :
  forall (conv : Z -> Z) (dst src : view) (m : mem),
    er_size dst = er_size src ->
    inj_upto (e_addr dst) (nel dst) -> disj_upto (e_addr dst) (e_addr src) (nel dst) ->
    let m' := assign_view conv dst src m in
       (forall k, 0 <= k < er_size dst -> m' (e_addr dst k) = mkcell (conv (c_val (m (e_addr src k)))) false)
    /\ (forall p, outside (e_addr dst) (nel dst) p -> m' p = m p).
Proof. exact C05_assign_exact_proved. Qed.
Print Assumptions C05_assign_exact.

Theorem C05_moved_exact :
  forall (dst src : view) (m : mem),
    er_size dst = er_size src ->
    inj_upto (e_addr dst) (nel dst) -> inj_upto (e_addr src) (nel dst) -> disj_upto (e_addr dst) (e_addr src) (nel dst) ->
    let m' := move_view dst src m in
       (forall k, 0 <= k < er_size dst ->
          m' (e_addr dst k) = mkcell (c_val (m (e_addr src k))) false
       /\ m' (e_addr src k) = mkcell (c_val (m (e_addr src k))) true)
    /\ (forall p, outside (e_addr dst) (nel dst) p -> outside (e_addr src) (nel dst) p -> m' p = m p).
Proof. exact C05_move_exact_proved. Qed.
Print Assumptions C05_moved_exact.

Theorem C05_fill :
  forall (x : Z) (dst : view) (m : mem),
    let m' := fill_view x dst m in
       (forall k, 0 <= k < er_size dst -> m' (e_addr dst k) = mkcell x false)
    /\ (forall p, outside (e_addr dst) (nel dst) p -> m' p = m p).
Proof. exact C05_fill_proved. Qed.
Print Assumptions C05_fill.

Theorem C05_swap :
  forall (a b : view) (m : mem),
    inj_upto (e_addr a) (nel a) -> inj_upto (e_addr b) (nel a) -> disj_upto (e_addr a) (e_addr b) (nel a) ->
    let m' := swap_views a b m in
       (forall k, 0 <= k < er_size a -> m' (e_addr a k) = m (e_addr b k) /\ m' (e_addr b k) = m (e_addr a k))
    /\ (forall p, outside (e_addr a) (nel a) p -> outside (e_addr b) (nel a) p -> m' p = m p).
Proof. exact C05_swap_proved. Qed.
Print Assumptions C05_swap.

Theorem C05_assign_values :
  forall (vals : list Z) (dst : view) (m : mem),
    inj_upto (e_addr dst) (nel dst) ->
    let m' := assign_vals vals dst m in
       (forall k, 0 <= k < er_size dst -> m' (e_addr dst k) = mkcell (nth (Z.to_nat k) vals 0) false)
    /\ (forall p, outside (e_addr dst) (nel dst) p -> m' p = m p).
Proof. exact C05_assign_vals_proved. Qed.
Print Assumptions C05_assign_values.

(* position k is the same logical index tuple on both sides, whatever the layouts and index bases *)
Theorem C05_logical_order :
  forall (dst src : view) fd fs,
    lay_okg (lay dst) fd -> lay_okg (lay src) fs ->
    Forall (fun p => 0 < snd p) fd -> map snd fd = map snd fs ->
    forall k,
       e_addr dst k = v_addr dst (canon dst k) /\ e_addr src k = v_addr src (canon src k)
    /\ vsubz (canon dst k) (firsts_of dst) = vsubz (canon src k) (firsts_of src).
Proof. exact C05_logical_order_proved. Qed.
Print Assumptions C05_logical_order.

(* The injectivity premise holds for every view reachable as in C01 (any rank, extents, operation sequence):
   distinct valid index tuples designate distinct elements, so distinct positions of elements() are distinct cells. *)
From BM Require Import Proofs.ViewProofs2 Proofs.InjProofs.
Theorem C05_reachable_views_are_injective :
  forall (sz : list Z) (ops : list op) (v : view),
    Forall (fun n => 0 <= n) sz -> Forall c01_op ops -> run_ops ops (root_view (zb sz)) = Some v ->
    let a := run_spec ops (root_spec sz) in
    (forall i j, valid_idx (asz a) i -> valid_idx (asz a) j -> v_addr v i = v_addr v j -> i = j)
    /\ (Forall (fun n => 0 < n) (asz a) -> inj_upto (e_addr v) (nel v)).
Proof. exact reachable_injective_proved. Qed.
Print Assumptions C05_reachable_views_are_injective.

(* Compactness is not canonical order: a block copy (Model/AssignFlat.v flat_copy = copy_n(src.base(), n, dst.base())) is
   NOT assignment even when both operands are gap-free (is_compact()), have equal extensions and disjoint storage --
   only C05_assign_exact's element-by-element semantics over elements() is.  (Seed C05-s10, DESIGN section 9.) *)
From BM Require Import Model.AssignFlat Proofs.AssignFlatProofs.
Theorem C05_block_copy_refuted :
  exists (dst src : view) (m : mem) (k : Z),
       v_is_compact dst = true /\ v_is_compact src = true
    /\ l_extensions (lay dst) = l_extensions (lay src)
    /\ er_size dst = er_size src
    /\ (forall i j, 0 <= i < er_size dst -> 0 <= j < er_size src -> e_addr dst i <> e_addr src j)
    /\ 0 <= k < er_size dst
    /\ c_val (flat_copy (Z.to_nat (er_size dst)) (base dst) (base src) m (e_addr dst k))
       <> c_val (assign_view (fun x => x) dst src m (e_addr dst k)).
Proof. exact block_copy_refuted_proved. Qed.
Print Assumptions C05_block_copy_refuted.

(* C08 -- every element is constructed once and destroyed once; storage is returned.
   Model: Model/Life.v (the interpreter checks every transition: constructing over a live object, destroying / reading /
   assigning a raw one, deallocating an unknown or already released block, with the wrong size or through an unequal
   allocator, or with elements still alive, all return Err).  This file holds only the property theorems, each closed by
   `exact`, with Print Assumptions. *)
From BM Require Import Base.Tactics Model.Life Proofs.LifeMonad Proofs.LifeInv Proofs.LifeOps Proofs.LifeMain Proofs.LifeFacts
  Proofs.LifeVal4 Proofs.LifeVal10.
Local Open Scope Z_scope.

(* Every fault-free history of array.hpp entry points in its documented domain runs without a single illegal
   transition (every outcome is OutOk, none is OutErr), and afterwards every array object with elements is backed by
   exactly one live block of exactly num_elements() constructed cells, no two objects share a block, every live block
   is owned by an array object, and every released block has all its cells destroyed. *)
Theorem C08_lifetime_invariant :
  forall cfg, (1 <= c_rank cfg)%nat -> forall (h : list lop), hist_dom cfg h (st0 None) ->
    let '(outs, s') := run_life cfg h (st0 None) in
    Good cfg s' /\ Forall (fun o => o = OutOk) outs.
Proof. exact life_safe_nofault. Qed.
Print Assumptions C08_lifetime_invariant.

Theorem C08_balanced_at_end :
  forall cfg, (1 <= c_rank cfg)%nat -> forall s, Good cfg s -> (forall r, (r < NP)%nat -> get_slot s r = None) ->
    live_blocks s = [] /\ (c_tdtor cfg = false -> alive_cells s = 0).
Proof. exact balanced_at_end. Qed.
Print Assumptions C08_balanced_at_end.

Theorem C08_trivial_not_written :
  forall cfg, (1 <= c_rank cfg)%nat -> forall r a x s s', c_tdc cfg = true -> step cfg (OCtorSized r a x) s = Ok tt s' ->
    exists a', get_slot s' r = Some a' /\
      (0 < bnumel x -> exists b blk, a_base a' = PBlk b /\ get_blk s' b = Some blk /\ b_cells blk = repeat Raw (Z.to_nat (bnumel x))).
Proof. exact sized_ctor_trivial_not_written. Qed.
Print Assumptions C08_trivial_not_written.

(* reextent(x) without a fill value does not write the new elements of ANY trivially default constructible element type
   (c_tdc; nothing is assumed about the copy operations: also a type that is not std::is_trivial): they still read the
   allocator's paint *)
Theorem C08_reextent_trivial_not_written :
  forall cfg, (1 <= c_rank cfg)%nat -> forall r x s s' idx, c_tdc cfg = true -> Good cfg s -> pool_ok cfg (abs_state s) ->
    dom_op cfg (s_arrs s) (OReextent r x None) -> val_dom cfg (OReextent r x None) ->
    step cfg (OReextent r x None) s = Ok tt s' -> bx_eq x (fst (vget (abs_state s) r)) = false ->
    in_bx (norm_bx x) idx = true -> in_bx (fst (vget (abs_state s) r)) idx = false ->
    nth (Z.to_nat (rowmajor (norm_bx x) idx)) (snd (vget (abs_state s') r)) pat = pat.
Proof. exact reextent_new_not_written. Qed.
Print Assumptions C08_reextent_trivial_not_written.

(* C04, C05, C07, C09, C10 at dimensionality 0 -- rank-0 owning arrays (static_array<T, 0, A> / array<T, 0, A>) and rank-0 references
   (array_ref<T, 0>, subarray<T, 0>, const versions).  Model: Model/LifeRank0.v (programs over the checked micro-steps of
   Model/Life.v).  This file holds only the property theorems, each closed by `exact`, with Print Assumptions.
   Every theorem holds for every configuration cfg: element kind (trivially default constructible / trivially destructible /
   trivially copyable or not) and, for C10 (last section), every combination of propagate_on_container_{copy_assignment,
   move_assignment, swap}, is_always_equal and what select_on_container_copy_construction returns; allocator instances are
   integers, equal iff always-equal or same id (std::pmr::polymorphic_allocator: no trait set, socc = the default resource). *)
From BM Require Import Base.Tactics Model.Life Model.LifeRank0 Proofs.LifeMonad Proofs.LifeInv Proofs.LifeOps Proofs.LifeMain
  Proofs.LifeRank0Inv Proofs.LifeRank0Main Proofs.LifeRank0Val Proofs.LifeRank0Sem Proofs.LifeRank0Cmp Proofs.LifeRank0Copies
  Proofs.LifeRank0Final Proofs.LifeFacts Proofs.LifeRank0Alloc.
Local Open Scope Z_scope.

(* ================================ C04: value semantics of rank-0 owning arrays ================================ *)

(* After any fault-free history of rank-0 operations (all constructors, copy / move construction, assignment from arrays,
   elements, references and arrays of convertible element type, both swaps, element writes, moving the element out,
   destruction, assignment / swap through references into arrays and buffers) no step is illegal and the ownership invariant
   Good holds. *)
Theorem C04_rank0_history_invariant :
  forall cfg (h : list lop0), hist_dom0 cfg h (st0 None) ->
    let '(outs, s') := run_rank0 cfg h (st0 None) in Good cfg s' /\ Forall (fun o => o = OutOk) outs.
Proof. exact f_history_invariant. Qed.
Print Assumptions C04_rank0_history_invariant.

(* ... and with a fault injected at ANY fallible event of ANY history (allocation, element construction / assignment), provided
   it did not fire inside the element construction of a constructor (the block allocated in the mem-initializer is then not
   released: the rank >= 1 finding of C09, present at rank 0 too) *)
Theorem C04_rank0_history_invariant_under_faults :
  forall cfg (h : list lop0) k, hist_dom0 cfg h (st0 (Some k)) ->
    let '(outs, s') := run_rank0 cfg h (st0 (Some k)) in
    (forall w, In (EvThrow w) (s_ledger s') -> ok_site w) -> Good cfg s' /\ Forall not_err outs.
Proof. exact f_history_invariant_fault. Qed.
Print Assumptions C04_rank0_history_invariant_under_faults.

(* every rank-0 array object is backed by its own live block of exactly one constructed cell, from an allocator equal to its own *)
Theorem C04_rank0_one_constructed_cell :
  forall cfg s r a, Good cfg s -> get_slot s r = Some a -> is0 a ->
    exists b blk c, a_base a = PBlk b /\ get_blk s b = Some blk /\ b_live blk = true /\ b_size blk = 1
                    /\ b_cells blk = [c] /\ cell_init cfg c = true /\ alloc_eq cfg (b_owner blk) (a_alloc a) = true.
Proof. exact f_one_cell. Qed.
Print Assumptions C04_rank0_one_constructed_cell.

(* no two rank-0 array objects share storage *)
Theorem C04_rank0_storage_disjoint :
  forall cfg s r r' a a' b, Good cfg s -> get_slot s r = Some a -> get_slot s r' = Some a' ->
    is0 a -> is0 a' -> a_base a = PBlk b -> a_base a' = PBlk b -> r = r'.
Proof. exact f_storage_disjoint. Qed.
Print Assumptions C04_rank0_storage_disjoint.

(* the machine refines the reference interpreter over values (a pool of option (extensions, values); a rank-0 array is
   ([], [v])): run_values0 folds vstep0, which never mentions blocks, cells or allocators *)
Theorem C04_rank0_value_semantics :
  forall cfg (h : list lop0), hist_dom0 cfg h (st0 None) ->
    abs_state (snd (run_rank0 cfg h (st0 None))) = run_values0 cfg h (abs_state (st0 None)).
Proof. exact f_value_semantics. Qed.
Print Assumptions C04_rank0_value_semantics.

(* one commuting square per entry point (27), on any state satisfying the invariant *)
Theorem C04_rank0_operation_refines :
  forall cfg o s s', Good cfg s -> dom_op0 (s_arrs s) o -> step0 cfg o s = Ok tt s' -> abs_state s' = vstep0 cfg o (abs_state s).
Proof. exact f_operation_refines. Qed.
Print Assumptions C04_rank0_operation_refines.

(* copies are independent: a write to the copy is invisible to the source ... *)
Theorem C04_rank0_copy_independent :
  forall cfg r t v s s1 s2, Good cfg s ->
    dom_op0 (s_arrs s) (ZCtorCopy r t) -> step0 cfg (ZCtorCopy r t) s = Ok tt s1 ->
    dom_op0 (s_arrs s1) (ZWrite r v) -> step0 cfg (ZWrite r v) s1 = Ok tt s2 ->
    vget (abs_state s2) t = vget (abs_state s) t /\ vget (abs_state s2) r = (X0, [v]).
Proof. exact f_copy_independent. Qed.
Print Assumptions C04_rank0_copy_independent.

(* ... and a write to the source is invisible to the copy *)
Theorem C04_rank0_copy_independent_of_source :
  forall cfg r t v s s1 s2, Good cfg s ->
    dom_op0 (s_arrs s) (ZCtorCopy r t) -> step0 cfg (ZCtorCopy r t) s = Ok tt s1 ->
    dom_op0 (s_arrs s1) (ZWrite t v) -> step0 cfg (ZWrite t v) s1 = Ok tt s2 ->
    vget (abs_state s2) r = vget (abs_state s) t.
Proof. exact f_copy_independent_of_source. Qed.
Print Assumptions C04_rank0_copy_independent_of_source.

Theorem C04_rank0_copy_assign_value :
  forall cfg r t s s', Good cfg s -> dom_op0 (s_arrs s) (ZAssignCopy r t) -> step0 cfg (ZAssignCopy r t) s = Ok tt s' ->
    vget (abs_state s') r = vget (abs_state s) t /\ forall q, q <> r -> nth_error (abs_state s') q = nth_error (abs_state s) q.
Proof. exact f_copy_assign_value. Qed.
Print Assumptions C04_rank0_copy_assign_value.

(* move construction transfers the value without copying an element; the source is still a valid rank-0 array object
   (assignable, destructible) -- at rank 0 it cannot be empty -- and every other array object is untouched *)
Theorem C04_rank0_move_ctor_transfers :
  forall cfg r t s s', Good cfg s -> dom_op0 (s_arrs s) (ZCtorMove r t) ->
    step0 cfg (ZCtorMove r t) (reset_counts s) = Ok tt s' ->
    vget (abs_state s') r = vget (abs_state s) t /\ s_copies s' = 0 /\ Good cfg s' /\
    (forall q, q <> r -> nth_error (abs_state s') q = nth_error (abs_state s) q) /\ exists at_, live0 (s_arrs s') t at_.
Proof. exact f_move_ctor_transfers. Qed.
Print Assumptions C04_rank0_move_ctor_transfers.

(* move assignment: same; without allocator propagation no storage is acquired or released (with propagation and unequal
   allocators the target is re-housed under the source's allocator: C10_rank0_move_assign_follows_pocma) *)
Theorem C04_rank0_move_assign_transfers :
  forall cfg r t s s', Good cfg s -> dom_op0 (s_arrs s) (ZAssignMove r t) ->
    step0 cfg (ZAssignMove r t) (reset_counts s) = Ok tt s' ->
    vget (abs_state s') r = vget (abs_state s) t /\ s_copies s' = 0 /\ Good cfg s' /\
    (forall q, q <> r -> nth_error (abs_state s') q = nth_error (abs_state s) q) /\
    (c_pocma cfg = false -> length (s_blocks s') = length (s_blocks s)).
Proof. exact f_move_assign_transfers. Qed.
Print Assumptions C04_rank0_move_assign_transfers.

(* swap (using std::swap; swap(a, b) and a.swap(b)) exchanges the two values, copies no element, touches nothing else *)
Theorem C04_rank0_swap_exchanges :
  forall cfg o r t s s', (o = ZSwap r t \/ o = ZSwapMember r t) -> Good cfg s -> dom_op0 (s_arrs s) o ->
    step0 cfg o (reset_counts s) = Ok tt s' ->
    vget (abs_state s') r = vget (abs_state s) t /\ vget (abs_state s') t = vget (abs_state s) r /\ s_copies s' = 0 /\
    forall q, q <> r -> q <> t -> nth_error (abs_state s') q = nth_error (abs_state s) q.
Proof. exact f_swap_exchanges. Qed.
Print Assumptions C04_rank0_swap_exchanges.

(* none of the moving entry points (move construction, move assignment, both swaps, moving the element out, swap through
   references) copies an element, whether it returns or throws *)
Theorem C04_rank0_moves_copy_nothing :
  forall cfg o s, moving o -> match step0 cfg o s with Ok _ s' | Threw s' => s_copies s' = s_copies s | Err _ => True end.
Proof. exact f_moving_no_copy. Qed.
Print Assumptions C04_rank0_moves_copy_nothing.

(* self assignment changes nothing: the copy form does not even take a step ... *)
Theorem C04_rank0_self_copy_assign_noop : forall cfg r s s', step0 cfg (ZAssignCopy r r) s = Ok tt s' -> s' = s.
Proof. exact f_self_copy_assign_noop. Qed.
Print Assumptions C04_rank0_self_copy_assign_noop.

(* ... nor does the move form (with the self test of patch 15; without it the element is move-assigned to itself, which
   empties a std::vector element: found by the check with the element kind whose self move assignment is destructive) *)
Theorem C04_rank0_self_move_assign_noop : forall cfg r s s', step0 cfg (ZAssignMove r r) s = Ok tt s' -> s' = s.
Proof. exact f_self_move_assign_noop. Qed.
Print Assumptions C04_rank0_self_move_assign_noop.

(* assignment from an element / from a reference stores exactly that value and touches no other array object *)
Theorem C04_rank0_assign_element_exact :
  forall cfg r v s s', Good cfg s -> dom_op0 (s_arrs s) (ZAssignElem r v) -> step0 cfg (ZAssignElem r v) s = Ok tt s' ->
    vget (abs_state s') r = (X0, [v]) /\ forall q, q <> r -> nth_error (abs_state s') q = nth_error (abs_state s) q.
Proof. exact f_assign_elem_exact. Qed.
Print Assumptions C04_rank0_assign_element_exact.

Theorem C04_rank0_assign_reference_exact :
  forall cfg r q s s', Good cfg s -> dom_op0 (s_arrs s) (ZAssignRef r q) -> step0 cfg (ZAssignRef r q) s = Ok tt s' ->
    vget (abs_state s') r = (X0, [rval (abs_state s) q]) /\ forall t, t <> r -> nth_error (abs_state s') t = nth_error (abs_state s) t.
Proof. exact f_assign_ref_exact. Qed.
Print Assumptions C04_rank0_assign_reference_exact.

(* ================================ C05: assignment through rank-0 references ================================ *)

(* q = p, q = p.element_moved(), q = element (and q.fill(element)), the caller's own write through the conversion: exactly the
   element q designates takes the source's value; every other element of every array object and buffer keeps its value; no
   extensions change; no array object is rebound, no storage is acquired or released (mem_same) *)
Theorem C05_rank0_assign_exact :
  forall cfg o q v s s', Good cfg s -> dom_op0 (s_arrs s) o -> step0 cfg o s = Ok tt s' ->
    (exists p, (o = ZRefAssignRef q p \/ o = ZRefAssignMoved q p) /\ v = rval (abs_state s) p) \/ o = ZRefAssignElem q v \/ o = ZRefWrite q v ->
    rval (abs_state s') q = v /\
    (forall t k, (t <> rf_slot q \/ k <> rf_idx q) -> rval (abs_state s') (mkref0 t k) = rval (abs_state s) (mkref0 t k)) /\
    (forall t, fst (vget (abs_state s') t) = fst (vget (abs_state s) t)) /\ mem_same s s'.
Proof. exact f_ref_assign_exact. Qed.
Print Assumptions C05_rank0_assign_exact.

(* swap of two references exchanges the two designated elements and nothing else *)
Theorem C05_rank0_swap_exact :
  forall cfg q p s s', Good cfg s -> dom_op0 (s_arrs s) (ZRefSwap q p) -> step0 cfg (ZRefSwap q p) s = Ok tt s' ->
    abs_state s' = vput (vput (abs_state s) q (rval (abs_state s) p)) p (rval (abs_state s) q) /\ mem_same s s'.
Proof. exact f_ref_swap_exact. Qed.
Print Assumptions C05_rank0_swap_exact.

(* nothing that goes through a reference rebinds, resizes or reallocates *)
Theorem C05_rank0_never_rebinds :
  forall cfg o s s', through_refs o -> step0 cfg o s = Ok tt s' -> mem_same s s'.
Proof. exact f_through_refs_keep. Qed.
Print Assumptions C05_rank0_never_rebinds.

(* the clause "moving from a view (element_moved) moves from exactly the viewed elements" is FALSE of the rank-0 code: every
   rank-0 path reads the source through a pointer to const and copies.  Witness: E buf[2] = {1, 2}; q = array_ref(&buf[0]),
   p = array_ref(&buf[1]); q = p.element_moved(); buf[1] is not moved-from.  (known finding rank0-element-moved-copies) *)
Theorem C05_rank0_moved_refuted : ~ C05_rank0_moved_full.
Proof. exact moved_refuted. Qed.
Print Assumptions C05_rank0_moved_refuted.

(* ================================ C07: equality and ordering at rank 0 ================================ *)

(* every relational operator, on every pairing of operands (array, reference into a buffer or to an array's element,
   element value; const or not -- the model does not distinguish them), leaves the state alone and answers rel0 on the two
   abstract values *)
Theorem C07_rank0_compare_is_value_compare :
  forall cfg o l r s, Good cfg s -> operand_dom (s_arrs s) l -> operand_dom (s_arrs s) r ->
    cmp0 cfg o l r s = Ok (rel0 o (oval (abs_state s) l) (oval (abs_state s) r)) s.
Proof. exact f_compare. Qed.
Print Assumptions C07_rank0_compare_is_value_compare.

Theorem C07_rank0_eq_iff : forall x y, rel0 CEq x y = true <-> x = y.
Proof. exact rel0_eq_iff. Qed.
Print Assumptions C07_rank0_eq_iff.

Theorem C07_rank0_ne_negation : forall x y, rel0 CNe x y = negb (rel0 CEq x y).
Proof. exact rel0_ne_negation. Qed.
Print Assumptions C07_rank0_ne_negation.

(* std::lexicographical_compare over two one-element ranges is the element order *)
Theorem C07_rank0_lt_is_element_lt : forall x y, rel0 CLt x y = (x <? y).
Proof. exact rel0_lt_is_lt. Qed.
Print Assumptions C07_rank0_lt_is_element_lt.

Theorem C07_rank0_derived_ops : forall x y,
  rel0 CLe x y = (rel0 CLt x y || rel0 CEq x y) /\ rel0 CGt x y = rel0 CLt y x /\ rel0 CGe x y = rel0 CLe y x.
Proof. exact rel0_derived. Qed.
Print Assumptions C07_rank0_derived_ops.

Theorem C07_rank0_strict_order_irreflexive : forall x, rel0 CLt x x = false.
Proof. exact rel0_lt_irrefl. Qed.
Print Assumptions C07_rank0_strict_order_irreflexive.

Theorem C07_rank0_strict_order_transitive : forall x y z, rel0 CLt x y = true -> rel0 CLt y z = true -> rel0 CLt x z = true.
Proof. exact rel0_lt_trans. Qed.
Print Assumptions C07_rank0_strict_order_transitive.

Theorem C07_rank0_incomparability_transitive : forall x y z,
  rel0 CLt x y = false -> rel0 CLt y x = false -> rel0 CLt y z = false -> rel0 CLt z y = false ->
  rel0 CLt x z = false /\ rel0 CLt z x = false.
Proof. exact rel0_incomparable_trans. Qed.
Print Assumptions C07_rank0_incomparability_transitive.

(* exactly one of a < b, a == b, b < a (a rank-0 operand is never empty) *)
Theorem C07_rank0_trichotomy : forall x y,
  (rel0 CLt x y = true /\ rel0 CEq x y = false /\ rel0 CLt y x = false) \/
  (rel0 CLt x y = false /\ rel0 CEq x y = true /\ rel0 CLt y x = false) \/
  (rel0 CLt x y = false /\ rel0 CEq x y = false /\ rel0 CLt y x = true).
Proof. exact rel0_trichotomy. Qed.
Print Assumptions C07_rank0_trichotomy.

(* ================================ C10: allocators of rank-0 owning arrays ================================ *)
(* A rank-0 array always owns exactly one element, so there is no empty state to leave a moved-from object in, and the library
   never detaches a block from a rank-0 array object: "move" constructs / assigns THE ELEMENT by move.  What the clauses of C10
   say about every rank-0 entry point, for every trait configuration: *)

(* every block is obtained from and released through an allocator equal to the one that produced it: the interpreter answers
   Err EWrongAlloc / EWrongSize / EDoubleFree / EUnknownBlock otherwise, and for every trait configuration no step of any
   fault-free history in its domain is Err (and Good says: the owner of each object's block compares equal to its allocator) *)
Theorem C10_rank0_block_stays_with_allocator :
  forall cfg (h : list lop0), hist_dom0 cfg h (st0 None) ->
    let '(outs, s') := run_rank0 cfg h (st0 None) in Good cfg s' /\ Forall (fun o => o = OutOk) outs.
Proof. exact f_history_invariant. Qed.
Print Assumptions C10_rank0_block_stays_with_allocator.

(* ... also when an allocation or an element operation throws anywhere in the history (same exclusion as C04 / C09) *)
Theorem C10_rank0_block_stays_with_allocator_under_faults :
  forall cfg (h : list lop0) k, hist_dom0 cfg h (st0 (Some k)) ->
    let '(outs, s') := run_rank0 cfg h (st0 (Some k)) in
    (forall w, In (EvThrow w) (s_ledger s') -> ok_site w) -> Good cfg s' /\ Forall not_err outs.
Proof. exact f_history_invariant_fault. Qed.
Print Assumptions C10_rank0_block_stays_with_allocator_under_faults.

(* after every history each rank-0 array object sits on a live block produced by an allocator equal to get_allocator() *)
Theorem C10_rank0_block_owner_is_own_allocator :
  forall cfg (h : list lop0), hist_dom0 cfg h (st0 None) ->
    forall r a, get_slot (snd (run_rank0 cfg h (st0 None))) r = Some a -> is0 a ->
      exists b blk, a_base a = PBlk b /\ get_blk (snd (run_rank0 cfg h (st0 None))) b = Some blk /\ b_live blk = true /\
                    alloc_eq cfg (b_owner blk) (a_alloc a) = true.
Proof. exact history_block_owner0. Qed.
Print Assumptions C10_rank0_block_owner_is_own_allocator.

(* copy construction uses select_on_container_copy_construction (patch 16) and leaves the source object alone *)
Theorem C10_rank0_copy_ctor_uses_select_on_container_copy_construction :
  forall cfg r t s s' at_, get_slot s t = Some at_ -> step0 cfg (ZCtorCopy r t) s = Ok tt s' ->
    alloc_of s' r = Some (socc cfg (a_alloc at_)) /\ (r <> t -> get_slot s' t = Some at_).
Proof. exact ctor_copy_allocator0. Qed.
Print Assumptions C10_rank0_copy_ctor_uses_select_on_container_copy_construction.

(* move construction takes the source's allocator; the source keeps its allocator AND its block (its element is moved from) *)
Theorem C10_rank0_move_ctor_takes_source_allocator :
  forall cfg r t s s' at_, get_slot s t = Some at_ -> step0 cfg (ZCtorMove r t) s = Ok tt s' ->
    alloc_of s' r = Some (a_alloc at_) /\ (r <> t -> get_slot s' t = Some at_).
Proof. exact ctor_move_allocator0. Qed.
Print Assumptions C10_rank0_move_ctor_takes_source_allocator.

(* allocator-extended constructors -- (extensions, alloc), (alloc), (elem, alloc), (array const&, alloc), (array&&, alloc),
   (reference, alloc), (array of a convertible element type, alloc), the buffer -- use the supplied allocator; the converting
   single-argument constructor uses allocator_type{} *)
Theorem C10_rank0_ctor_uses_supplied_allocator :
  forall cfg o r a s s', supplied o = Some (r, a) -> step0 cfg o s = Ok tt s' -> alloc_of s' r = Some a.
Proof. exact ctor_supplied_allocator0. Qed.
Print Assumptions C10_rank0_ctor_uses_supplied_allocator.

(* copy assignment (patch 17) replaces the allocator exactly when propagate_on_container_copy_assignment; the source object is
   left alone; without propagation, or with equal allocators, the target keeps its block (the element is assigned in place);
   otherwise it is re-housed on a block from the new allocator; in no case does it hold the source's block *)
Theorem C10_rank0_copy_assign_follows_pocca :
  forall cfg r t s s' ar at_, Good cfg s -> live0 (s_arrs s) r ar -> live0 (s_arrs s) t at_ -> r <> t ->
    step0 cfg (ZAssignCopy r t) s = Ok tt s' ->
    alloc_of s' r = Some (if c_pocca cfg then a_alloc at_ else a_alloc ar) /\
    get_slot s' t = Some at_ /\
    (c_pocca cfg = false \/ alloc_eq cfg (a_alloc ar) (a_alloc at_) = true -> base_of s' r = Some (a_base ar)) /\
    base_of s' r <> Some (a_base at_) /\
    (forall q, q <> r -> get_slot s' q = get_slot s q).
Proof. exact copy_assign_allocator0. Qed.
Print Assumptions C10_rank0_copy_assign_follows_pocca.

(* move assignment (patch 18): the same with propagate_on_container_move_assignment.  In particular, moving between unequal
   non-propagating allocators (pmr arrays on different memory resources) never hands one allocator's block to the other: the
   source keeps its block and its allocator (get_slot s' t = Some at_), the target keeps its own *)
Theorem C10_rank0_move_assign_follows_pocma :
  forall cfg r t s s' ar at_, Good cfg s -> live0 (s_arrs s) r ar -> live0 (s_arrs s) t at_ -> r <> t ->
    step0 cfg (ZAssignMove r t) s = Ok tt s' ->
    alloc_of s' r = Some (if c_pocma cfg then a_alloc at_ else a_alloc ar) /\
    get_slot s' t = Some at_ /\
    (c_pocma cfg = false \/ alloc_eq cfg (a_alloc ar) (a_alloc at_) = true -> base_of s' r = Some (a_base ar)) /\
    base_of s' r <> Some (a_base at_) /\
    (forall q, q <> r -> get_slot s' q = get_slot s q).
Proof. exact move_assign_allocator0. Qed.
Print Assumptions C10_rank0_move_assign_follows_pocma.

(* a.swap(b) and unqualified swap(a, b) (patch 19): under propagate_on_container_swap allocator and block are exchanged
   TOGETHER; otherwise neither moves and the two elements are swapped *)
Theorem C10_rank0_swap_follows_pocs :
  forall cfg r t s s' ar at_, r <> t -> get_slot s r = Some ar -> get_slot s t = Some at_ ->
    step0 cfg (ZSwapMember r t) s = Ok tt s' ->
    alloc_of s' r = Some (if c_pocs cfg then a_alloc at_ else a_alloc ar) /\
    alloc_of s' t = Some (if c_pocs cfg then a_alloc ar else a_alloc at_) /\
    base_of s' r = Some (if c_pocs cfg then a_base at_ else a_base ar) /\
    base_of s' t = Some (if c_pocs cfg then a_base ar else a_base at_).
Proof. exact swap_member_allocators0. Qed.
Print Assumptions C10_rank0_swap_follows_pocs.

(* qualified std::swap(a, b) is the generic algorithm (a move construction and two move assignments): the allocators follow
   propagate_on_container_move_assignment *)
Theorem C10_rank0_std_swap_is_three_moves :
  forall cfg r t s s' ar at_, Good cfg s -> live0 (s_arrs s) r ar -> live0 (s_arrs s) t at_ -> r <> t ->
    step0 cfg (ZSwap r t) s = Ok tt s' ->
    alloc_of s' r = Some (if c_pocma cfg then a_alloc at_ else a_alloc ar) /\
    alloc_of s' t = Some (if c_pocma cfg then a_alloc ar else a_alloc at_) /\
    (forall q, q <> r -> q <> t -> get_slot s' q = get_slot s q).
Proof. exact swap_std_allocators0. Qed.
Print Assumptions C10_rank0_std_swap_is_three_moves.

(* every other entry point (assignment from elements / references / arrays of convertible type, writes, moving the element
   out, everything through references) leaves allocator and block of every array object alone *)
Theorem C10_rank0_elementwise_keeps_allocators :
  forall cfg o s s', elementwise o -> step0 cfg o s = Ok tt s' -> s_arrs s' = s_arrs s.
Proof. exact elementwise_keeps_objects0. Qed.
Print Assumptions C10_rank0_elementwise_keeps_allocators.

(* ================================ C09: failures at dimensionality 0 ================================ *)
(* For every configuration (element traits, allocator traits), every history of rank-0 operations in its domain and every
   single injection point k (the k-th fallible event -- allocation, element construction, copy / move construction or
   assignment -- throws): if the fault fired at an allocation or inside an element assignment (ok_site: not while an element
   is constructed into a block that no array object owns yet), then the exception reached the caller (the run goes on, no
   step is OutErr), the temporaries have been unwound and Good holds: no block and no element is leaked, nothing is destroyed
   or released twice, every array object of the pool is valid (one live constructed cell on a block of its own allocator).
   What is NOT proved here: that the failed operation leaves each array with its OLD or its NEW value -- the refinement to
   values (C04_rank0_value_semantics) is proved for fault-free histories only; the tie compares the elements of every object
   after every failed operation with the extracted machine run under the same fault oracle. *)
Theorem C09_rank0_fault_safety :
  forall cfg (h : list lop0) k, hist_dom0 cfg h (st0 (Some k)) ->
    let '(outs, s') := run_rank0 cfg h (st0 (Some k)) in
    (forall w, In (EvThrow w) (s_ledger s') -> ok_site w) -> Good cfg s' /\ Forall not_err outs.
Proof. exact f_history_invariant_fault. Qed.
Print Assumptions C09_rank0_fault_safety.

(* without the exclusion the statement is false: array<E, 0, A>(E{7}, A{1}) whose element copy throws leaks the block it
   allocated in the mem-initializer (every allocating rank-0 constructor has this shape; the rank >= 1 finding
   KF-C09-ctor-element-throw-leaks-block, present at rank 0: proposed KF-C09-rank0-ctor-element-throw-leaks-block) *)
Theorem C09_rank0_ctor_leak_refuted : ~ C09_rank0_full.
Proof. exact ctor_leak_refuted0. Qed.
Print Assumptions C09_rank0_ctor_leak_refuted.

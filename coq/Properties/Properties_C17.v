(* C17 -- Serialization round-trips every array exactly; a view saves exactly its own elements in
   canonical order and loads them back into exactly its footprint.
   This file holds only the property theorems, each closed by `exact`, with Print Assumptions.
   The archive primitives and the element codec are premises (codec_ok): they are Boost's and
   the element type's, not the library's. *)
From BM Require Import Base.Tactics Model.Layout Model.CodecArray Model.CodecView
  Proofs.CodecArrayProofs Proofs.CodecViewProofs Proofs.CodecLedgerProofs Proofs.C17Main.
From Coq Require Import Permutation.
Local Open Scope Z_scope.

(* any rank, any extents (zero sizes, index bases), any prior state of the receiving array of the
   same rank: empty, equal extents, different extents, equal count in another shape *)
Theorem C17_roundtrip_array :
  forall (value : Type) (dflt : value) (okv : value -> Prop) (token : Type)
         (enc_z : Z -> list token) (dec_z : list token -> option (Z * list token))
         (enc : value -> list token) (dec : value -> list token -> option (value * list token)),
    codec_ok value dflt okv token enc_z dec_z enc dec ->
    forall (a prior : carr value) (rest : list token),
      wf_arr okv a -> wf_arr okv prior -> ca_rank a = ca_rank prior ->
      load_array dflt dec_z dec prior (save_array enc_z enc a ++ rest) = Some (a, rest).
Proof. exact C17_roundtrip_array_proved. Qed.
Print Assumptions C17_roundtrip_array.

(* the same in the shape of DESIGN.md 5/C17: equal under the library's own == of extensions *)
Theorem C17_roundtrip_array_req :
  forall (value : Type) (dflt : value) (okv : value -> Prop) (token : Type)
         (enc_z : Z -> list token) (dec_z : list token -> option (Z * list token))
         (enc : value -> list token) (dec : value -> list token -> option (value * list token)),
    codec_ok value dflt okv token enc_z dec_z enc dec ->
    forall (a prior : carr value) (rest : list token),
      wf_arr okv a -> wf_arr okv prior -> ca_rank a = ca_rank prior ->
      exists a', load_array dflt dec_z dec prior (save_array enc_z enc a ++ rest) = Some (a', rest)
              /\ cx_eq (ca_exts a') (ca_exts a) = true
              /\ ca_elems a' = ca_elems a
              /\ wf_arr okv a'.
Proof. exact C17_roundtrip_array_req_proved. Qed.
Print Assumptions C17_roundtrip_array_req.

(* the archive holds the D reported ranges, then the elements in flat order, nothing else *)
Theorem C17_archive_contents :
  forall (value : Type) (okv : value -> Prop) (token : Type)
         (enc_z : Z -> list token) (enc : value -> list token) (a : carr value),
    wf_arr okv a ->
    save_array enc_z enc a
    = flat_map (fun r => enc_z (fst r) ++ enc_z (snd r)) (ca_exts a) ++ flat_map enc (ca_elems a).
Proof. exact C17_archive_contents_proved. Qed.
Print Assumptions C17_archive_contents.

(* element type = array (of any rank di) of a round-tripping element type: the premise about
   the element codec is discharged by the theorem itself *)
Theorem C17_roundtrip_nested :
  forall (value : Type) (dflt : value) (okv : value -> Prop) (token : Type)
         (enc_z : Z -> list token) (dec_z : list token -> option (Z * list token))
         (enc : value -> list token) (dec : value -> list token -> option (value * list token)),
    codec_ok value dflt okv token enc_z dec_z enc dec ->
    forall (di : nat) (a prior : carr (carr value)) (rest : list token),
      wf_arr (ok_inner value okv di) a -> wf_arr (ok_inner value okv di) prior -> ca_rank a = ca_rank prior ->
      load_array (dflt_inner value dflt di) dec_z (load_array dflt dec_z dec) prior
        (save_array enc_z (save_array enc_z enc) a ++ rest) = Some (a, rest).
Proof. exact C17_roundtrip_nested_proved. Qed.
Print Assumptions C17_roundtrip_nested.

(* a view saves exactly its elements in canonical (row-major index) order, and loading into a
   view of equal extents writes those values to exactly its footprint, in that order, and
   leaves every other cell as it was *)
Theorem C17_view_roundtrip_frame :
  forall (value : Type) (okv : value -> Prop) (token : Type)
         (enc : value -> list token) (dec : value -> list token -> option (value * list token)),
    (forall p v r, okv p -> okv v -> dec p (enc v ++ r) = Some (v, r)) ->
    forall (v w : cview) (s0 s : storage value) (rest : list token),
      cv_sizes v = cv_sizes w ->
      NoDup (cv_addrs w) ->
      (forall a, okv (s0 a)) -> (forall a, okv (s a)) ->
         save_view enc v s0 = flat_map enc (map s0 (cv_addrs v))
      /\ cv_addrs v = map (cv_addr v) (cx_indices (cv_extents v))
      /\ exists s',
           load_view dec w (save_view enc v s0 ++ rest) s = Some (s', rest)
        /\ map s' (cv_addrs w) = map s0 (cv_addrs v)
        /\ (forall a, ~ In a (cv_addrs w) -> s' a = s a)
        /\ (forall a, okv (s' a)).
Proof. exact C17_view_roundtrip_frame_proved. Qed.
Print Assumptions C17_view_roundtrip_frame.

(* the library does not compare extents when a view is loaded: equal element counts suffice *)
Theorem C17_view_roundtrip_count :
  forall (value : Type) (okv : value -> Prop) (token : Type) (enc : value -> list token)
         (dec : value -> list token -> option (value * list token)),
    (forall p v r, okv p -> okv v -> dec p (enc v ++ r) = Some (v, r)) ->
    forall (v w : cview) (s0 s : storage value) (rest : list token),
      length (cv_addrs v) = length (cv_addrs w) -> NoDup (cv_addrs w) ->
      (forall a, okv (s0 a)) -> (forall a, okv (s a)) ->
      exists s',
           load_view dec w (save_view enc v s0 ++ rest) s = Some (s', rest)
        /\ map s' (cv_addrs w) = map s0 (cv_addrs v)
        /\ (forall a, ~ In a (cv_addrs w) -> s' a = s a).
Proof. exact C17_view_roundtrip_count_proved. Qed.
Print Assumptions C17_view_roundtrip_count.

(* the NoDup premise holds for every sub-block / strided sub-block of a row-major array under
   any reordering of its dimensions (rotated, transposed, ...) *)
Theorem C17_view_injective :
  forall (b : Z) (dims dims' : list (Z * Z)),
    cv_dominant dims -> Permutation dims dims' -> NoDup (cv_addrs (mk_cview b dims')).
Proof. exact C17_view_injective_proved. Qed.
Print Assumptions C17_view_injective.

(* the extents an array reports (what is archived and compared) follow layout_t(extensions) of
   the C01 layout model: one zero extent empties every outer dimension, empty ranges lose
   their index base *)
Theorem C17_extents_rule :
  forall x : list (Z * Z),
    l_extensions (mk_layout x) = cx_collapse x /\ l_num_elements (mk_layout x) = cx_num x
    /\ cx_normal (cx_collapse x) /\ cx_num (cx_collapse x) = cx_num x.
Proof. exact C17_extents_rule_proved. Qed.
Print Assumptions C17_extents_rule.

(* the two instances that are executed against the library are instances of the theorems *)
Theorem C17_run_instance_flat :
  forall (a prior : carr Z) (rest : list Z),
    wf_arr any_z a -> wf_arr any_z prior -> ca_rank a = ca_rank prior ->
    load_flat prior (save_flat a ++ rest) = Some (a, rest).
Proof. exact roundtrip_flat_run. Qed.
Print Assumptions C17_run_instance_flat.

Theorem C17_run_instance_nested :
  forall (a prior : carr (carr Z)) (rest : list Z),
    wf_arr (ok_inner Z any_z 1) a -> wf_arr (ok_inner Z any_z 1) prior -> ca_rank a = ca_rank prior ->
    load_nested prior (save_nested a ++ rest) = Some (a, rest).
Proof. exact roundtrip_nested_run. Qed.
Print Assumptions C17_run_instance_nested.

(* the ledger of C08 across a load: starting from np owned cells / live elements, the steps
   array::serialize performs through the rvalue reextent (destroy, deallocate, allocate,
   value-construct) end with exactly num_elements of the archived array; the only block returned
   is the receiving array's own, the only block requested is the new one, neither of size 0 *)
Theorem C17_load_ledger :
  forall pexts x : list crange,
    cx_normal pexts -> cx_normal x ->
    ev_run (cx_num pexts, cx_num pexts) (load_events pexts x) = (cx_num x, cx_num x).
Proof. exact load_ledger. Qed.
Print Assumptions C17_load_ledger.

Theorem C17_load_returns_only_own_block :
  forall (pexts x : list crange) (n : Z),
    In (EvDealloc n) (load_events pexts x) -> n = cx_num pexts /\ n <> 0.
Proof. exact load_events_dealloc. Qed.
Print Assumptions C17_load_returns_only_own_block.

Theorem C17_load_requests_only_new_block :
  forall (pexts x : list crange) (n : Z),
    In (EvAlloc n) (load_events pexts x) -> n = cx_num x /\ n <> 0.
Proof. exact load_events_alloc. Qed.
Print Assumptions C17_load_requests_only_new_block.

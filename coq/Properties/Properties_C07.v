(* C07 -- Equality and ordering are deep, layout-independent and mutually consistent.
   v_tree v m is the nested value of view v in storage m; nothing in it depends on strides or base beyond the
   elements designated, so the statements are layout-independent by construction. *)
From BM Require Import Base.Tactics Model.Layout Model.View Model.Spec Model.Compare
  Proofs.LayoutProofs Proofs.CompareProofs Proofs.C07Main.
Local Open Scope Z_scope.

Theorem C07_eq_iff : forall a b sza szb m,
  lay_ok (lay a) sza -> lay_ok (lay b) szb ->
  (v_eq a b m = true <->
     x_eq (l_extensions (lay a)) (l_extensions (lay b)) = true /\ flat_t (v_tree a m) = flat_t (v_tree b m))
  /\ (sza = szb -> (flat_t (v_tree a m) = flat_t (v_tree b m) <-> v_tree a m = v_tree b m)).
Proof. exact C07_eq_iff_proved. Qed.
Print Assumptions C07_eq_iff.

Theorem C07_ne_negation : forall a b m, v_ne a b m = negb (v_eq a b m).
Proof. exact C07_ne_negation_proved. Qed.
Print Assumptions C07_ne_negation.

Theorem C07_derived_ops : forall a b m,
  v_le a b m = (v_eq a b m || v_lt a b m) /\ v_gt a b m = v_lt b a m /\ v_ge a b m = (v_gt a b m || v_eq a b m).
Proof. exact C07_derived_ops_proved. Qed.
Print Assumptions C07_derived_ops.

Theorem C07_strict_weak_order : forall a b c sza szb szc m,
  lay_ok (lay a) sza -> lay_ok (lay b) szb -> lay_ok (lay c) szc ->
  length sza = length szb -> length szb = length szc ->
  let D := length sza in
  let ta := v_tree a m in let tb := v_tree b m in let tc := v_tree c m in
     v_lt a b m = lt_depth D ta tb
  /\ v_lt a a m = false
  /\ (v_lt a b m = true -> v_lt b a m = false)
  /\ (v_lt a b m = true -> v_lt b c m = true -> v_lt a c m = true)
  /\ (v_lt a b m = false -> v_lt b a m = false -> ta = tb)
  /\ (v_lt a b m = false -> v_lt b a m = false -> v_lt b c m = false -> v_lt c b m = false ->
        v_lt a c m = false /\ v_lt c a m = false).
Proof. exact C07_order_proved. Qed.
Print Assumptions C07_strict_weak_order.

Theorem C07_trichotomy : forall a b sza szb m,
  lay_ok (lay a) sza -> lay_ok (lay b) szb -> length sza = length szb ->
  Forall (fun n => 0 < n) sza -> Forall (fun n => 0 < n) szb ->
     (v_eq a b m = true <-> v_tree a m = v_tree b m)
  /\ (   (v_lt a b m = true  /\ v_eq a b m = false /\ v_lt b a m = false)
      \/ (v_lt a b m = false /\ v_eq a b m = true  /\ v_lt b a m = false)
      \/ (v_lt a b m = false /\ v_eq a b m = false /\ v_lt b a m = true)).
Proof. exact C07_trichotomy_proved. Qed.
Print Assumptions C07_trichotomy.

Theorem C07_prefix_smaller : forall n l x r, Forall (wf n) l -> lt_depth (S n) (Node l) (Node (l ++ x :: r)) = true.
Proof. exact C07_prefix_smaller_proved. Qed.
Print Assumptions C07_prefix_smaller.

(* ---- any element equality (Model/CompareBy.v): the element type's own ==, no law assumed; ma / mb: what each operand
   reads (two projections of one storage read different values from the same addresses) ---- *)
From BM Require Import Model.CompareBy Proofs.CompareByProofs.

Theorem C07_eq_any_element_equality : forall (eqe : Z -> Z -> bool) a b ma mb,
  v_eq_by eqe a b ma mb = true <->
    x_eq (l_extensions (lay a)) (l_extensions (lay b)) = true
    /\ Forall2 (fun x y => eqe x y = true) (flat_t (v_tree a ma)) (flat_t (v_tree b mb)).
Proof. exact eq_by_iff_proved. Qed.
Print Assumptions C07_eq_any_element_equality.

Theorem C07_eq_by_generalises_eq : forall a b m, v_eq_by Z.eqb a b m m = v_eq a b m.
Proof. exact eq_by_Zeqb_proved. Qed.
Print Assumptions C07_eq_by_generalises_eq.

(* no shortcut on the identity of the operands is sound: a view equals ITSELF exactly when each element equals itself *)
Theorem C07_self_eq_iff_elements_reflexive : forall (eqe : Z -> Z -> bool) a m,
  v_eq_by eqe a a m m = true <-> Forall (fun x => eqe x x = true) (flat_t (v_tree a m)).
Proof. exact self_eq_iff_proved. Qed.
Print Assumptions C07_self_eq_iff_elements_reflexive.

Theorem C07_self_eq_with_nan : forall nan a m,
  v_eq_by (nan_eqb nan) a a m m = negb (existsb (Z.eqb nan) (flat_t (v_tree a m))).
Proof. exact self_eq_nan_proved. Qed.
Print Assumptions C07_self_eq_with_nan.

Theorem C07_ne_by_negation : forall eqe a b ma mb, v_ne_by eqe a b ma mb = negb (v_eq_by eqe a b ma mb).
Proof. exact ne_by_negation_proved. Qed.
Print Assumptions C07_ne_by_negation.

(* C10 -- storage stays with the allocator that produced it; propagation follows traits.  Model: Model/Life.v; cfg ranges
   over all combinations of propagate_on_container_{copy_assignment, move_assignment, swap}, is_always_equal and what
   select_on_container_copy_construction returns; allocator instances are integers, equal iff always-equal or same id.
   This file holds only the property theorems, each closed by `exact`, with Print Assumptions. *)
From BM Require Import Base.Tactics Model.Life Proofs.LifeMonad Proofs.LifeInv Proofs.LifeOps Proofs.LifeMain Proofs.LifeFacts Proofs.LifeAlloc.
Local Open Scope Z_scope.

(* The interpreter returns Err EWrongAlloc / EWrongSize / EDoubleFree / EUnknownBlock when a block is released through an
   allocator that does not compare equal to its producer, with another size, twice, or not at all known.  For every trait
   configuration and every fault-free history in its domain (the domain of swap is the standard's: propagating or equal
   allocators) no operation returns Err, and every array object's block was produced by an allocator equal to the one
   get_allocator() reports (arr_ok inside Good). *)
Theorem C10_block_stays_with_allocator :
  forall cfg, (1 <= c_rank cfg)%nat -> forall (h : list lop), hist_dom cfg h (st0 None) ->
    let '(outs, s') := run_life cfg h (st0 None) in
    Good cfg s' /\ Forall (fun o => o = OutOk) outs.
Proof. exact life_safe_nofault. Qed.
Print Assumptions C10_block_stays_with_allocator.

Theorem C10_copy_ctor_uses_select_on_container_copy_construction :
  forall cfg r t s s' at_, get_slot s t = Some at_ -> step cfg (OCtorCopy r t) s = Ok tt s' ->
    alloc_of s' r = Some (socc cfg (a_alloc at_)).
Proof. exact copy_ctor_allocator. Qed.
Print Assumptions C10_copy_ctor_uses_select_on_container_copy_construction.

Theorem C10_swap_follows_pocs :
  forall cfg r t s s' ar at_, r <> t -> get_slot s r = Some ar -> get_slot s t = Some at_ -> step cfg (OSwap r t) s = Ok tt s' ->
    alloc_of s' r = Some (if c_pocs cfg then a_alloc at_ else a_alloc ar) /\
    alloc_of s' t = Some (if c_pocs cfg then a_alloc ar else a_alloc at_).
Proof. exact swap_allocators. Qed.
Print Assumptions C10_swap_follows_pocs.

Theorem C10_sized_ctor_uses_supplied_allocator :
  forall cfg r a x s s', step cfg (OCtorSized r a x) s = Ok tt s' -> alloc_of s' r = Some a.
Proof. exact ctor_sized_allocator. Qed.
Print Assumptions C10_sized_ctor_uses_supplied_allocator.

Theorem C10_fill_ctor_uses_supplied_allocator :
  forall cfg r a x v s s', step cfg (OCtorFill r a x v) s = Ok tt s' -> alloc_of s' r = Some a.
Proof. exact ctor_fill_allocator. Qed.
Print Assumptions C10_fill_ctor_uses_supplied_allocator.

Theorem C10_copy_alloc_ctor_uses_supplied_allocator :
  forall cfg r t a s s', step cfg (OCtorCopyAlloc r t a) s = Ok tt s' -> alloc_of s' r = Some a.
Proof. exact ctor_copy_alloc_allocator. Qed.
Print Assumptions C10_copy_alloc_ctor_uses_supplied_allocator.

Theorem C10_view_ctor_uses_supplied_allocator :
  forall cfg r a t v s s', step cfg (OCtorView r a t v) s = Ok tt s' -> alloc_of s' r = Some a.
Proof. exact ctor_view_allocator. Qed.
Print Assumptions C10_view_ctor_uses_supplied_allocator.

Theorem C10_range_ctor_uses_supplied_allocator :
  forall cfg r a w s s', step cfg (OCtorRange r a w) s = Ok tt s' -> alloc_of s' r = Some a.
Proof. exact ctor_range_allocator. Qed.
Print Assumptions C10_range_ctor_uses_supplied_allocator.

Theorem C10_copy_assign_follows_pocca :
  forall cfg r t s s' ar at_, r <> t -> (r < NP)%nat -> length (s_arrs s) = NSLOTS ->
    get_slot s r = Some ar -> get_slot s t = Some at_ -> step cfg (OAssignCopy r t) s = Ok tt s' ->
    alloc_of s' r = Some (if c_pocca cfg then a_alloc at_ else a_alloc ar).
Proof. exact assign_copy_allocator. Qed.
Print Assumptions C10_copy_assign_follows_pocca.

Theorem C10_move_assign_follows_pocma :
  forall cfg r t s s' ar at_, r <> t -> (r < NP)%nat -> (t < NP)%nat -> length (s_arrs s) = NSLOTS ->
    get_slot s r = Some ar -> get_slot s t = Some at_ -> step cfg (OAssignMove r t) s = Ok tt s' ->
    alloc_of s' r = Some (if c_pocma cfg then a_alloc at_ else a_alloc ar) /\ alloc_of s' t = Some (a_alloc at_).
Proof. exact assign_move_allocator. Qed.
Print Assumptions C10_move_assign_follows_pocma.

Theorem C10_move_alloc_ctor_uses_supplied_allocator :
  forall cfg r t a s s', r <> t -> step cfg (OCtorMoveAlloc r t a) s = Ok tt s' -> alloc_of s' r = Some a.
Proof. exact ctor_move_alloc_allocator. Qed.
Print Assumptions C10_move_alloc_ctor_uses_supplied_allocator.

(* C03 -- Standard algorithms on begin()/end() ranges (references are proxy sub-views) and on elements() ranges act
   as on independent values; elements outside the view are left unchanged.
   prog          : every finite program over the operations an algorithm can perform on references of a
                   random-access range (read / take / write a value, copy / move / swap between positions,
                   < and == between positions and against values); positions are integers (C02).
   run_on_view   : executes it on the storage through the library's proxy assignment / swap / comparison (C05, C07 models).
   run_on_values : executes it on a list of independent values.
   rows_ok       : the rows have one zero-based shape and designate pairwise disjoint, internally injective cells, and
                   the shape has no zero extent under a non-zero one (collapse sz = sz: the named exclusion, see
                   C03_full / C03_full_refuted / C03_partial at the end).
   This file holds only the property theorems, each closed by `exact`, with Print Assumptions. *)
From BM Require Import Base.Tactics Model.Layout Model.View Model.Spec Model.Iter Model.Assign Model.Compare Model.C03Prog
  Proofs.LayoutProofs Proofs.ViewProofs2 Proofs.CompareProofs Proofs.C03Flat Proofs.C03Prims Proofs.C03Main Proofs.C03Ranges Proofs.C03Collapse Proofs.C03Algos Model.C03Moved Proofs.C03MovedProofs.
Local Open Scope Z_scope.

Theorem C03_representation_independence :
  forall (row : Z -> view) (n : Z) (sz : list Z), rows_ok row n sz ->
  forall (A : Type) (pr : prog A), prog_ok n sz pr ->
  forall (m : mem),
    let rv := run_on_view row pr m in
    let rl := run_on_values (length sz) pr (abs_rows row n m) in
       snd rv = snd rl
    /\ abs_rows row n (fst rv) = fst rl
    /\ (forall a, outside_rows row n sz a -> fst rv a = m a).
Proof. exact C03_representation_independence_proved. Qed.
Print Assumptions C03_representation_independence.

Theorem C03_begin_end :
  forall (v : view) (n : Z) (sz : list Z),
    lay_ok (lay v) (n :: sz) -> inj_view v (n :: sz) -> collapse sz = sz ->
  forall (A : Type) (pr : prog A), prog_ok n sz pr ->
  forall (m : mem),
    let rv := run_on_view (rows_of v) pr m in
    let rl := run_on_values (length sz) pr (abs_rows (rows_of v) n m) in
       snd rv = snd rl
    /\ abs_rows (rows_of v) n (fst rv) = fst rl
    /\ v_tree v (vals (fst rv)) = Node (fst rl)
    /\ (forall a, ~ In a (footprint v) -> fst rv a = m a).
Proof. exact C03_begin_end_proved. Qed.
Print Assumptions C03_begin_end.

Theorem C03_elements :
  forall (v : view) (sz : list Z),
    lay_ok (lay v) sz -> inj_view v sz ->
  forall (A : Type) (pr : prog A), prog_ok (prod sz) [] pr ->
  forall (m : mem),
    let rv := run_on_view (elems_of v) pr m in
    let rl := run_on_values 0 pr (map Leaf (flat_t (v_tree v (vals m)))) in
       snd rv = snd rl
    /\ map Leaf (flat_t (v_tree v (vals (fst rv)))) = fst rl
    /\ (forall a, ~ In a (footprint v) -> fst rv a = m a).
Proof. exact C03_elements_proved. Qed.
Print Assumptions C03_elements.

Theorem C03_reachable :
  forall (rsz : list Z) (ops : list op) (v : view),
    Forall (fun k => 0 <= k) rsz -> Forall c03_op ops -> run_ops ops (root_view (zb rsz)) = Some v ->
    let a := run_spec ops (root_spec rsz) in
    (forall n sz, asz a = n :: sz -> collapse sz = sz -> rows_ok (rows_of v) n sz /\
       forall (A : Type) (pr : prog A), prog_ok n sz pr -> forall m,
         let rv := run_on_view (rows_of v) pr m in
         let rl := run_on_values (length sz) pr (abs_rows (rows_of v) n m) in
         snd rv = snd rl /\ v_tree v (vals (fst rv)) = Node (fst rl) /\ (forall x, ~ In x (footprint v) -> fst rv x = m x))
    /\ (rows_ok (elems_of v) (prod (asz a)) [] /\
        forall (A : Type) (pr : prog A), prog_ok (prod (asz a)) [] pr -> forall m,
         let rv := run_on_view (elems_of v) pr m in
         let rl := run_on_values 0 pr (map Leaf (flat_t (v_tree v (vals m)))) in
         snd rv = snd rl /\ map Leaf (flat_t (v_tree v (vals (fst rv)))) = fst rl /\ (forall x, ~ In x (footprint v) -> fst rv x = m x))
    /\ (forall x, In x (footprint v) -> 0 <= x < prod rsz).
Proof. exact C03_reachable_proved. Qed.
Print Assumptions C03_reachable.

Theorem C03_two_ranges :
  forall (va vb : view) (na nb : Z) (sz : list Z),
    lay_ok (lay va) (na :: sz) -> inj_view va (na :: sz) -> lay_ok (lay vb) (nb :: sz) -> inj_view vb (nb :: sz) ->
    collapse sz = sz -> (forall x, In x (footprint va) -> ~ In x (footprint vb)) ->
  forall (A : Type) (pr : prog A), prog_ok (na + nb) sz pr ->
  forall (m : mem),
    let row := cat_rows (rows_of va) na (rows_of vb) in
    let rv := run_on_view row pr m in
    let rl := run_on_values (length sz) pr (abs_rows (rows_of va) na m ++ abs_rows (rows_of vb) nb m) in
       snd rv = snd rl
    /\ abs_rows (rows_of va) na (fst rv) ++ abs_rows (rows_of vb) nb (fst rv) = fst rl
    /\ (forall x, ~ In x (footprint va) -> ~ In x (footprint vb) -> fst rv x = m x).
Proof. exact C03_two_ranges_proved. Qed.
Print Assumptions C03_two_ranges.

(* the algorithms written as programs (Model/C03Prog.v: insertion sort, reverse, rotate, unique, remove, fill, find,
   is_sorted_until, swap_ranges, copy, equal) satisfy prog_ok for every range size: the theorems above apply to them *)
Theorem C03_algorithms_in_range :
  forall (n : Z) (sz : list Z) (x : value) (k : Z), 0 <= n -> reg sz x ->
     prog_ok n sz (p_sort n) /\ prog_ok n sz (p_reverse n) /\ prog_ok n sz (p_rotate n k) /\ prog_ok n sz (p_unique n)
  /\ prog_ok n sz (p_remove n x) /\ prog_ok n sz (p_fill n x) /\ prog_ok n sz (p_find n x) /\ prog_ok n sz (p_is_sorted_until n)
  /\ prog_ok (n + n) sz (p_swap_ranges n) /\ prog_ok (n + n) sz (p_copy n) /\ prog_ok (n + n) sz (p_equal n).
Proof. exact C03_algorithms_in_range_proved. Qed.
Print Assumptions C03_algorithms_in_range.

(* moved-from values are "valid but unspecified": for a program that never uses an unspecified position (run_tracked
   succeeds), the view agrees with independent values WHATEVER their moved-from state is (junk arbitrary: e.g. an
   emptied multi::array), on results and on every position the contract specifies *)
Theorem C03_moved_from :
  forall (row : Z -> view) (n : Z) (sz : list Z), rows_ok row n sz ->
  forall (A : Type) (pr : prog A), prog_ok n sz pr ->
  forall (m : mem) lo' r,
    run_tracked (length sz) pr (map Some (abs_rows row n m)) = Some (lo', r) ->
    forall (junk : value -> value),
      let rv := run_on_view row pr m in
      let rj := run_junk junk (length sz) pr (abs_rows row n m) in
         snd rv = r /\ snd rj = r
      /\ agrees (abs_rows row n (fst rv)) lo' /\ agrees (fst rj) lo'
      /\ (forall a, outside_rows row n sz a -> fst rv a = m a).
Proof. exact C03_moved_from_proved. Qed.
Print Assumptions C03_moved_from.

(* The statement without the exclusion is C03_full (Proofs/C03Collapse.v); it is false: a view of sizes (2,3,0) has
   rows whose value_type copy (sizes (0,0)) is smaller than the row it was copied from. *)
Theorem C03_full_refuted : ~ C03_full.
Proof. exact C03_full_refuted_proved. Qed.
Print Assumptions C03_full_refuted.

Theorem C03_partial :
  forall (row : Z -> view) (n : Z) (sz : list Z), rows_ok_full row n sz -> collapse sz = sz ->
  forall (A : Type) (pr : prog A), prog_ok n sz pr ->
  forall (m : mem),
    let rv := run_on_view row pr m in
    let rl := run_on_values (length sz) pr (abs_rows row n m) in
       snd rv = snd rl
    /\ abs_rows row n (fst rv) = fst rl
    /\ (forall a, outside_rows row n sz a -> fst rv a = m a).
Proof. exact C03_partial_proved. Qed.
Print Assumptions C03_partial.

(* C09 -- failures (allocation or element exceptions) leave no leak and valid arrays.  Model: Model/Life.v with a fault
   countdown: the k-th fallible event (allocation through an instrumented allocator, element copy / move construction,
   assignment, conversion) throws.  The full statement C09_full (Proofs/LifeRefuted.v) is FALSE of the faithful model at
   three kinds of sites; the partial theorem excludes exactly the faults that fire there.
   This file holds only the property theorems, each closed by `exact`, with Print Assumptions. *)
From BM Require Import Base.Tactics Model.Life Proofs.LifeMonad Proofs.LifeInv Proofs.LifeOps Proofs.LifeDisc Proofs.LifeMain Proofs.LifeFacts
  Proofs.LifeRefuted Proofs.LifeVal10.
Local Open Scope Z_scope.

(* For every history in its domain and every injection point k: if the fault fired at an allocation or inside an element
   assignment loop (ok_site; i.e. not while constructing into a block no array object owns yet, not inside reextent's new
   block, not after reextent && released the old block), then the exception reached the caller (the run goes on, no
   operation returns OutErr) and the invariant Good holds: no leak, nothing destroyed or released twice, every array object
   valid; temporaries have been unwound. *)
Theorem C09_fault_safety_partial :
  forall cfg, (1 <= c_rank cfg)%nat -> forall (h : list lop) (k : nat), hist_dom cfg h (st0 (Some k)) ->
    let '(outs, s') := run_life cfg h (st0 (Some k)) in
    (forall w, In (EvThrow w) (s_ledger s') -> ok_site w) -> Good cfg s' /\ Forall not_err outs.
Proof. exact life_safe_fault. Qed.
Print Assumptions C09_fault_safety_partial.

Theorem C09_ctor_leak_refuted : ~ C09_full.
Proof. exact ctor_leak_refuted. Qed.
Print Assumptions C09_ctor_leak_refuted.

Theorem C09_reextent_leak_refuted : ~ C09_full.
Proof. exact reextent_leak_refuted. Qed.
Print Assumptions C09_reextent_leak_refuted.

Theorem C09_reextent_move_refuted : ~ C09_full.
Proof. exact reextent_move_refuted. Qed.
Print Assumptions C09_reextent_move_refuted.

(* operations that need no new storage do not allocate (and copy nothing) *)
Theorem C09_move_ctor_does_not_allocate :
  forall cfg r t s s', step cfg (OCtorMove r t) (reset_counts s) = Ok tt s' -> s_copies s' = 0 /\ s_allocs s' = 0.
Proof. exact move_ctor_no_copy. Qed.
Print Assumptions C09_move_ctor_does_not_allocate.

Theorem C09_swap_does_not_allocate :
  forall cfg r t s s', step cfg (OSwap r t) (reset_counts s) = Ok tt s' -> s_copies s' = 0 /\ s_allocs s' = 0.
Proof. exact swap_no_copy. Qed.
Print Assumptions C09_swap_does_not_allocate.

(* Assignment through views (subarray::operator=, every overload; elements() = elements()) is one of the operations
   that need no new storage: it is part of every history above (OViewAssign; its fault site is SAssignElem, an ok_site,
   so C09_fault_safety_partial states that the exception reaches the caller and both arrays stay valid), and, thrown
   or not, it replaces no array object: extents, storage and allocator of every array are what they were. *)
Theorem C09_view_assign_keeps_arrays :
  forall cfg, (1 <= c_rank cfg)%nat -> forall r t vr vt s,
    match step cfg (OViewAssign r t vr vt) s with Ok _ s' | Threw s' => s_arrs s' = s_arrs s | Err _ => True end.
Proof. exact view_assign_keeps_arrays. Qed.
Print Assumptions C09_view_assign_keeps_arrays.

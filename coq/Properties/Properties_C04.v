(* C04 -- owning arrays have value semantics: the storage side AND the values.  Model: Model/Life.v.
   This file holds only the property theorems, each closed by `exact`, with Print Assumptions. *)
From BM Require Import Base.Tactics Model.Life Proofs.LifeMonad Proofs.LifeInv Proofs.LifeOps Proofs.LifeMain Proofs.LifeFacts
  Proofs.LifeVal4 Proofs.LifeVal10.
Local Open Scope Z_scope.

(* After any fault-free history (construction from values, arrays, views, ranges, initializer lists, other element types;
   copy / move construction and assignment over any prior state; swap; reextent; clear; element writes; destruction)
   the invariant Good holds: in particular (C04_storage_disjoint) no two array objects share storage, and
   (C04_layout_matches_block) the extents of every array object are backed by its own live block. *)
Theorem C04_history_invariant :
  forall cfg, (1 <= c_rank cfg)%nat -> forall (h : list lop), hist_dom cfg h (st0 None) ->
    let '(outs, s') := run_life cfg h (st0 None) in
    Good cfg s' /\ Forall (fun o => o = OutOk) outs.
Proof. exact life_safe_nofault. Qed.
Print Assumptions C04_history_invariant.

Theorem C04_storage_disjoint :
  forall cfg s r r' a a' b, Good cfg s -> get_slot s r = Some a -> get_slot s r' = Some a' -> 0 < nel a -> 0 < nel a' ->
    a_base a = PBlk b -> a_base a' = PBlk b -> r = r'.
Proof. exact storage_disjoint. Qed.
Print Assumptions C04_storage_disjoint.

Theorem C04_layout_matches_block :
  forall cfg s r a, Good cfg s -> get_slot s r = Some a -> arr_valid cfg s a = true
    /\ (0 < nel a -> exists b blk, a_base a = PBlk b /\ get_blk s b = Some blk /\ b_live blk = true
                                  /\ alloc_eq cfg (b_owner blk) (a_alloc a) = true).
Proof. exact layout_matches_block. Qed.
Print Assumptions C04_layout_matches_block.

Theorem C04_move_ctor_no_copy :
  forall cfg r t s s', step cfg (OCtorMove r t) (reset_counts s) = Ok tt s' -> s_copies s' = 0 /\ s_allocs s' = 0.
Proof. exact move_ctor_no_copy. Qed.
Print Assumptions C04_move_ctor_no_copy.

Theorem C04_swap_no_copy :
  forall cfg r t s s', step cfg (OSwap r t) (reset_counts s) = Ok tt s' -> s_copies s' = 0 /\ s_allocs s' = 0.
Proof. exact swap_no_copy. Qed.
Print Assumptions C04_swap_no_copy.

Theorem C04_self_copy_assign_noop : forall cfg r s s', step cfg (OAssignCopy r r) s = Ok tt s' -> s' = s.
Proof. exact self_copy_assign_noop. Qed.
Print Assumptions C04_self_copy_assign_noop.

Theorem C04_self_move_assign_noop : forall cfg r s s', step cfg (OAssignMove r r) s = Ok tt s' -> s' = s.
Proof. exact self_move_assign_noop. Qed.
Print Assumptions C04_self_move_assign_noop.

Theorem C04_copy_ctor_extents :
  forall cfg r t s s' at_, get_slot s t = Some at_ -> step cfg (OCtorCopy r t) s = Ok tt s' ->
    exists a', get_slot s' r = Some a' /\ arr_bx a' = norm_bx (arr_bx at_).
Proof. exact copy_ctor_extents. Qed.
Print Assumptions C04_copy_ctor_extents.

Theorem C04_view_ctor_extents :
  forall cfg r a t v s s', step cfg (OCtorView r a t v) s = Ok tt s' ->
    exists a', get_slot s' r = Some a' /\ arr_bx a' = norm_bx (vs_exts v).
Proof. exact view_ctor_extents. Qed.
Print Assumptions C04_view_ctor_extents.

Theorem C04_move_leaves_empty_valid :
  forall cfg r t s s' at_, r <> t -> get_slot s t = Some at_ -> step cfg (OCtorMove r t) s = Ok tt s' ->
    get_slot s' r = Some (mkarr (a_alloc at_) (a_base at_) (a_exts at_) (a_first at_)) /\
    get_slot s' t = Some (empty_arr cfg (a_alloc at_) PNull) /\ s_blocks s' = s_blocks s.
Proof. exact move_ctor_transfers. Qed.
Print Assumptions C04_move_leaves_empty_valid.

(* ---- values: the machine refines the reference interpreter ----
   abs_state s: per live array object the extensions it reports (first:size per dimension) and the flat list of the values
   of the cells of its block (cell_val: a raw cell reads the allocator's paint, a constructed or moved-from cell its
   value: moved-from elements keep their value in the abstraction, and no live array holds one between operations).
   run_values folds vstep, the interpreter over (extensions, value list) pairs that never mentions blocks, cells or
   allocators.  hist_dom: every operation is in its documented domain in the state it runs in; hist_vdom: every extensions
   argument has D = c_rank cfg dimensions, value/offset lists have the announced length, reextent sizes are >= 0. *)
Theorem C04_value_semantics :
  forall cfg, (1 <= c_rank cfg)%nat -> forall (h : list lop), hist_dom cfg h (st0 None) -> hist_vdom cfg h ->
    abs_state (snd (run_life cfg h (st0 None))) = run_values cfg h (abs_state (st0 None)).
Proof. exact value_semantics. Qed.
Print Assumptions C04_value_semantics.

(* one commuting square per operation (26 entry points), on any state satisfying the ownership invariant *)
Theorem C04_operation_refines :
  forall cfg, (1 <= c_rank cfg)%nat -> forall o s s', Good cfg s -> pool_ok cfg (abs_state s) ->
    dom_op cfg (s_arrs s) o -> val_dom cfg o -> step cfg o s = Ok tt s' -> abs_state s' = vstep cfg o (abs_state s).
Proof. exact step_abs. Qed.
Print Assumptions C04_operation_refines.

(* after a copy, a write to the copy leaves the source's value alone (and lands in the copy) ... *)
Theorem C04_copy_independent :
  forall cfg, (1 <= c_rank cfg)%nat -> forall r t k v s s1 s2, Good cfg s -> pool_ok cfg (abs_state s) ->
    dom_op cfg (s_arrs s) (OCtorCopy r t) -> step cfg (OCtorCopy r t) s = Ok tt s1 ->
    dom_op cfg (s_arrs s1) (OWrite r k v) -> step cfg (OWrite r k v) s1 = Ok tt s2 ->
    vget (abs_state s2) t = vget (abs_state s) t /\
    vget (abs_state s2) r = (fst (vget (abs_state s) t), upd_nth (snd (vget (abs_state s) t)) k v).
Proof. exact copy_then_write_copy. Qed.
Print Assumptions C04_copy_independent.

(* ... and a write to the source leaves the copy equal to the source's old value *)
Theorem C04_copy_independent_of_source :
  forall cfg, (1 <= c_rank cfg)%nat -> forall r t k v s s1 s2, Good cfg s -> pool_ok cfg (abs_state s) ->
    dom_op cfg (s_arrs s) (OCtorCopy r t) -> step cfg (OCtorCopy r t) s = Ok tt s1 ->
    dom_op cfg (s_arrs s1) (OWrite t k v) -> step cfg (OWrite t k v) s1 = Ok tt s2 ->
    vget (abs_state s2) r = vget (abs_state s) t.
Proof. exact copy_then_write_source. Qed.
Print Assumptions C04_copy_independent_of_source.

(* array = view of another live array (both overloads): the view's extensions (the array's own ones when they are equal)
   and exactly the elements at the view's offsets.  The view is given by the lifecycle model's own offsets record
   (vsrc: extensions + offsets of the elements in canonical order inside the source block); the driver computes it with
   the address functions of Model/View.v (run_ops, er_at), the theorem holds for any offsets inside the block. *)
Theorem C04_assign_from_view_value :
  forall cfg, (1 <= c_rank cfg)%nat -> forall r t v mut s s', Good cfg s -> pool_ok cfg (abs_state s) ->
    dom_op cfg (s_arrs s) (OAssignView r t v mut) -> val_dom cfg (OAssignView r t v mut) ->
    step cfg (OAssignView r t v mut) s = Ok tt s' ->
    vget (abs_state s') r =
      ((if bx_eq (fst (vget (abs_state s) r)) (vs_exts v) then fst (vget (abs_state s) r) else norm_bx (vs_exts v)),
       at_offs (snd (vget (abs_state s) t)) (vs_offs v)).
Proof. exact assign_view_value. Qed.
Print Assumptions C04_assign_from_view_value.

(* The composition with C01, written down: the vsrc record the correspondence driver hands to OCtorView / OAssignView /
   OViewAssign is `view_vsrc v` for a view v reached by ANY program of view-forming operations (each inside its
   documented domain) from the root of a zero-based array of sizes sz.  For every such view the record meets the domain
   the lifecycle theorems above quantify over: all offsets inside the viewed array's block (vsrc_dom), exactly the
   announced number of them (val_dom), extensions of the view's rank with the view's number of elements, offset k =
   address of the k-th element of v.elements(), and distinct positions are distinct cells (what a destination of
   view-to-view assignment needs to be written exactly).  Names qualified: View and Life both define dom_op / nel. *)
From BM Require Model.View Model.Spec Model.Iter Model.Assign Model.LifeView Proofs.ViewProofs2 Proofs.LifeViewCompose.
Theorem C04_view_sources_compose :
  forall (sz : list Z) (ops : list BM.Model.View.op) (v : BM.Model.View.view) (as_ : arr),
    Forall (fun n => 0 <= n) sz -> Forall BM.Proofs.ViewProofs2.c01_op ops ->
    BM.Model.View.run_ops ops (BM.Model.View.root_view (zb sz)) = Some v ->
    BM.Model.Life.nel as_ = BM.Model.Spec.prod sz ->
    let a := BM.Model.Spec.run_spec ops (BM.Model.Spec.root_spec sz) in
    let s := BM.Model.LifeView.view_vsrc v in
       vsrc_dom as_ s
    /\ length (vs_offs s) = Z.to_nat (bnumel (vs_exts s))
    /\ length (vs_exts s) = length (BM.Model.Spec.asz a)
    /\ bnumel (vs_exts s) = BM.Model.Spec.prod (BM.Model.Spec.asz a)
    /\ (forall k, 0 <= k < BM.Model.Iter.er_size v ->
          nth (Z.to_nat k) (vs_offs s) O = Z.to_nat (BM.Model.Assign.e_addr v k))
    /\ (Forall (fun n => 0 < n) (BM.Model.Spec.asz a) -> NoDup (vs_offs s)).
Proof. exact BM.Proofs.LifeViewCompose.view_source_composes_proved. Qed.
Print Assumptions C04_view_sources_compose.

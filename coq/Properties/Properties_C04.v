(* C04 -- owning arrays have value semantics: the storage side.  Model: Model/Life.v.
   This file holds only the property theorems, each closed by `exact`, with Print Assumptions. *)
From BM Require Import Base.Tactics Model.Life Proofs.LifeMonad Proofs.LifeInv Proofs.LifeOps Proofs.LifeMain Proofs.LifeFacts.
Local Open Scope Z_scope.

(* After any fault-free history (construction from values, arrays, views, ranges, initializer lists, other element types;
   copy / move construction and assignment over any prior state; swap; reextent; clear; element writes; destruction)
   the invariant Good holds: in particular (C04_storage_disjoint) no two array objects share storage, and
   (C04_layout_matches_block) the extents of every array object are backed by its own live block. *)
Theorem C04_history_invariant :
  forall cfg, (1 <= c_rank cfg)%nat -> forall (h : list lop), hist_dom cfg h (st0 None) ->
    let '(outs, s') := run_life cfg h (st0 None) in
    Good cfg s' /\ Forall (fun o => o = OutOk) outs.
Proof. exact life_safe_nofault. Qed.
Print Assumptions C04_history_invariant.

Theorem C04_storage_disjoint :
  forall cfg s r r' a a' b, Good cfg s -> get_slot s r = Some a -> get_slot s r' = Some a' -> 0 < nel a -> 0 < nel a' ->
    a_base a = PBlk b -> a_base a' = PBlk b -> r = r'.
Proof. exact storage_disjoint. Qed.
Print Assumptions C04_storage_disjoint.

Theorem C04_layout_matches_block :
  forall cfg s r a, Good cfg s -> get_slot s r = Some a -> arr_valid cfg s a = true
    /\ (0 < nel a -> exists b blk, a_base a = PBlk b /\ get_blk s b = Some blk /\ b_live blk = true
                                  /\ alloc_eq cfg (b_owner blk) (a_alloc a) = true).
Proof. exact layout_matches_block. Qed.
Print Assumptions C04_layout_matches_block.

Theorem C04_move_ctor_no_copy :
  forall cfg r t s s', step cfg (OCtorMove r t) (reset_counts s) = Ok tt s' -> s_copies s' = 0 /\ s_allocs s' = 0.
Proof. exact move_ctor_no_copy. Qed.
Print Assumptions C04_move_ctor_no_copy.

Theorem C04_swap_no_copy :
  forall cfg r t s s', step cfg (OSwap r t) (reset_counts s) = Ok tt s' -> s_copies s' = 0 /\ s_allocs s' = 0.
Proof. exact swap_no_copy. Qed.
Print Assumptions C04_swap_no_copy.

Theorem C04_self_copy_assign_noop : forall cfg r s s', step cfg (OAssignCopy r r) s = Ok tt s' -> s' = s.
Proof. exact self_copy_assign_noop. Qed.
Print Assumptions C04_self_copy_assign_noop.

Theorem C04_self_move_assign_noop : forall cfg r s s', step cfg (OAssignMove r r) s = Ok tt s' -> s' = s.
Proof. exact self_move_assign_noop. Qed.
Print Assumptions C04_self_move_assign_noop.

Theorem C04_copy_ctor_extents :
  forall cfg r t s s' at_, get_slot s t = Some at_ -> step cfg (OCtorCopy r t) s = Ok tt s' ->
    exists a', get_slot s' r = Some a' /\ arr_bx a' = norm_bx (arr_bx at_).
Proof. exact copy_ctor_extents. Qed.
Print Assumptions C04_copy_ctor_extents.

Theorem C04_view_ctor_extents :
  forall cfg r a t v s s', step cfg (OCtorView r a t v) s = Ok tt s' ->
    exists a', get_slot s' r = Some a' /\ arr_bx a' = norm_bx (vs_exts v).
Proof. exact view_ctor_extents. Qed.
Print Assumptions C04_view_ctor_extents.

Theorem C04_move_leaves_empty_valid :
  forall cfg r t s s' at_, r <> t -> get_slot s t = Some at_ -> step cfg (OCtorMove r t) s = Ok tt s' ->
    get_slot s' r = Some (mkarr (a_alloc at_) (a_base at_) (a_exts at_) (a_first at_)) /\
    get_slot s' t = Some (empty_arr cfg (a_alloc at_) PNull) /\ s_blocks s' = s_blocks s.
Proof. exact move_ctor_transfers. Qed.
Print Assumptions C04_move_leaves_empty_valid.

(* C06 -- reextent keeps the common part; clear, reshape and assign do what they say.  Model: Model/Life.v.
   This file holds only the property theorems, each closed by `exact`, with Print Assumptions. *)
From BM Require Import Base.Tactics Model.Life Proofs.LifeMonad Proofs.LifeInv Proofs.LifeOps Proofs.LifeMain Proofs.LifeFacts Proofs.LifeRefSpec
  Proofs.LifeVal4 Proofs.LifeVal10.
Local Open Scope Z_scope.

(* every history containing reextent (three overloads, any old and new extensions, any rank >= 1, index bases, empty and
   zero-inner-extent cases), clear, = {}, reshape, assign(first,last), assign(extensions, value) is free of illegal
   transitions and keeps the ownership invariant *)
Theorem C06_history_invariant :
  forall cfg, (1 <= c_rank cfg)%nat -> forall (h : list lop), hist_dom cfg h (st0 None) ->
    let '(outs, s') := run_life cfg h (st0 None) in
    Good cfg s' /\ Forall (fun o => o = OutOk) outs.
Proof. exact life_safe_nofault. Qed.
Print Assumptions C06_history_invariant.

Theorem C06_reextent_same_noop :
  forall cfg r x fv s a, get_slot s r = Some a -> bx_eq x (arr_bx a) = true -> step cfg (OReextent r x fv) s = Ok tt s.
Proof. exact reextent_same_noop. Qed.
Print Assumptions C06_reextent_same_noop.

Theorem C06_reextent_rvalue_same_noop :
  forall cfg r x s a, get_slot s r = Some a -> bx_eq x (arr_bx a) = true -> step cfg (OReextentMove r x) s = Ok tt s.
Proof. exact reextent_move_same_noop. Qed.
Print Assumptions C06_reextent_rvalue_same_noop.

Theorem C06_clear_empty_valid :
  forall cfg, (1 <= c_rank cfg)%nat -> forall r s s' a, Good cfg s -> get_slot s r = Some a -> step cfg (OClear r) s = Ok tt s' ->
    exists a', get_slot s' r = Some a' /\ a_exts a' = zeros (c_rank cfg) /\ a_first a' = zeros (c_rank cfg) /\ nel a' = 0
               /\ a_alloc a' = a_alloc a.
Proof. exact clear_empty. Qed.
Print Assumptions C06_clear_empty_valid.

Theorem C06_reshape_flat :
  forall cfg r x s s' a, get_slot s r = Some a -> step cfg (OReshape r x) s = Ok tt s' ->
    s_blocks s' = s_blocks s /\ exists a', get_slot s' r = Some a' /\ a_base a' = a_base a /\ a_alloc a' = a_alloc a
                                          /\ arr_bx a' = norm_bx x /\ nel a' = nel a.
Proof. exact reshape_flat. Qed.
Print Assumptions C06_reshape_flat.

(* On the reference interpreter over values (Model/Life.v: vstep (OReextent ..) uses reext_vals): for ANY old and new
   extensions (any rank, index bases, empty ones) the element at an index tuple of the new extensions is the old element when
   the tuple also lies in the old extensions, and the fill / default value otherwise.  (C06_reextent_spec below composes this with the proved refinement of the machine.) *)
Theorem C06_reextent_reference_spec :
  forall oldx oldv newx dflt idx, in_bx newx idx = true ->
    nth (Z.to_nat (rowmajor newx idx)) (reext_vals oldx oldv newx dflt) dflt =
    if in_bx oldx idx then nth (Z.to_nat (rowmajor oldx idx)) oldv dflt else dflt.
Proof. exact reext_vals_spec. Qed.
Print Assumptions C06_reextent_reference_spec.

(* ---- on the MACHINE (refinement of Properties_C04.C04_operation_refines composed with the reference spec) ---- *)
(* reextent(x) / reextent(x, v), lvalue overloads, any old and new extensions: the array reports the collapsed new
   extensions; an index tuple of the new extensions that also lies in the old ones keeps its value; every other one reads
   the fill value, or the value-initialised element (dflt_val: 0, or the allocator's paint when the element type is
   trivially default constructible and nothing is written) *)
Theorem C06_reextent_spec :
  forall cfg, (1 <= c_rank cfg)%nat -> forall r x fv s s', Good cfg s -> pool_ok cfg (abs_state s) ->
    dom_op cfg (s_arrs s) (OReextent r x fv) -> val_dom cfg (OReextent r x fv) ->
    step cfg (OReextent r x fv) s = Ok tt s' ->
    bx_eq x (fst (vget (abs_state s) r)) = false ->
    let d := match fv with Some v => v | None => dflt_val cfg end in
    fst (vget (abs_state s') r) = norm_bx x /\
    forall idx, in_bx (norm_bx x) idx = true ->
      nth (Z.to_nat (rowmajor (norm_bx x) idx)) (snd (vget (abs_state s') r)) d =
      if in_bx (fst (vget (abs_state s) r)) idx
      then nth (Z.to_nat (rowmajor (fst (vget (abs_state s) r)) idx)) (snd (vget (abs_state s) r)) d else d.
Proof. exact reextent_spec. Qed.
Print Assumptions C06_reextent_spec.

(* the value-initialisation clause, by the trait the code must branch on: every element type that is NOT trivially
   default constructible gets value-initialised new elements (0), whatever its destructor and copy operations are
   (c_tdx, c_quiet are not constrained: struct{int v = 0;} as well as the tracked class) *)
Theorem C06_reextent_new_elements_value_initialised :
  forall cfg, (1 <= c_rank cfg)%nat -> forall r x s s' idx, c_tdc cfg = false -> Good cfg s -> pool_ok cfg (abs_state s) ->
    dom_op cfg (s_arrs s) (OReextent r x None) -> val_dom cfg (OReextent r x None) ->
    step cfg (OReextent r x None) s = Ok tt s' -> bx_eq x (fst (vget (abs_state s) r)) = false ->
    in_bx (norm_bx x) idx = true -> in_bx (fst (vget (abs_state s) r)) idx = false ->
    nth (Z.to_nat (rowmajor (norm_bx x) idx)) (snd (vget (abs_state s') r)) 0 = 0.
Proof. exact reextent_new_value_initialised. Qed.
Print Assumptions C06_reextent_new_elements_value_initialised.

Theorem C06_reshape_flat_values :
  forall cfg, (1 <= c_rank cfg)%nat -> forall r x s s', Good cfg s -> pool_ok cfg (abs_state s) ->
    dom_op cfg (s_arrs s) (OReshape r x) -> val_dom cfg (OReshape r x) -> step cfg (OReshape r x) s = Ok tt s' ->
    vget (abs_state s') r = (norm_bx x, snd (vget (abs_state s) r)).
Proof. exact reshape_flat_values. Qed.
Print Assumptions C06_reshape_flat_values.

(* assign(first,last) / = {nested list}: exactly the requested contents; the extensions are kept when the shape matches,
   the zero-based ones of the range otherwise *)
Theorem C06_assign_contents :
  forall cfg, (1 <= c_rank cfg)%nat -> forall r w s s', Good cfg s -> pool_ok cfg (abs_state s) ->
    dom_op cfg (s_arrs s) (OAssignRange r w) -> val_dom cfg (OAssignRange r w) -> step cfg (OAssignRange r w) s = Ok tt s' ->
    snd (vget (abs_state s') r) = rw_vals w /\
    (fst (vget (abs_state s') r) = fst (vget (abs_state s) r) \/ fst (vget (abs_state s') r) = norm_bx (rows_exts w)).
Proof. exact assign_range_contents. Qed.
Print Assumptions C06_assign_contents.

Theorem C06_assign_fill_contents :
  forall cfg, (1 <= c_rank cfg)%nat -> forall r x v s s', Good cfg s -> pool_ok cfg (abs_state s) ->
    dom_op cfg (s_arrs s) (OAssignFill r x v) -> val_dom cfg (OAssignFill r x v) -> step cfg (OAssignFill r x v) s = Ok tt s' ->
    snd (vget (abs_state s') r) = repeat v (Z.to_nat (bnumel x)).
Proof. exact assign_fill_contents. Qed.
Print Assumptions C06_assign_fill_contents.

(* C06 -- reextent keeps the common part; clear, reshape and assign do what they say.  Model: Model/Life.v.
   This file holds only the property theorems, each closed by `exact`, with Print Assumptions. *)
From BM Require Import Base.Tactics Model.Life Proofs.LifeMonad Proofs.LifeInv Proofs.LifeOps Proofs.LifeMain Proofs.LifeFacts Proofs.LifeRefSpec.
Local Open Scope Z_scope.

(* every history containing reextent (three overloads, any old and new extensions, any rank >= 1, index bases, empty and
   zero-inner-extent cases), clear, = {}, reshape, assign(first,last), assign(extensions, value) is free of illegal
   transitions and keeps the ownership invariant *)
Theorem C06_history_invariant :
  forall cfg, (1 <= c_rank cfg)%nat -> forall (h : list lop), hist_dom cfg h (st0 None) ->
    let '(outs, s') := run_life cfg h (st0 None) in
    Good cfg s' /\ Forall (fun o => o = OutOk) outs.
Proof. exact life_safe_nofault. Qed.
Print Assumptions C06_history_invariant.

Theorem C06_reextent_same_noop :
  forall cfg r x fv s a, get_slot s r = Some a -> bx_eq x (arr_bx a) = true -> step cfg (OReextent r x fv) s = Ok tt s.
Proof. exact reextent_same_noop. Qed.
Print Assumptions C06_reextent_same_noop.

Theorem C06_reextent_rvalue_same_noop :
  forall cfg r x s a, get_slot s r = Some a -> bx_eq x (arr_bx a) = true -> step cfg (OReextentMove r x) s = Ok tt s.
Proof. exact reextent_move_same_noop. Qed.
Print Assumptions C06_reextent_rvalue_same_noop.

Theorem C06_clear_empty_valid :
  forall cfg, (1 <= c_rank cfg)%nat -> forall r s s' a, Good cfg s -> get_slot s r = Some a -> step cfg (OClear r) s = Ok tt s' ->
    exists a', get_slot s' r = Some a' /\ a_exts a' = zeros (c_rank cfg) /\ a_first a' = zeros (c_rank cfg) /\ nel a' = 0
               /\ a_alloc a' = a_alloc a.
Proof. exact clear_empty. Qed.
Print Assumptions C06_clear_empty_valid.

Theorem C06_reshape_flat :
  forall cfg r x s s' a, get_slot s r = Some a -> step cfg (OReshape r x) s = Ok tt s' ->
    s_blocks s' = s_blocks s /\ exists a', get_slot s' r = Some a' /\ a_base a' = a_base a /\ a_alloc a' = a_alloc a
                                          /\ arr_bx a' = norm_bx x /\ nel a' = nel a.
Proof. exact reshape_flat. Qed.
Print Assumptions C06_reshape_flat.

(* On the reference interpreter over values (Model/Life.v: vstep (OReextent ..) uses reext_vals): for ANY old and new
   extensions (any rank, index bases, empty ones) the element at an index tuple of the new extensions is the old element when
   the tuple also lies in the old extensions, and the fill / default value otherwise.  (The machine is compared with this
   interpreter on every generated history by the check; that refinement is tested, not proved.) *)
Theorem C06_reextent_reference_spec :
  forall oldx oldv newx dflt idx, in_bx newx idx = true ->
    nth (Z.to_nat (rowmajor newx idx)) (reext_vals oldx oldv newx dflt) dflt =
    if in_bx oldx idx then nth (Z.to_nat (rowmajor oldx idx)) oldv dflt else dflt.
Proof. exact reext_vals_spec. Qed.
Print Assumptions C06_reextent_reference_spec.

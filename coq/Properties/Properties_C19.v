(* C19 -- Index bases are transparent.  Only the property theorems, closed by `exact`, with Print Assumptions. *)
From BM Require Import Base.Tactics Model.Layout Model.View Model.Spec Model.Iter Model.Rebase Model.Compare
  Proofs.LayoutProofs Proofs.ViewProofs2 Proofs.IterProofs Proofs.ElemProofs Proofs.RebaseProofs Proofs.RebaseCompare.
Local Open Scope Z_scope.

(* Any program of view operations (incl. reindexed, blocked) on a root built from explicit index
   extensions is, operation by operation, the program twin_ops (index arguments shifted by the current
   first valid index; reindexed dropped; blocked = sliced) on the zero-based root of the same sizes:
   the results have the same base, sizes, strides and num_elements, the twin program consists of C01
   operations only (so C01_view_algebra applies to it), and the element at index tuple idx of the
   re-based result is the element at idx - firsts of the twin.  run_safe excludes exactly: slicing an
   EMPTY dimension whose offset is not 0 (no element is designated; the base pointer moves by minus
   the offset) and diagonal() on a view whose first two offsets are not 0 (refuted below). *)
Theorem C19_rebase_transparent :
  forall (exts : list range) (ops : list op) (w : view),
    Forall (fun r => fst r <= snd r) exts ->
    run_safe ops (root_view exts) = true ->
    run_ops ops (root_view exts) = Some w ->
    let sz := map r_size exts in
    let tops := twin_ops ops (root_view exts) in
    let w0 := norm w in
       run_ops tops (root_view (zb sz)) = Some w0 /\ Forall c01_op tops
    /\ l_sizes (lay w0) = l_sizes (lay w) /\ l_strides (lay w0) = l_strides (lay w)
    /\ l_num_elements (lay w0) = l_num_elements (lay w) /\ base w0 = base w
    /\ forall idx, in_extl (lay w) idx ->
         v_addr w idx = v_addr w0 (vsubz idx (firsts_of w)) /\ valid_idx (l_sizes (lay w0)) (vsubz idx (firsts_of w)).
Proof. exact C19_rebase_transparent_proved. Qed.
Print Assumptions C19_rebase_transparent.

(* iteration and elements() of re-based views: C02's theorems are stated for any index base *)
Theorem C19_iterators_any_base :
  forall (v : view) (d : dim) (l : layout) (f n : Z),
    lay v = d :: l -> dim_okg d f n -> d_stride d <> 0 ->
    (forall p, 0 <= p < n -> it_deref (it_add (it_begin v) p) = v_index (f + p) v)
    /\ it_diff (it_end v) (it_begin v) = n.
Proof.
  intros v d l f n Hl Hd Hs. destruct (C02_array_iterator_laws_proved v d l f n Hl Hd Hs) as (H1 & _ & _ & _ & _ & H6 & _).
  split; assumption.
Qed.
Print Assumptions C19_iterators_any_base.

(* equality and ordering: two views reached by any programs from roots over explicit index extensions,
   with the same index bases, compare (== != < <= > >=) exactly as their zero-based twins do *)
Theorem C19_compare_transparent :
  forall (xa xb : list range) (opsa opsb : list op) (a b : view) (m : Z -> Z),
    Forall (fun r => fst r <= snd r) xa -> Forall (fun r => fst r <= snd r) xb ->
    run_safe opsa (root_view xa) = true -> run_ops opsa (root_view xa) = Some a ->
    run_safe opsb (root_view xb) = true -> run_ops opsb (root_view xb) = Some b ->
    firsts_of a = firsts_of b ->
       v_eq a b m = v_eq (norm a) (norm b) m /\ v_ne a b m = v_ne (norm a) (norm b) m
    /\ v_lt a b m = v_lt (norm a) (norm b) m /\ v_le a b m = v_le (norm a) (norm b) m
    /\ v_gt a b m = v_gt (norm a) (norm b) m /\ v_ge a b m = v_ge (norm a) (norm b) m.
Proof. exact C19_compare_transparent_reachable_proved. Qed.
Print Assumptions C19_compare_transparent.

Theorem C19_diagonal_refuted : ~ C19_diagonal_transparent.
Proof. exact C19_diagonal_refuted_proved. Qed.
Print Assumptions C19_diagonal_refuted.

(* C19 -- placeholder until the transparency theorem is assembled (see Proofs/RebaseProofs.v). *)
From BM Require Import Base.Tactics Model.Layout Model.View Model.Rebase.
Local Open Scope Z_scope.
Theorem C19_norm_idempotent : forall v, norm (norm v) = norm v.
Proof. intros [l b]. unfold norm. cbn. f_equal. rewrite map_map. reflexivity. Qed.
Print Assumptions C19_norm_idempotent.

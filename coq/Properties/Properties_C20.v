(* C20 -- Debug contracts: assertions silent on valid use, fire on out-of-range access; NDEBUG and
   BOOST_MULTI_ASSERT_DISABLE change no result of a valid program.
   Only the property theorems, each closed by `exact`, with Print Assumptions.
   Model/Asserts.v transcribes every BOOST_MULTI_ASSERT / assert the operations of Model/View.v, Model/Iter.v and
   Model/Assign.v execute (array_ref.hpp, detail/layout.hpp, detail/operators.hpp; file:line cited there). *)
From BM Require Import Base.Tactics Model.Layout Model.View Model.Spec Model.Iter Model.Rebase Model.Assign Model.Asserts
  Proofs.LayoutProofs Proofs.ViewProofs2 Proofs.IterProofs Proofs.RebaseProofs Proofs.AssertsProofs Proofs.AssertsProofs2
  Proofs.AssertsProofs3 Model.AssertsRecv Proofs.AssertsProofs4.
Local Open Scope Z_scope.

(* (1) SILENT ON VALID USE.  Any rank, any extents (0 and 1 included), any finite sequence of view operations each
   inside its documented domain (run_ops <> None), the shape being observed after every step: every modelled assertion
   evaluates to true and every divisor the code evaluates (assertions included) is non-zero. *)
Theorem C20_asserts_silent_on_valid :
  forall (sz : list Z) (ops : list op) (w : view),
    Forall (fun n => 0 <= n) sz -> Forall c01_op ops ->
    run_ops ops (root_view (zb sz)) = Some w ->
    asserts_along ops (root_view (zb sz)) = true.
Proof. exact C20_asserts_silent_on_valid_proved. Qed.
Print Assumptions C20_asserts_silent_on_valid.

(* the same for roots with arbitrary index bases and with reindexed / blocked in the alphabet, except at the one named
   site run_ok excludes: diagonal() applied to a view whose first two index bases are not 0 ... *)
Theorem C20_asserts_silent_rebased_partial :
  forall (exts : list range) (ops : list op) (w : view),
    Forall (fun r => fst r <= snd r) exts ->
    run_ok ops (root_view exts) = true ->
    run_ops ops (root_view exts) = Some w ->
    asserts_along ops (root_view exts) = true.
Proof. exact C20_asserts_silent_rebased_partial_proved. Qed.
Print Assumptions C20_asserts_silent_rebased_partial.

(* ... where the full statement is false of the faithful model: diagonal() of an array indexed [1,4)x[2,5) evaluates
   `sliced first out of bounds` (array_ref.hpp:1259 via :1380) to false although the call is inside its domain *)
Theorem C20_silent_refuted : ~ C20_silent_full.
Proof. exact C20_silent_refuted_proved. Qed.
Print Assumptions C20_silent_refuted.

(* iterators: every ==, !=, <, <=, >, >=, difference and post-increment between iterators obtained from begin()/end()
   of one view by any sequence of ++ -- += -= passes the stride / layout / divisibility assertions *)
Theorem C20_iterator_asserts_silent :
  forall (v : view) (d : dim) (l : layout) (f n : Z) (a b : ait),
    lay v = d :: l -> dim_okg d f n -> d_stride d <> 0 ->
    (exists tr, a = run_a tr (it_begin v) \/ a = run_a tr (it_end v)) ->
    (exists tr, b = run_a tr (it_begin v) \/ b = run_a tr (it_end v)) ->
    asrt_it_cmp a b = true /\ asrt_it_postinc_plain a = true.
Proof. exact C20_iterator_asserts_silent_proved. Qed.
Print Assumptions C20_iterator_asserts_silent.

Theorem C20_elements_asserts_silent :
  forall (v : view) (a b : eit), lok (lay v) ->
    (exists tr, a = run_e tr (er_begin v) \/ a = run_e tr (er_end v)) ->
    (exists tr, b = run_e tr (er_begin v) \/ b = run_e tr (er_end v)) ->
    asrt_e_cmp a b = true /\ asrt_e_make_plain (lay v) = true.
Proof. exact C20_elements_asserts_silent_proved. Qed.
Print Assumptions C20_elements_asserts_silent.

(* assignment between well-formed views of equal extents: the assertion of every overload holds *)
Theorem C20_assign_silent :
  forall (k : akind) (dst src : view), lok (lay dst) -> lok (lay src) ->
    x_eq (l_extensions (lay dst)) (l_extensions (lay src)) = true ->
    asrt_assign k dst src = true.
Proof. exact C20_assign_silent_proved. Qed.
Print Assumptions C20_assign_silent.

(* (2) FIRE ON OUT-OF-RANGE ACCESS.  A non-zero leading stride and an index outside the extension: the assertion is
   false and the assertion-enabled access aborts; the address is never formed. *)
Theorem C20_asserts_fire_on_oob :
  forall (v : view) (d : dim) (l : layout) (i : Z),
    lay v = d :: l -> d_stride d <> 0 -> r_contains (d_extension d) i = false ->
    asrt_index i v = false /\ g_index Debug i v = Aborted.
Proof. exact C20_asserts_fire_on_oob_proved. Qed.
Print Assumptions C20_asserts_fire_on_oob.

(* chained brackets at every dimension: abort exactly when some index is outside its extension, otherwise the same
   address as the unchecked configurations *)
Theorem C20_index_guard :
  forall (v : view) (idx : list Z), lok (lay v) -> pos (lay v) -> length idx = length (lay v) ->
       (in_extl (lay v) idx -> g_brackets Debug v idx = Done (addr_brackets v idx))
    /\ (~ in_extl (lay v) idx -> g_brackets Debug v idx = Aborted)
    /\ (forall c, c <> Debug -> g_brackets c v idx = Done (addr_brackets v idx)).
Proof. exact C20_index_guard_proved. Qed.
Print Assumptions C20_index_guard.

(* "before any out-of-bounds access": on every view a valid program reaches, an index tuple of the right length
   either aborts or yields an address inside the root array *)
Theorem C20_guarded_access_in_bounds :
  forall (sz : list Z) (ops : list op) (w : view) (idx : list Z),
    Forall (fun n => 0 <= n) sz -> Forall c01_op ops ->
    run_ops ops (root_view (zb sz)) = Some w -> length idx = length (lay w) ->
       g_brackets Debug w idx = Aborted
    \/ exists a, g_brackets Debug w idx = Done a /\ a = addr_brackets w idx /\ 0 <= a < prod sz.
Proof. exact C20_guarded_access_in_bounds_proved. Qed.
Print Assumptions C20_guarded_access_in_bounds.

(* (2') THE RECEIVER AND THE ENTRY POINT ARE IRRELEVANT (Model/AssertsRecv.v: which overload of operator[](index) each receiver
   kind selects, what it asserts, what it returns).  For every receiver kind -- const_subarray, subarray, move_subarray,
   array_ref, array, static_array; named lvalue, const lvalue, rvalue (std::move), prvalue temporary, result of unary + --
   and every entry point whose first level goes through operator[] (r[i0][i1].., r(i0, i1, ..), r.apply(tuple), r[tuple]):
   the guarded access is g_brackets and the aborting level abort_level, in every configuration; the same holds for ANY
   choice of overload at every level. *)
Theorem C20_index_receiver_irrelevant :
  forall (c : config) (e : entry) (r : recv) (v : view) (idx : list Z),
    first_checked e = true ->
       g_entry c e r v idx = g_brackets c v idx
    /\ abort_level_entry e v idx = abort_level v idx
    /\ g_brackets_r c r v idx = g_brackets c v idx
    /\ (forall ovs, g_levels c ovs v idx = g_brackets c v idx).
Proof. exact C20_index_receiver_irrelevant_proved. Qed.
Print Assumptions C20_index_receiver_irrelevant.

(* hence C20_index_guard for every receiver and checked entry point: abort exactly when an index is outside its
   extension, otherwise the address of the unchecked builds *)
Theorem C20_index_guard_any_receiver :
  forall (e : entry) (r : recv) (v : view) (idx : list Z),
    first_checked e = true -> lok (lay v) -> pos (lay v) -> length idx = length (lay v) ->
       (in_extl (lay v) idx -> g_entry Debug e r v idx = Done (addr_brackets v idx))
    /\ (~ in_extl (lay v) idx -> g_entry Debug e r v idx = Aborted)
    /\ (forall c, c <> Debug -> g_entry c e r v idx = Done (addr_brackets v idx)).
Proof. exact C20_index_guard_any_receiver_proved. Qed.
Print Assumptions C20_index_guard_any_receiver.

(* front(), back(), iterator [] and *, end()[-k] evaluate no assertion at the first level (they hold no extension); the later
   levels stay guarded, and for a first index the assertion would accept the access IS the bracket access *)
Theorem C20_unchecked_first_level :
  forall (c : config) (e : entry) (r : recv) (v : view) (i : Z) (rest : list Z),
    first_checked e = false -> e <> ECursor ->
       g_entry c e r v (i :: rest) = g_brackets c (v_index i v) rest
    /\ abort_level_entry e v (i :: rest) = option_map S (abort_level (v_index i v) rest)
    /\ (asrt_index i v = true ->
           g_entry c e r v (i :: rest) = g_brackets c v (i :: rest)
        /\ abort_level_entry e v (i :: rest) = abort_level v (i :: rest)).
Proof. exact C20_unchecked_first_level_proved. Qed.
Print Assumptions C20_unchecked_first_level.

Theorem C20_front_back_iterator_in_range :
  forall (c : config) (e : entry) (r : recv) (v : view) (d : dim) (l : layout) (k : Z) (rest : list Z),
    first_checked e = false -> e <> ECursor -> lay v = d :: l -> dok d -> 0 <= k < d_size d ->
    g_entry c e r v ((fst (d_extension d) + k) :: rest) = g_brackets c v ((fst (d_extension d) + k) :: rest).
Proof. exact C20_front_back_iterator_in_range_proved. Qed.
Print Assumptions C20_front_back_iterator_in_range.

(* owning copies (multi::array(view), +view, static_array(view): the view's extensions, canonical strides) abort at the
   same level as the view: the verdict is a function of the extensions alone *)
Theorem C20_index_guard_extensions_only :
  forall (idx : list Z) (v w : view),
    lok (lay v) -> pos (lay v) -> lok (lay w) -> pos (lay w) ->
    l_extensions (lay v) = l_extensions (lay w) ->
       abort_level v idx = abort_level w idx
    /\ asrt_brackets v idx = asrt_brackets w idx.
Proof. exact C20_index_guard_extensions_only_proved. Qed.
Print Assumptions C20_index_guard_extensions_only.

(* cursors: home()[k0][k1].. evaluates no assertion; with offsets taken from an index tuple inside the extensions it
   reaches the element of the bracket access *)
Theorem C20_cursor_in_range :
  forall (v : view) (idx : list Z), lok (lay v) -> in_extl (lay v) idx ->
    addr_cursor v (vsubz idx (map fst (l_extensions (lay v)))) = addr_brackets v idx
    /\ forall c r, g_entry c ECursor r v idx = Done (addr_brackets v idx).
Proof. exact C20_cursor_in_range_proved. Qed.
Print Assumptions C20_cursor_in_range.

(* elements_at(n): beyond num_elements() it is stopped by its own assertion; the REPAIRED code
   (notes/patches_C20/elements-at-rebased.diff) is silent on every position in [0, num_elements()) for any index bases and
   uses indices inside the extensions; the code as pinned agrees with it on zero-based arrays and is refuted on re-based ones *)
Theorem C20_elements_at_fire : forall fixed v n, lay v <> [] -> l_num_elements (lay v) <= n ->
  g_elements_at Debug fixed v n = Aborted.
Proof. exact C20_elements_at_fire_proved. Qed.
Print Assumptions C20_elements_at_fire.

Theorem C20_elements_at_fixed_silent :
  forall (v : view) (n : Z), lok (lay v) -> pos (lay v) -> 0 <= n < l_num_elements (lay v) ->
       g_elements_at Debug true v n = Done (addr_brackets v (elements_at_idx true (lay v) n))
    /\ in_extl (lay v) (elements_at_idx true (lay v) n)
    /\ forall c, g_elements_at c true v n = g_elements_at Debug true v n.
Proof. exact C20_elements_at_fixed_silent_proved. Qed.
Print Assumptions C20_elements_at_fixed_silent.

Theorem C20_elements_at_pinned_zero_based :
  forall (l : layout) (n : Z), Forall (fun d => fst (d_extension d) = 0) l ->
    elements_at_idx false l n = elements_at_idx true l n
    /\ forall b k, asrt_elements_at_all false (mkview l b) n k = asrt_elements_at_all true (mkview l b) n k.
Proof. exact C20_elements_at_pinned_zero_based_proved. Qed.
Print Assumptions C20_elements_at_pinned_zero_based.

Theorem C20_elements_at_rebased_refuted : ~ C20_elements_at_silent_full.
Proof. exact C20_elements_at_rebased_refuted_proved. Qed.
Print Assumptions C20_elements_at_rebased_refuted.

(* the `stride()==0 ||` escape of the index assertion is harmless: all indices designate the same sub-view *)
Theorem C20_zero_stride_escape : forall v d l i j, lay v = d :: l -> d_stride d = 0 ->
  asrt_index i v = true /\ v_index i v = v_index j v.
Proof. exact C20_zero_stride_escape_proved. Qed.
Print Assumptions C20_zero_stride_escape.

(* assignment, move-assignment and swap between views of different extents, EVERY overload class of subarray and array_ref
   (after fix 6c4fe5c): the assertion is false and the assertion-enabled build aborts before the copy loop runs *)
Theorem C20_assign_fire :
  forall (k : akind) (dst src : view), view_kind k = true ->
    x_eq (l_extensions (lay dst)) (l_extensions (lay src)) = false ->
    asrt_assign k dst src = false /\ forall conv m, g_assign Debug k conv dst src m = Aborted.
Proof. exact C20_assign_fire_proved. Qed.
Print Assumptions C20_assign_fire.
(* elements() = elements() (flat ranges compare sizes): stopped when the element counts differ *)
Theorem C20_elements_assign_fire :
  forall dst src conv m, l_num_elements (lay dst) <> l_num_elements (lay src) ->
    asrt_assign AElems dst src = false /\ g_assign Debug AElems conv dst src m = Aborted.
Proof. exact C20_elements_assign_fire_proved. Qed.
Print Assumptions C20_elements_assign_fire.
(* an assignment between well-formed views that is not stopped copies exactly as many elements as the destination has *)
Theorem C20_unstopped_assign_fits :
  forall k dst src, lok (lay dst) -> lok (lay src) -> asrt_assign k dst src = true -> er_size dst = er_size src.
Proof. exact C20_unstopped_assign_fits_proved. Qed.
Print Assumptions C20_unstopped_assign_fits.

(* ALIASING OPERANDS (two views of ONE array).  The assertion of every overload class is a function of the two layouts only:
   replacing the base pointers -- in particular making them equal -- changes neither the assertion nor the abort. *)
Theorem C20_assign_base_irrelevant :
  forall k d s bd bs conv m,
    asrt_assign k (mkview (lay d) bd) (mkview (lay s) bs) = asrt_assign k d s
    /\ (g_assign Debug k conv (mkview (lay d) bd) (mkview (lay s) bs) m = Aborted <-> g_assign Debug k conv d s m = Aborted).
Proof. exact C20_assign_base_irrelevant_proved. Qed.
Print Assumptions C20_assign_base_irrelevant.
(* two views obtained from one root array (any index bases) by two view programs -- same first element and strides with
   different extents, overlapping blocks, a block and a sub-block, a row and a column, the very same elements -- assigned,
   move-assigned, swapped (every overload class of subarray and array_ref): the assertion-enabled build stops the statement
   before the copy loop EXACTLY when the extensions differ, and runs the copy loop when they are equal *)
Theorem C20_assign_aliasing_exact :
  forall (exts : list range) (opsd opss : list op) (d s : view) (k : akind),
    Forall (fun r => fst r <= snd r) exts ->
    run_ok opsd (root_view exts) = true -> run_ok opss (root_view exts) = true ->
    run_ops opsd (root_view exts) = Some d -> run_ops opss (root_view exts) = Some s ->
    view_kind k = true ->
    forall conv m,
       (x_eq (l_extensions (lay d)) (l_extensions (lay s)) = false -> g_assign Debug k conv d s m = Aborted)
    /\ (x_eq (l_extensions (lay d)) (l_extensions (lay s)) = true -> g_assign Debug k conv d s m = Done (assign_view conv d s m)).
Proof. exact C20_assign_aliasing_exact_proved. Qed.
Print Assumptions C20_assign_aliasing_exact.

(* VIEW-FORMING CALLS OUTSIDE THEIR DOCUMENTED DOMAIN are stopped: taked / dropped with a count above size(), halved() of an odd
   size, partitioned by 0 or by a non-divisor, sliced (D > 1) with a bound outside the extension; counts up to size() included
   (the boundary count = size()) pass *)
Theorem C20_violating_ops_fire :
  forall (v : view) (d : dim) (l : layout), lay v = d :: l ->
       (forall n, v_size v < n -> g_apply Debug (OTaked n) v = Aborted /\ g_apply Debug (ODropped n) v = Aborted)
    /\ (Z.rem (v_size v) 2 <> 0 -> g_apply Debug OHalved v = Aborted)
    /\ (forall n, n = 0 \/ Z.rem (d_nelems d) n <> 0 -> g_apply Debug (OPartitioned n) v = Aborted)
    /\ (forall a b d' l', l = d' :: l' -> dok d -> a <> b ->
          r_contains (d_extension d) a = false \/ r_contains (d_extension d) (b - 1) = false ->
          g_apply Debug (OSliced a b) v = Aborted)
    /\ (forall n, n <= v_size v -> asrt_op (OTaked n) v = true /\ asrt_op (ODropped n) v = true).
Proof. exact C20_violating_ops_fire_proved. Qed.
Print Assumptions C20_violating_ops_fire.

(* layout_t::scale (member_cast, reinterpret_array_cast) AFTER notes/patches_C20/scale-offset-rebased.diff: its assertions hold on
   every well-formed layout with any index bases whenever the stride assertion (the documented size compatibility) holds, and the
   cast keeps the index range; the assertion of the code before the fix (offset_ == 0, "TODO implement") is false on the array
   indexed [2,5) although the call is inside its domain *)
Theorem C20_scale_asserts_silent :
  forall (num den : Z) (l : layout), lok l -> asrt_scale_stride num den l = true -> asrt_scale_plain num den l = true.
Proof. exact C20_scale_asserts_silent_proved. Qed.
Print Assumptions C20_scale_asserts_silent.
Theorem C20_scale_keeps_extension :
  forall (k den : Z) (d : dim) (f n : Z), 0 < k -> 0 < den -> dim_okg d f n ->
    dim_okg (d_scale_fixed (k * den) den d) f n
    /\ d_extension (d_scale_fixed (k * den) den d) = d_extension d.
Proof. exact C20_scale_keeps_extension_proved. Qed.
Print Assumptions C20_scale_keeps_extension.
Theorem C20_scale_old_refuted : exists l, lok l /\ asrt_scale_stride 16 8 l = true /\ asrt_scale_old l = false.
Proof. exact C20_scale_old_refuted_proved. Qed.
Print Assumptions C20_scale_old_refuted.

(* (3) NDEBUG / BOOST_MULTI_ASSERT_DISABLE CHANGE NOTHING.  exec_op, the iterator and the assignment functions are
   defined in files that do not import Asserts.v; executing a valid program under the assertion switch gives, in all
   three configurations, the view run_ops computes. *)
Theorem C20_ndebug_invariant :
  forall (sz : list Z) (ops : list op) (w : view),
    Forall (fun n => 0 <= n) sz -> Forall c01_op ops ->
    run_ops ops (root_view (zb sz)) = Some w ->
    forall c : config, g_run c ops (root_view (zb sz)) = Done w.
Proof. exact C20_ndebug_invariant_proved. Qed.
Print Assumptions C20_ndebug_invariant.
Theorem C20_ndebug_invariant_rebased :
  forall (exts : list range) (ops : list op) (w : view),
    Forall (fun r => fst r <= snd r) exts -> run_ok ops (root_view exts) = true ->
    run_ops ops (root_view exts) = Some w ->
    forall c : config, g_run c ops (root_view exts) = Done w.
Proof. exact C20_ndebug_invariant_rebased_proved. Qed.
Print Assumptions C20_ndebug_invariant_rebased.

(* a valid slice of an EMPTY owning array (null base pointer) trips array_ref.hpp:1263 *)
Theorem C20_null_base_slice_refuted : ~ C20_null_base_slice_full.
Proof. exact C20_null_base_slice_refuted_proved. Qed.
Print Assumptions C20_null_base_slice_refuted.
Theorem C20_null_base_slice_partial :
  forall v d sub, lay v = d :: sub -> dok d -> 0 < d_size d ->
    asrt_sliced_nullbase (fst (d_extension d)) v = true.
Proof. exact C20_null_base_slice_partial_proved. Qed.
Print Assumptions C20_null_base_slice_partial.

(* (4) LIFECYCLE.  Every fault-free history of array.hpp entry points in the documented domain of Model/Life.v (constructors,
   copy / move / view / range / converting assignment, swap, clear, reshape, the three reextent overloads, any rank >= 1, index
   bases, empty and zero-inner-extent cases; Proofs/LifeOps.v dom_op, Proofs/LifeMain.v hist_dom): no assertion transcribed in
   Model/AssertsLife.v is false -- reshape's num_elements equality (array.hpp:1239), the extension assertions reached through
   assignment from views (array.hpp:692/:704/:1077, array_ref.hpp:2079/:2087) incl. the one after reshape(other.extensions()),
   the sliced / null-base / elements-size assertions of reextent's block transfer (array_ref.hpp:1259-1263, :977-995), and
   assert(stride() != 0).  (Model.Life is required, not imported: it has its own `config`, `zb`, `collapse`.) *)
From BM Require Model.Life Model.AssertsLife Proofs.LifeMain Proofs.AssertsLifeProofs.
Theorem C20_lifecycle_asserts_silent :
  forall cfg : Life.config, (1 <= Life.c_rank cfg)%nat ->
  forall h : list Life.lop, LifeMain.hist_dom cfg h (Life.st0 None) ->
    AssertsLife.life_asserts cfg h (Life.st0 None) = true.
Proof. exact AssertsLifeProofs.C20_lifecycle_asserts_silent_proved. Qed.
Print Assumptions C20_lifecycle_asserts_silent.

(* C18 -- MPI messages built from a view denote exactly its elements in canonical order; created
   datatypes are committed before use and freed exactly once.
   This file holds only the property theorems, each closed by `exact`, with Print Assumptions. *)
From BM Require Import Base.Tactics Model.Layout Model.View Model.Spec
  Model.MpiTypes Model.MpiSkeleton Model.MpiLedger Model.MpiRun
  Proofs.LayoutProofs Proofs.ViewProofs2 Proofs.MpiSkeletonProofs Proofs.C18Injective Proofs.C18Main.
Local Open Scope Z_scope.

(* The (count, datatype) that mpi.hpp builds for a view's elements() denotes, relative to buffer() =
   base(), exactly the byte displacements of the view's elements in canonical order: as the view's own
   chained-bracket address arithmetic gives them at the canonical index tuples (elem_offsets), and as
   the library's flat iteration computes elements()[k] (flat_offsets); the canonical index tuples are
   exactly the valid ones, each once; so: no more, no fewer, none outside the view.
   All ranks >= 1, all sizes >= 0 (including 0 and 1), all strides, all element sizes. *)
Theorem C18_message_is_elements :
  forall (l : layout) (szs : list Z) (S : Z),
    lay_ok l szs ->
    l <> [] ->
    let m := message_model l S in
       fst m = l_size l
    /\ message_bytes (fst m) (snd m) = elem_offsets l szs S
    /\ message_bytes (fst m) (snd m) = flat_offsets l S
    /\ (forall idx, In idx (canon_indices szs) <-> valid_idx szs idx)
    /\ NoDup (canon_indices szs)
    /\ length (message_bytes (fst m) (snd m)) = Z.to_nat (l_num_elements l).
Proof. exact C18_message_is_elements_proved. Qed.
Print Assumptions C18_message_is_elements.

(* For every view reachable as in C01 (any root extents, any sequence of in-domain view operations)
   the entries of the message are the elements reached by chained brackets at the canonical index
   tuples of the composed documented index maps, and every one lies inside the root array. *)
Theorem C18_reachable_view :
  forall (rsz : list Z) (ops : list op) (v : view) (S : Z),
    Forall (fun n => 0 <= n) rsz ->
    Forall c01_op ops ->
    run_ops ops (root_view (zb rsz)) = Some v ->
    lay v <> [] ->
    let a := run_spec ops (root_spec rsz) in
    let m := message_model (lay v) S in
       message_bytes (fst m) (snd m)
       = map (fun idx => S * (addr_brackets v idx - base v)) (canon_indices (asz a))
    /\ (forall idx, In idx (canon_indices (asz a)) ->
          valid_idx (asz a) idx /\ 0 <= addr_brackets v idx < prod rsz).
Proof. exact C18_reachable_view_proved. Qed.
Print Assumptions C18_reachable_view.

(* Packing through one view's message and unpacking through the message of any view with the same
   number of elements, of any other layout, moves the k-th element to the k-th element and changes
   nothing that is not an element of the receiving view. *)
Theorem C18_transfer :
  forall (V : Type) (lv lw : layout) (szv szw : list Z) (S bv bw : Z) (msrc mdst : Z -> V),
    lay_ok lv szv -> lv <> [] -> lay_ok lw szw -> lw <> [] ->
    l_num_elements lv = l_num_elements lw ->
    NoDup (elem_offsets lw szw S) ->
    let mv := message_model lv S in
    let mw := message_model lw S in
    let packed := pack msrc bv (message_bytes (fst mv) (snd mv)) in
    let m' := unpack mdst bw (message_bytes (fst mw) (snd mw)) packed in
       length packed = Z.to_nat (l_num_elements lv)
    /\ (forall k, 0 <= k < l_num_elements lv ->
            nth (Z.to_nat k) packed (msrc (bv + 0))
            = msrc (bv + S * l_call lv (x_from_linear (l_extensions lv) k))
         /\ m' (bw + S * l_call lw (x_from_linear (l_extensions lw) k))
            = msrc (bv + S * l_call lv (x_from_linear (l_extensions lv) k)))
    /\ (forall a, (forall idx, valid_idx szw idx -> a <> bw + S * l_addr lw idx) -> m' a = mdst a).
Proof. exact C18_transfer_proved. Qed.
Print Assumptions C18_transfer.

(* The same between two views reachable as in C01 (any roots, any in-domain operation sequences on either
   side): no premise about overlap is needed, the documented index maps are injective. *)
Theorem C18_transfer_reachable :
  forall (V : Type) (rsv rsw : list Z) (opsv opsw : list op) (v w : view) (S bv bw : Z) (msrc mdst : Z -> V),
    Forall (fun n => 0 <= n) rsv -> Forall c01_op opsv -> run_ops opsv (root_view (zb rsv)) = Some v -> lay v <> [] ->
    Forall (fun n => 0 <= n) rsw -> Forall c01_op opsw -> run_ops opsw (root_view (zb rsw)) = Some w -> lay w <> [] ->
    l_num_elements (lay v) = l_num_elements (lay w) ->
    S <> 0 ->
    let aw := run_spec opsw (root_spec rsw) in
    let mv := message_model (lay v) S in
    let mw := message_model (lay w) S in
    let packed := pack msrc bv (message_bytes (fst mv) (snd mv)) in
    let m' := unpack mdst bw (message_bytes (fst mw) (snd mw)) packed in
       length packed = Z.to_nat (l_num_elements (lay v))
    /\ (forall k, 0 <= k < l_num_elements (lay v) ->
            nth (Z.to_nat k) packed (msrc (bv + 0))
            = msrc (bv + S * l_call (lay v) (x_from_linear (l_extensions (lay v)) k))
         /\ m' (bw + S * l_call (lay w) (x_from_linear (l_extensions (lay w)) k))
            = msrc (bv + S * l_call (lay v) (x_from_linear (l_extensions (lay v)) k)))
    /\ (forall a, (forall idx, valid_idx (asz aw) idx -> a <> bw + S * l_addr (lay w) idx) -> m' a = mdst a).
Proof. exact C18_transfer_reachable_proved. Qed.
Print Assumptions C18_transfer_reachable.

(* In the MPI calls made over the life of a message/skeleton, of create_subarray (+ the caller's
   commit/use/free) and of data: every created datatype handle is fresh, constructor arguments are
   predefined or live, the handle passed to communication is committed first, every created handle is
   freed exactly once, nothing else is freed, nothing is live at the end (freed_once, Proofs/C18Main.v).
   All ranks, any number of uses. *)
Theorem C18_types_freed_once :
  forall (l : layout) (S : Z) (uses : nat), l <> [] ->
       freed_once (message_trace l S uses 1)
    /\ freed_once (create_subarray_trace l S uses 1)
    /\ freed_once (aux_trace l S uses 1)
    /\ (forall stride count, freed_once (data_trace stride count uses 1)).
Proof. exact C18_types_freed_once_proved. Qed.
Print Assumptions C18_types_freed_once.

(* create_subarray's datatype, with count 1, denotes the same elements. *)
Theorem C18_create_subarray :
  forall (l : layout) (szs : list Z) (S : Z), lay_ok l szs -> l <> [] ->
    message_bytes 1 (create_subarray_model l S) = elem_offsets l szs S.
Proof. exact C18_create_subarray_proved. Qed.
Print Assumptions C18_create_subarray.

(* data(iterator): what it denotes; the reading "count n = the n elements the iterator visits" is
   refuted (witness stride 2, 3 elements of 4 bytes) and holds exactly for stride 1 or n <= 1. *)
Theorem C18_data :
  forall stride S n, message_bytes n (data_model stride S) = map (fun k => k * S) (zseq n).
Proof. exact C18_data_proved. Qed.
Print Assumptions C18_data.

Theorem C18_data_strided_refuted : ~ C18_data_strided_full.
Proof. exact C18_data_strided_refuted_proved. Qed.
Print Assumptions C18_data_strided_refuted.

Theorem C18_data_strided_partial :
  forall stride S n, data_exclusion stride n ->
    message_bytes n (data_model stride S) = map (fun k => k * stride * S) (zseq n).
Proof. exact C18_data_strided_partial_proved. Qed.
Print Assumptions C18_data_strided_partial.

(* C16 -- Const-ness propagates: nothing reachable from a const array or view is writable.
   This file holds only the property theorems, each closed by `exact`, with Print Assumptions.
   Model: coq/Model/ConstAutomaton.v (tied row by row to the library by the check); proofs: coq/Proofs/ConstAutomatonProofs.v.
   The model follows /repo after the five C16 repairs 0cc5cd0, c42ae62, 0310609, 49fc935, f94579a. *)
From Coq Require Import List Bool.
Import ListNotations.
From BM Require Import Model.ConstAutomaton Proofs.ConstAutomatonProofs.

(* The first clause at full strength (every access path from a const root) is still FALSE of the code: one site is
   open, array_iterator<D>=2, IsConst>::base() const -> element_ptr (array_ref.hpp:632): *A.begin().base() = 1. *)
Theorem C16_const_propagates_refuted : ~ C16_const_full.
Proof. exact const_full_refuted. Qed.
Print Assumptions C16_const_propagates_refuted.

(* What holds: along every path, of any length and at any dimensionality, that does not take the one excluded step
   (`hole` = base() of a const_iterator of dimensionality >= 2), a read-only typed expression -- a const array, a
   const-qualified view or array_ref, a const_subarray, a const_iterator, a const subarray_ptr, anything over a pointer
   to const, a reference to const -- only yields read-only typed expressions, and none of them accepts `=`, fill or swap. *)
Theorem C16_const_propagates :
  forall (p : list aop) (s s' : state),
    ro s = true -> clean_path p s = true -> run_path p s = Some s' ->
    ro s' = true /\ writable s' = false.
Proof. exact const_propagates_proved. Qed.
Print Assumptions C16_const_propagates.

Theorem C16_const_roots :
  forall (r : state) (p : list aop) (s : state),
    const_root r = true -> clean_path p r = true -> run_path p r = Some s -> writable s = false.
Proof. exact const_roots_proved. Qed.
Print Assumptions C16_const_roots.

(* the five steps that had to be excluded on the snapshot (const_iterator[] / (), const_subarray::elements() on a non-const
   object, origin() const&, addressof()/operator& of a const_subarray, const_subarray_ptr::base()) are covered now: the
   former witness paths are clean and end in a reference to const *)
Theorem C16_repaired_sites_are_clean :
     (clean_path [ABegin; AIndex; AIndex] cA2 = true
      /\ run_path [ABegin; AIndex; AIndex] cA2 = Some (mkSt KElem 0 true Lv))
  /\ (clean_path [ACall0; AElements; ABegin; AIndex] cA2 = true
      /\ run_path [ACall0; AElements; ABegin; AIndex] cA2 = Some (mkSt KElem 0 true Lv))
  /\ (clean_path [ACall0; AOrigin; ADeref] cA2 = true
      /\ run_path [ACall0; AOrigin; ADeref] cA2 = Some (mkSt KElem 0 true Lv))
  /\ (clean_path [ACall0; AAddrOf; ADeref; AIndex; AIndex] cA2 = true
      /\ run_path [ACall0; AAddrOf; ADeref; AIndex; AIndex] cA2 = Some (mkSt KElem 0 true Lv))
  /\ (clean_path [ABegin; AArrow; ABase; ADeref] cA2 = true
      /\ run_path [ABegin; AArrow; ABase; ADeref] cA2 = Some (mkSt KElem 0 true Lv)).
Proof. exact repaired_sites_are_clean. Qed.
Print Assumptions C16_repaired_sites_are_clean.

(* Second clause: from a mutable expression, along mutability-keeping operations (keeps_mut), the result
   stays mutable, and every element lvalue, view, array or element range reached accepts a mutator. *)
Theorem C16_mutable_paths :
  forall (p : list aop) (s s' : state),
    ro s = false -> mut_path p s = true -> run_path p s = Some s' ->
    ro s' = false /\ (assignable_thing s' = true -> writable s' = true).
Proof. exact mutable_paths_proved. Qed.
Print Assumptions C16_mutable_paths.

Theorem C16_mutable_roots :
  forall (r : state) (p : list aop) (s : state),
    mutable_root r = true -> mut_path p r = true -> run_path p r = Some s ->
    assignable_thing s = true -> writable s = true.
Proof. exact mutable_roots_proved. Qed.
Print Assumptions C16_mutable_roots.

(* the second clause over ALL operations not meant to produce const is false of the code
   (A.reindexed(1)[1][1] on a mutable A is an int const&); mutability is lost only at the named operations *)
Theorem C16_mutable_full_refuted : ~ C16_mutable_full.
Proof. exact mutable_full_refuted. Qed.
Print Assumptions C16_mutable_full_refuted.

Theorem C16_mutability_lost_only_at_gaps :
  forall s o s', ro s = false -> astep s o = To s' -> ro s' = true ->
    (owning (sk s) && match scat s with Rv => true | Lv => false end) = false ->
    gap_op o = true \/ intended_const_op o = true \/ (o = ABase /\ sk s = KEI false /\ sc s = true).
Proof. exact mutability_lost_only_at_gaps. Qed.
Print Assumptions C16_mutability_lost_only_at_gaps.

(* Third clause: views and array references cannot be rebound, resized or copy-constructed; assigning to
   them is element assignment, accepted exactly when the view is not read-only. *)
Theorem C16_no_rebind :
  forall k, is_view k = true \/ is_array_ref k = true ->
    rebindable k = false /\ resizable k = false /\ copy_constructible k = false.
Proof. exact no_rebind_proved. Qed.
Print Assumptions C16_no_rebind.

Theorem C16_view_assignment :
  forall s, (is_view (sk s) = true \/ is_array_ref (sk s) = true) ->
    (ro s = true -> astep s AAssign <> Mut) /\ (ro s = false -> astep s AAssign = Mut).
Proof. exact view_assignment_is_element_assignment. Qed.
Print Assumptions C16_view_assignment.

(* C16 -- Const-ness propagates: nothing reachable from a const array or view is writable.
   This file holds only the property theorems, each closed by `exact`, with Print Assumptions.
   Model: coq/Model/ConstAutomaton.v (tied row by row to the library by the check); proofs: coq/Proofs/ConstAutomatonProofs.v.
   The model follows /repo after the five C16 repairs 0cc5cd0, c42ae62, 0310609, 49fc935, f94579a and 9ea7c0b; the alphabet
   holds the access / view-forming operations, the projections (element_transformed, member_cast, the array casts, element_moved),
   the conversions between handle kinds (implicit, explicit, by assignment, comparison), view construction and decay. *)
From Coq Require Import List Bool.
Import ListNotations.
From BM Require Import Model.ConstAutomaton Proofs.ConstAutomatonProofs.

(* The first clause at full strength (every access path from a const root) is still FALSE of the code:
   array_iterator<D>=2, IsConst>::base() const -> element_ptr (array_ref.hpp:632): *A.begin().base() = 1. *)
Theorem C16_const_propagates_refuted : ~ C16_const_full.
Proof. exact const_full_refuted. Qed.
Print Assumptions C16_const_propagates_refuted.

(* What holds: along every path, of any length and at any dimensionality, that takes none of the excluded steps, a read-only
   typed expression -- a const array, a const-qualified view or array_ref, a const_subarray, a const_iterator, a const subarray_ptr,
   anything over a pointer to const or over a transform_ptr whose reference is const / a value, a reference to const -- only yields
   read-only typed expressions, and none of them accepts `=`, fill or swap.  `hole` excludes
     base() of a const_iterator of dimensionality >= 2                        (array_ref.hpp:632)
     base() of a transform_ptr whose reference is const / a value             (utility.hpp:109: the wrapped pointer to S)
     const subarray_ptr -> subarray_ptr                                       (array_ref.hpp:367-375; repair 06)
     transform_ptr<.., int const&> -> transform_ptr<.., int&> and the handles over them   (utility.hpp:104-108; repair 07)
     static_array_cast<T>() of a read-only view                               (array_ref.hpp:1700: [[deprecated("violates constness")]])
     member_cast() of a 1-D read-only view                                    (array_ref.hpp:3266; repair 08)
     element_transformed(f) / member_cast(pm) of a non-const const_subarray   (array_ref.hpp:1735, :1766, :3249; repair 08)
   and the library's named ways out, const_array_cast() and mutable_base().  Each is shown real by C16_holes_are_real. *)
Theorem C16_const_propagates :
  forall (p : list aop) (s s' : state),
    ro s = true -> clean_path p s = true -> run_path p s = Some s' ->
    ro s' = true /\ writable s' = false.
Proof. exact const_propagates_proved. Qed.
Print Assumptions C16_const_propagates.

Theorem C16_const_roots :
  forall (r : state) (p : list aop) (s : state),
    const_root r = true -> clean_path p r = true -> run_path p r = Some s -> writable s = false.
Proof. exact const_roots_proved. Qed.
Print Assumptions C16_const_roots.

(* every exclusion is a site of the tree at which a path from a const root does end writable (transform_ptr::base(): in a mutable
   pointer to the struct element); the four with a proposed repair under the hypothesis that the repair is not in the tree *)
Theorem C16_holes_are_real :
     (run_path [ABegin; ABase; ADeref] cA2 = Some (mkSt KElem 0 false Lv) /\ writable (mkSt KElem 0 false Lv) = true
      /\ hole (mkSt (KIt true (PI false)) 2 false Rv) ABase = true)
  /\ (fx_sptr_conv = false ->
      run_path [ACall0; AAddrOf; AConv FI false false; ADeref; AIndex; AIndex] cA2 = Some wE /\ writable wE = true
      /\ hole (mkSt (KSP true (PI false)) 2 false Rv) (AConv FI false false) = true)
  /\ (fx_tptr_conv = false ->
      run_path [ABase; AConv FI false false; ADeref] cP2 = Some wE /\ writable wE = true
      /\ hole (mkSt (KPt (PT TmC)) 0 false Rv) (AConv FI false false) = true)
  /\ (fx_csub_proj = false ->
      run_path [AMemberCast; AIndex] cAS1 = Some wE /\ writable wE = true /\ hole cAS1 AMemberCast = true)
  /\ (fx_csub_proj = false ->
      run_path [ACall0; AETransMP; AIndex; AIndex] cAS2 = Some wE /\ run_path [ACall0; AMemberCast; AIndex; AIndex] cAS2 = Some wE
      /\ writable wE = true
      /\ hole (mkSt (KCSubS false) 2 false Rv) AETransMP = true /\ hole (mkSt (KCSubS false) 2 false Rv) AMemberCast = true)
  /\ (run_path [AStaticCast; AIndex; AIndex] cA2 = Some wE /\ writable wE = true /\ hole cA2 AStaticCast = true)
  /\ (run_path [ABase; ABase] cP2 = Some (mkSt (KPtS false) 0 true Lv) /\ ro (mkSt (KPtS false) 0 true Lv) = false
      /\ hole (mkSt (KPt (PT TmC)) 0 false Rv) ABase = true)
  /\ (run_path [AConstCast; AIndex; AIndex] cA2 = Some wE /\ run_path [AMutableBase; ADeref] cA2 = Some wE /\ writable wE = true
      /\ hole cA2 AConstCast = true /\ hole cA2 AMutableBase = true).
Proof.
  exact (conj witness_iter_base (conj witness_sptr_conv (conj witness_tptr_conv (conj witness_member_cast1
        (conj witness_csub_proj (conj witness_static_cast (conj witness_tptr_base witness_escapes))))))).
Qed.
Print Assumptions C16_holes_are_real.

(* the projections and the conversions between handle kinds are covered: a projection view held by auto const& yields int const&
   along [i][j], (i,j), elements(), home(), iterators; a const_iterator does not convert to an iterator *)
Theorem C16_projections_and_conversions :
     (clean_path [AIndex; AIndex] cP2 = true /\ run_path [AIndex; AIndex] cP2 = Some (mkSt KElem 0 true Lv))
  /\ (clean_path [ACallAll] cP2 = true /\ run_path [ACallAll] cP2 = Some (mkSt KElem 0 true Lv))
  /\ (clean_path [AElements; AIndex] cP2 = true /\ run_path [AElements; AIndex] cP2 = Some (mkSt KElem 0 true Lv))
  /\ (clean_path [AHome; ADeref] cP2 = true /\ run_path [AHome; ADeref] cP2 = Some (mkSt KElem 0 true Lv))
  /\ (clean_path [ABegin; ADeref; ABegin; ADeref] cP2 = true /\ run_path [ABegin; ADeref; ABegin; ADeref] cP2 = Some (mkSt KElem 0 true Lv))
  /\ (astep (mkSt (KIt true (PI false)) 2 false Rv) (AConv FI false false) = No
      /\ astep (mkSt (KIt true (PI false)) 2 false Rv) (AConv FE false false) = No
      /\ astep (mkSt (KIt true (PI false)) 2 false Rv) (AConv FA false false) = No).
Proof. exact projections_and_conversions_clean. Qed.
Print Assumptions C16_projections_and_conversions.

(* the five steps that had to be excluded on the snapshot (const_iterator[] / (), const_subarray::elements() on a non-const
   object, origin() const&, addressof()/operator& of a const_subarray, const_subarray_ptr::base()) are covered now: the
   former witness paths are clean and end in a reference to const *)
Theorem C16_repaired_sites_are_clean :
     (clean_path [ABegin; AIndex; AIndex] cA2 = true
      /\ run_path [ABegin; AIndex; AIndex] cA2 = Some (mkSt KElem 0 true Lv))
  /\ (clean_path [ACall0; AElements; ABegin; AIndex] cA2 = true
      /\ run_path [ACall0; AElements; ABegin; AIndex] cA2 = Some (mkSt KElem 0 true Lv))
  /\ (clean_path [ACall0; AOrigin; ADeref] cA2 = true
      /\ run_path [ACall0; AOrigin; ADeref] cA2 = Some (mkSt KElem 0 true Lv))
  /\ (clean_path [ACall0; AAddrOf; ADeref; AIndex; AIndex] cA2 = true
      /\ run_path [ACall0; AAddrOf; ADeref; AIndex; AIndex] cA2 = Some (mkSt KElem 0 true Lv))
  /\ (clean_path [ABegin; AArrow; ABase; ADeref] cA2 = true
      /\ run_path [ABegin; AArrow; ABase; ADeref] cA2 = Some (mkSt KElem 0 true Lv)).
Proof. exact repaired_sites_are_clean. Qed.
Print Assumptions C16_repaired_sites_are_clean.

(* Second clause: from a mutable expression, along mutability-keeping operations (keeps_mut), the result
   stays mutable, and every element lvalue, view, array or element range reached accepts a mutator. *)
Theorem C16_mutable_paths :
  forall (p : list aop) (s s' : state),
    ro s = false -> mut_path p s = true -> run_path p s = Some s' ->
    ro s' = false /\ (assignable_thing s' = true -> writable s' = true).
Proof. exact mutable_paths_proved. Qed.
Print Assumptions C16_mutable_paths.

Theorem C16_mutable_roots :
  forall (r : state) (p : list aop) (s : state),
    mutable_root r = true -> mut_path p r = true -> run_path p r = Some s ->
    assignable_thing s = true -> writable s = true.
Proof. exact mutable_roots_proved. Qed.
Print Assumptions C16_mutable_roots.

(* the second clause over ALL operations not meant to produce const is false of the code
   (A.reindexed(1)[1][1] on a mutable A is an int const&); mutability is lost only at the named operations *)
Theorem C16_mutable_full_refuted : ~ C16_mutable_full.
Proof. exact mutable_full_refuted. Qed.
Print Assumptions C16_mutable_full_refuted.

Theorem C16_mutability_lost_only_at_gaps :
  forall s o s', ro s = false -> astep s o = To s' -> ro s' = true ->
    (owning (sk s) && match scat s with Rv => true | Lv => false end) = false ->
    gap_op o = true \/ intended_const_op o = true \/ (o = ABase /\ is_ei (sk s) = true /\ sc s = true).
Proof. exact mutability_lost_only_at_gaps. Qed.
Print Assumptions C16_mutability_lost_only_at_gaps.

(* Third clause: views and array references cannot be rebound, resized or copy-constructed; assigning to
   them is element assignment, accepted exactly when the view is not read-only. *)
Theorem C16_no_rebind :
  forall k, is_view k = true \/ is_array_ref k = true ->
    rebindable k = false /\ resizable k = false /\ copy_constructible k = false.
Proof. exact no_rebind_proved. Qed.
Print Assumptions C16_no_rebind.

Theorem C16_view_assignment :
  forall s, (is_view (sk s) = true \/ is_array_ref (sk s) = true) ->
    (ro s = true -> astep s AAssign <> Mut) /\ (ro s = false -> assignable_thing s = true -> astep s AAssign = Mut).
Proof. exact view_assignment_is_element_assignment. Qed.
Print Assumptions C16_view_assignment.

(* C01 -- View algebra: every composed view has the prescribed shape and elements.
   This file holds only the property theorems, each closed by `exact`, with Print Assumptions. *)
From BM Require Import Base.Tactics Model.Layout Model.View Model.Spec
  Proofs.LayoutProofs Proofs.ViewProofs2 Proofs.C01Main.
Local Open Scope Z_scope.

Theorem C01_view_algebra :
  forall (sz : list Z) (ops : list op) (v : view),
    Forall (fun n => 0 <= n) sz ->
    Forall c01_op ops ->
    run_ops ops (root_view (zb sz)) = Some v ->
    let a := run_spec ops (root_spec sz) in
       shape_agrees v (asz a)
    /\ forall idx, valid_idx (asz a) idx ->
            valid_idx (collapse sz) (amap a idx)
         /\ addr_brackets v idx = rowmajor (collapse sz) (amap a idx)
         /\ addr_paren    v idx = addr_brackets v idx
         /\ addr_cursor   v idx = addr_brackets v idx
         /\ 0 <= addr_brackets v idx < prod sz.
Proof. exact C01_view_algebra_proved. Qed.
Print Assumptions C01_view_algebra.

Theorem C01_broadcast : forall u v i, v_index i (v_broadcasted u v) = v.
Proof. exact C01_broadcast_proved. Qed.
Print Assumptions C01_broadcast.

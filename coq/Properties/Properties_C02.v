(* C02 -- Iterators, cursors and flat element ranges obey the random-access laws.
   Only the property theorems, each closed by `exact`, with Print Assumptions. *)
From BM Require Import Base.Tactics Model.Layout Model.View Model.Spec Model.Iter
  Proofs.LayoutProofs Proofs.ViewProofs2 Proofs.IterProofs Proofs.ElemProofs Proofs.C02Main.
Local Open Scope Z_scope.

(* begin()/end() of any view (any index base f, n valid indices): positions are begin+p; ++/-- inverse,
   (it+k)-k == it, (it+k)-it == k, it<jt iff jt-it>0, == iff same position, it[k] is *(it+k),
   *(begin+p) is the sub-view at the p-th valid index, and any ++/--/+=/-= trace denotes the position
   the arithmetic computes. *)
Theorem C02_array_iterator_laws :
  forall (v : view) (d : dim) (l : layout) (f n : Z),
    lay v = d :: l -> dim_okg d f n -> d_stride d <> 0 ->
    let b := it_begin v in let e := it_end v in
       it_diff e b = n /\ it_add b n = e /\ it_add b 0 = b
    /\ (forall p, it_dec (it_inc (it_add b p)) = it_add b p /\ it_inc (it_dec (it_add b p)) = it_add b p)
    /\ (forall p k,
             it_add (it_add b p) k = it_add b (p + k)
          /\ it_sub (it_add (it_add b p) k) k = it_add b p
          /\ it_diff (it_add (it_add b p) k) (it_add b p) = k
          /\ it_lt (it_add b p) (it_add b (p + k)) = (0 <? k)
          /\ it_eq (it_add b p) (it_add b (p + k)) = (k =? 0)
          /\ it_index (it_add b p) k = it_deref (it_add b (p + k)))
    /\ (forall p, 0 <= p < n -> it_deref (it_add b p) = v_index (f + p) v)
    /\ (forall tr, run_a tr b = it_add b (run_pos tr 0)).
Proof. exact C02_array_iterator_laws_proved. Qed.
Print Assumptions C02_array_iterator_laws.

(* elements(): after any trace of ++ -- += -= that stays inside [begin, end] the iterator is at the
   position p the arithmetic computes, compares accordingly, dereferences (also through [k], and
   elements()[k], front(), back()) to the element at the p-th index tuple in canonical order, where
   canonical order is the rank bijection to_linear/from_linear of the extensions (last index fastest). *)
Theorem C02_elements_iterator_laws :
  forall (v : view) (fn : list (Z * Z)),
    lay_okg (lay v) fn -> Forall (fun p => 0 < snd p) fn ->
    let X := l_extensions (lay v) in let N := er_size v in
    forall (tr : list iop), trace_ok N 0 tr = true ->
      let it := run_e tr (er_begin v) in let p := run_pos tr 0 in
         en it = p /\ 0 <= p <= N
      /\ e_diff it (er_begin v) = p /\ e_diff (er_end v) it = N - p
      /\ e_eq it (er_begin v) = (p =? 0) /\ e_lt (er_begin v) it = (0 <? p) /\ e_lt it (er_end v) = (p <? N)
      /\ (p < N -> e_deref it = v_addr v (canon v p))
      /\ (forall k, e_index it k = v_addr v (canon v (p + k)))
      /\ (forall k, er_at v k = v_addr v (canon v k))
      /\ er_front v = v_addr v (canon v 0) /\ er_back v = v_addr v (canon v (N - 1))
      /\ (forall k, 0 <= k < N -> in_ext X (canon v k) /\ x_to_linear X (canon v k) = k)
      /\ (forall idx, in_ext X idx -> 0 <= x_to_linear X idx < N /\ canon v (x_to_linear X idx) = idx).
Proof. exact C02_elements_iterator_laws_proved. Qed.
Print Assumptions C02_elements_iterator_laws.

(* canonical order is lexicographic: the rank grows with the first differing index *)
Theorem C02_canonical_is_lexicographic :
  forall X r i j idx idx', xpos X -> in_ext X idx -> in_ext X idx' ->
    (i < j -> x_to_linear (r :: X) (i :: idx) < x_to_linear (r :: X) (j :: idx'))
 /\ (x_to_linear X idx < x_to_linear X idx' -> x_to_linear (r :: X) (i :: idx) < x_to_linear (r :: X) (i :: idx')).
Proof. intros; split; [apply TL_lex_head|apply TL_lex_tail]; assumption. Qed.
Print Assumptions C02_canonical_is_lexicographic.

(* all of the above for every view reachable as in C01, composed with C01: what is dereferenced is the
   element of the root array the documented index maps prescribe *)
Theorem C02_reachable :
  forall (sz : list Z) (ops : list op) (v : view),
    Forall (fun n => 0 <= n) sz -> Forall c01_op ops ->
    run_ops ops (root_view (zb sz)) = Some v ->
    let a := run_spec ops (root_spec sz) in
    (forall n r, asz a = n :: r ->
       (n = 0 -> it_begin v = it_end v) /\
       (0 < n -> exists d l, lay v = d :: l /\ dim_okg d 0 n /\ d_stride d <> 0 /\
          forall p, 0 <= p < n ->
            it_deref (it_add (it_begin v) p) = v_index p v /\
            forall idx, valid_idx r idx ->
              v_addr (it_deref (it_add (it_begin v) p)) idx = rowmajor (collapse sz) (amap a (p :: idx))))
    /\ (Forall (fun n => 0 < n) (asz a) ->
          lay_okg (lay v) (map (fun n => (0, n)) (asz a))
       /\ er_size v = prod (asz a)
       /\ l_extensions (lay v) = zb (asz a)
       /\ forall tr, trace_ok (er_size v) 0 tr = true ->
            let p := run_pos tr 0 in
            p < er_size v ->
            valid_idx (asz a) (canon v p) /\
            e_deref (run_e tr (er_begin v)) = rowmajor (collapse sz) (amap a (canon v p))).
Proof. exact C02_reachable_proved. Qed.
Print Assumptions C02_reachable.

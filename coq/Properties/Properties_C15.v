(* C15 -- FFTW adaptor equals the direct DFT on any strided views and dimension subset.
   This file holds only the property theorems, each closed by `exact`, with Print Assumptions.
   Model: Model/FftwPlan.v (the adaptor's plan builder and front ends, following fftw.hpp),
          Model/FftwDft.v  (mdft = what FFTW documents a plan computes; dftN = the direct DFT along
                            the masked dimensions; memory; running the external calls).
   The ring of complex numbers, the twiddle factor tw s n k = exp(s 2 pi i k/n), FFTW's executor
   fftw_exec and the two assumptions about the outside world (guru_contract: FFTW does what its
   manual says on its documented domain; tw_orthogonal: one-dimensional DFT inversion) are
   explicit parameters / premises of the statements below. *)
From Coq Require Import Permutation Ring.
From BM Require Import Base.Tactics Model.Layout Model.View Model.Spec Model.FftwPlan Model.FftwDft
  Proofs.LayoutProofs Proofs.FftwPlanProofs Proofs.FftwViewProofs Proofs.FftwDftProofs.
Local Open Scope Z_scope.

(* For every rank, mask, sizes and strides: the dims / howmany_dims the adaptor hands to
   fftw_plan_guru64_dft visit exactly the index set of the view, split by the mask, each index once,
   at the input view's and the output view's own addresses. *)
Theorem C15_plan_denotes_view_dft :
  forall (which : list bool) (vin vout : view),
    length which = length (lay vin) -> length (lay vout) = length (lay vin) ->
    zero_based (lay vin) -> zero_based (lay vout) ->
    let '(dims, hdims) := plan_of which (l_sizes (lay vin)) (l_strides (lay vin)) (l_strides (lay vout)) in
       Permutation (guru_cells dims hdims) (view_cells which vin vout)
    /\ map io_n dims = select which (l_sizes (lay vin))
    /\ map io_n hdims = select (map negb which) (l_sizes (lay vin))
    /\ length dims = count_occ bool_dec which true.
Proof. exact C15_plan_denotes_view_dft_proved. Qed.
Print Assumptions C15_plan_denotes_view_dft.

(* The locations the plan writes are exactly the elements of the output view, the locations it
   reads exactly those of the input view. *)
Theorem C15_output_frame :
  forall (which : list bool) (vin vout : view) (s : Z),
    length which = length (lay vin) -> length (lay vout) = length (lay vin) ->
    zero_based (lay vin) -> zero_based (lay vout) ->
    l_sizes (lay vout) = l_sizes (lay vin) ->
    let g := fftw_plan_dft which (base vin) (lay vin) (base vout) (lay vout) s in
       Permutation (plan_out_addresses g) (footprint vout)
    /\ Permutation (plan_in_addresses g) (footprint vin)
    /\ (forall a, In a (plan_out_addresses g) <->
                  exists idx, valid_idx (l_sizes (lay vout)) idx /\ a = v_addr vout idx).
Proof. exact C15_output_frame_proved. Qed.
Print Assumptions C15_output_frame.

(* The structural hypotheses above hold for every view the property quantifies over: views obtained
   from a zero-based array by sub-blocks (sliced), strides, rotations, transpositions, reversals. *)
Theorem C15_reachable_views :
  forall sz ops v, Forall c15_op ops -> run_ops ops (root_view (zb sz)) = Some v ->
    zero_based (lay v) /\ length (lay v) = length sz.
Proof. exact C15_reachable_views_proved. Qed.
Print Assumptions C15_reachable_views.

(* The calls themselves.  fftw::dft (and dft_forward / dft_backward / the in-place overload / fft::dft_*,
   which all go through it): no FFTW call for an empty input view, otherwise the calls of a plan object;
   a plan object: one plan with the view bases as pointers, the requested sign,
   FFTW_ESTIMATE | FFTW_PRESERVE_INPUT, the list lengths as ranks; one execute on the same pointers; one destroy. *)
Theorem C15_call_shape :
  forall which vin vout s,
    (if l_num_elements (lay vin) =? 0 then fe_dft which vin vout s = []
     else fe_dft which vin vout s = fe_plan_execute which vin vout s)
  /\ exists g, fe_plan_execute which vin vout s = [EvPlan g; EvExecute (base vin) (base vout); EvDestroy]
    /\ (g_dims g, g_hdims g) = plan_of which (l_sizes (lay vin)) (l_strides (lay vin)) (l_strides (lay vout))
    /\ g_in g = base vin /\ g_out g = base vout /\ g_sign g = s
    /\ g_flags g = 80 /\ Z.testbit (g_flags g) 4 = true
    /\ g_rank g = Z.of_nat (length (g_dims g)) /\ g_hrank g = Z.of_nat (length (g_hdims g)).
Proof. exact (fun which vin vout s => conj (fe_dft_call which vin vout s) (fe_plan_execute_call which vin vout s)). Qed.
Print Assumptions C15_call_shape.

(* Relative to FFTW's contract: the output view holds the direct DFT of the input view along
   exactly the masked dimensions (the others are batches), with the requested sign; nothing outside
   the output view is modified.  All extents >= 0: no exclusion (an empty view is a no-op since c24dd02). *)
Theorem C15_equals_direct_dft :
  forall (C : Type) (c0 : C) (cadd cmul : C -> C -> C)
         (tw : Z -> Z -> Z -> C) (fftw_exec : guru_call -> Z -> Z -> mem C -> mem C),
    guru_contract C c0 cadd cmul tw fftw_exec ->
    forall which vin vout s m,
      c15_domain which vin vout s ->
      c15_result C c0 cadd cmul tw which vin vout s m (dft_mem C fftw_exec which vin vout s m).
Proof. exact C15_equals_direct_dft_proved. Qed.
Print Assumptions C15_equals_direct_dft.

(* A distinct input is left unchanged. *)
Theorem C15_input_unchanged :
  forall (C : Type) (c0 : C) (cadd cmul : C -> C -> C)
         (tw : Z -> Z -> Z -> C) (fftw_exec : guru_call -> Z -> Z -> mem C -> mem C),
    guru_contract C c0 cadd cmul tw fftw_exec ->
    forall which vin vout s m,
      c15_domain which vin vout s ->
      (forall a b, In a (footprint vin) -> In b (footprint vout) -> a <> b) ->
      exists m', dft_mem C fftw_exec which vin vout s m = Some m' /\
        forall idx, valid_idx (l_sizes (lay vin)) idx -> m' (v_addr vin idx) = m (v_addr vin idx).
Proof. exact C15_input_unchanged_proved. Qed.
Print Assumptions C15_input_unchanged.

(* Forward followed by backward multiplies every element by the number of transformed points
   (relative to one-dimensional DFT inversion for tw at the transformed sizes:
      tw_orthogonal_at s n :=  forall j l in [0,n),  sum_k tw (-s) n (k l) * tw s n (j k) = n [j = l]). *)
Theorem C15_forward_backward :
  forall (C : Type) (c0 c1 : C) (cadd cmul csub : C -> C -> C) (copp : C -> C),
    ring_theory c0 c1 cadd cmul csub copp eq ->
  forall (tw : Z -> Z -> Z -> C) (fftw_exec : guru_call -> Z -> Z -> mem C -> mem C),
    guru_contract C c0 cadd cmul tw fftw_exec ->
    forall which vin vout v3 s m,
      c15_domain which vin vout s -> c15_domain which vout v3 (- s) ->
      Forall (tw_orthogonal_at C c0 c1 cadd cmul tw s) (select which (l_sizes (lay vin))) ->
      exists m1 m2, dft_mem C fftw_exec which vin vout s m = Some m1
                 /\ dft_mem C fftw_exec which vout v3 (- s) m1 = Some m2
                 /\ forall idx, valid_idx (l_sizes (lay vin)) idx ->
                      m2 (v_addr v3 idx) = cmul (zc C c0 c1 cadd (npoints which (l_sizes (lay vin)))) (m (v_addr vin idx)).
Proof. exact C15_forward_backward_proved. Qed.
Print Assumptions C15_forward_backward.

(* Explicit plan objects (plan::forward/backward(...).execute(...)) keep FFTW's own domain: the same
   result under no_empty_transform ... *)
Theorem C15_plan_object :
  forall (C : Type) (c0 : C) (cadd cmul : C -> C -> C)
         (tw : Z -> Z -> Z -> C) (fftw_exec : guru_call -> Z -> Z -> mem C -> mem C),
    guru_contract C c0 cadd cmul tw fftw_exec ->
    forall which vin vout s m,
      c15_domain which vin vout s -> no_empty_transform which vin ->
      c15_result C c0 cadd cmul tw which vin vout s m (plan_mem C fftw_exec which vin vout s m).
Proof. exact C15_plan_object_proved. Qed.
Print Assumptions C15_plan_object.

(* ... and the exclusion is needed there: with an empty transformed dimension FFTW returns a NULL plan, on
   which the plan constructor asserts (fftw.hpp:318, :415 -- the precondition of that interface). *)
Theorem C15_plan_object_needs_nonempty_transform :
  forall (C : Type) (fftw_exec : guru_call -> Z -> Z -> mem C -> mem C),
    exists which v, c15_domain which v v (-1) /\ ~ no_empty_transform which v
                    /\ forall m, plan_mem C fftw_exec which v v (-1) m = None.
Proof. exact C15_plan_object_needs_nonempty_transform_proved. Qed.
Print Assumptions C15_plan_object_needs_nonempty_transform.

(* The contract is satisfiable: the reference executor meets it, for every ring and every tw. *)
Theorem C15_contract_satisfiable :
  forall (C : Type) (c0 : C) (cadd cmul : C -> C -> C) (tw : Z -> Z -> Z -> C),
    guru_contract C c0 cadd cmul tw (ref_exec C c0 cadd cmul tw).
Proof. exact ref_exec_meets_contract. Qed.
Print Assumptions C15_contract_satisfiable.

(* The lazy form  out = multi::fft::dft(which, in, dir)  of adaptors/fft.hpp (dft_range): where the
   iterator-pair constructor it uses reproduces the operands it makes exactly the FFTW calls of
   dft(which, in, out, dir) ... *)
Theorem C15_lazy_range :
  forall which vin vout s,
    iter_pair_okb (l_size (lay vin)) vin = true -> iter_pair_okb (l_size (lay vin)) vout = true ->
    fe_fft_range which vin vout s = fe_dft which vin vout s.
Proof. exact C15_lazy_range_proved. Qed.
Print Assumptions C15_lazy_range.

(* ... which is the case for row-major arrays of EVERY rank and all positive sizes (since a7e1e64; before,
   only for rank 2) ... *)
Theorem C15_lazy_range_arrays :
  forall sz which s bi bo, Forall (fun n => 0 < n) sz ->
    let vin := mkview (mk_layout (zb sz)) bi in
    let vout := mkview (mk_layout (zb sz)) bo in
    fe_fft_range which vin vout s = fe_dft which vin vout s.
Proof. exact C15_lazy_range_arrays_proved. Qed.
Print Assumptions C15_lazy_range_arrays.

(* ... so that the lazy form computes the direct DFT as well. *)
Theorem C15_lazy_range_equals_direct_dft :
  forall (C : Type) (c0 : C) (cadd cmul : C -> C -> C)
         (tw : Z -> Z -> Z -> C) (fftw_exec : guru_call -> Z -> Z -> mem C -> mem C),
    guru_contract C c0 cadd cmul tw fftw_exec ->
    forall which vin vout s m,
      c15_domain which vin vout s ->
      iter_pair_okb (l_size (lay vin)) vin = true -> iter_pair_okb (l_size (lay vin)) vout = true ->
      c15_result C c0 cadd cmul tw which vin vout s m (fft_range_mem C fftw_exec which vin vout s m).
Proof. exact C15_lazy_range_equals_direct_dft_proved. Qed.
Print Assumptions C15_lazy_range_equals_direct_dft.

(* C15 -- FFTW adaptor equals the direct DFT on any strided views and dimension subset.
   This file holds only the property theorems, each closed by `exact`, with Print Assumptions.
   Model: Model/FftwPlan.v (the adaptor's plan builder and front ends, following fftw.hpp; FFTW's planner
                            flags and what the manual says about them; base() vs origin()),
          Model/FftwDft.v  (mdft = what FFTW documents a plan computes; dftN = the direct DFT along
                            the masked dimensions; memory; running the external calls, planning included).
   The ring of complex numbers, the twiddle factor tw s n k = exp(s 2 pi i k/n), FFTW's executor
   fftw_exec, FFTW's planner fftw_plan_effect and the three assumptions about the outside world
   (guru_contract: executing a plan does what the manual says on its documented domain; plan_contract:
   CREATING a plan does not write to the arrays when the flags contain FFTW_ESTIMATE or FFTW_WISDOM_ONLY --
   nothing is assumed for other flags; tw_orthogonal: one-dimensional DFT inversion) are explicit
   parameters / premises of the statements below.
   Views have ANY index base: lwf (Proofs/FftwBaseProofs.v) asks of every dimension only that a non-empty
   one has offset = first index * stride and that the extension has size() indices; it holds for every
   layout the library builds (over based extensions, reindexed, blocked, ...) and for every zero-based
   layout whatever its strides.  in_extl l idx: idx lies in the extensions of l; firsts l: the first index
   of every extension; footprint_x v: the addresses of v's elements by v's own bracket arithmetic. *)
From Coq Require Import Permutation Ring.
From BM Require Import Base.Tactics Model.Layout Model.View Model.Spec Model.Rebase Model.FftwPlan Model.FftwDft
  Proofs.LayoutProofs Proofs.IterProofs Proofs.RebaseProofs
  Proofs.FftwPlanProofs Proofs.FftwViewProofs Proofs.FftwDftProofs Proofs.FftwBaseProofs.
Local Open Scope Z_scope.

(* For every rank, mask, sizes, strides and index bases: the dims / howmany_dims the adaptor hands to
   fftw_plan_guru64_dft visit exactly the index set of the view, split by the mask, each index once,
   at the input view's and the output view's own addresses counted from their FIRST elements
   (view_cells_x: position k <-> index tuple k + firsts).  The tensor depends on sizes and strides only. *)
Theorem C15_plan_denotes_view_dft :
  forall (which : list bool) (vin vout : view),
    length which = length (lay vin) -> length (lay vout) = length (lay vin) ->
    lwf (lay vin) -> lwf (lay vout) -> l_sizes (lay vout) = l_sizes (lay vin) ->
    let '(dims, hdims) := plan_of which (l_sizes (lay vin)) (l_strides (lay vin)) (l_strides (lay vout)) in
       Permutation (guru_cells dims hdims) (view_cells_x which vin vout)
    /\ map io_n dims = select which (l_sizes (lay vin))
    /\ map io_n hdims = select (map negb which) (l_sizes (lay vin))
    /\ length dims = count_occ bool_dec which true.
Proof. exact C15_plan_denotes_view_dft_x_proved. Qed.
Print Assumptions C15_plan_denotes_view_dft.

(* The locations the plan writes are exactly the elements of the output view, the locations it
   reads exactly those of the input view. *)
Theorem C15_output_frame :
  forall (which : list bool) (vin vout : view) (s : Z),
    length which = length (lay vin) -> length (lay vout) = length (lay vin) ->
    lwf (lay vin) -> lwf (lay vout) -> l_sizes (lay vout) = l_sizes (lay vin) ->
    let g := plan_ctor which (base vin) (lay vin) (base vout) (lay vout) s in
       Permutation (plan_out_addresses g) (footprint_x vout)
    /\ Permutation (plan_in_addresses g) (footprint_x vin)
    /\ (forall a, In a (plan_out_addresses g) <-> exists idx, in_extl (lay vout) idx /\ a = v_addr vout idx).
Proof. exact C15_output_frame_x_proved. Qed.
Print Assumptions C15_output_frame.

(* The structural hypothesis holds for every view the property quantifies over: views obtained from an
   array over ANY index extensions by sub-blocks (sliced, blocked), strides, rotations, transpositions,
   reversals and re-indexing ... *)
Theorem C15_reachable_views :
  forall exts ops v, Forall (fun r => fst r <= snd r) exts -> Forall c15_op_x ops ->
    run_safe ops (root_view exts) = true -> run_ops ops (root_view exts) = Some v ->
    lwf (lay v) /\ length (lay v) = length exts.
Proof. exact C15_reachable_views_x_proved. Qed.
Print Assumptions C15_reachable_views.

(* ... and for every zero-based layout, whatever its strides and nelems (the domain of the earlier,
   zero-based statements is included). *)
Theorem C15_zero_based_is_wellformed : forall l, zero_based l -> lwf l.
Proof. exact zero_based_lwf. Qed.
Print Assumptions C15_zero_based_is_wellformed.

(* base() of a non-empty view is the address of its first element (all indices at the first index of
   their extension); origin() lies dotp firsts strides before it -- a different address as soon as an
   index base is not 0. *)
Theorem C15_base_is_first_element :
  forall v, lwf (lay v) -> Forall (fun n => 0 < n) (l_sizes (lay v)) ->
       v_addr v (firsts (lay v)) = base v
    /\ v_origin v = v_addr v (firsts (lay v)) - dotp (firsts (lay v)) (l_strides (lay v)).
Proof. exact C15_base_is_first_element_proved. Qed.
Print Assumptions C15_base_is_first_element.

(* The calls themselves.  fftw::dft (and dft_forward / dft_backward / the in-place overload / fft::dft_*,
   which all go through it): no FFTW call for an empty input view, otherwise the calls of a plan object;
   a plan object: one plan with the view bases as pointers, the requested sign,
   FFTW_ESTIMATE | FFTW_PRESERVE_INPUT, the list lengths as ranks; one execute on the same pointers; one destroy. *)
Theorem C15_call_shape :
  forall which vin vout s,
    (if l_num_elements (lay vin) =? 0 then fe_dft which vin vout s = []
     else fe_dft which vin vout s = fe_plan_execute which vin vout s)
  /\ exists g, fe_plan_execute which vin vout s = [EvPlan g; EvExecute (base vin) (base vout); EvDestroy]
    /\ (g_dims g, g_hdims g) = plan_of which (l_sizes (lay vin)) (l_strides (lay vin)) (l_strides (lay vout))
    /\ g_in g = base vin /\ g_out g = base vout /\ g_sign g = s
    /\ g_flags g = 80 /\ Z.testbit (g_flags g) 4 = true
    /\ g_rank g = Z.of_nat (length (g_dims g)) /\ g_hrank g = Z.of_nat (length (g_hdims g)).
Proof. exact (fun which vin vout s => conj (fe_dft_call which vin vout s) (fe_plan_execute_call which vin vout s)). Qed.
Print Assumptions C15_call_shape.

(* For non-empty views with any index bases: the pointer arguments of BOTH the planning call and the
   execute call are the addresses of the FIRST elements of the two views (not their origins), the execute
   call gets the pointers the plan was made for, and eager dft and plan objects make the same calls. *)
Theorem C15_call_pointers :
  forall which vin vout s,
    lwf (lay vin) -> lwf (lay vout) ->
    Forall (fun n => 0 < n) (l_sizes (lay vin)) -> l_sizes (lay vout) = l_sizes (lay vin) ->
    exists g, fe_dft which vin vout s = [EvPlan g; EvExecute (g_in g) (g_out g); EvDestroy]
      /\ fe_plan_execute which vin vout s = fe_dft which vin vout s
      /\ g_in g = v_addr vin (firsts (lay vin)) /\ g_out g = v_addr vout (firsts (lay vout))
      /\ (g_dims g, g_hdims g) = plan_of which (l_sizes (lay vin)) (l_strides (lay vin)) (l_strides (lay vout))
      /\ g_sign g = s /\ g_flags g = Z.lor FFTW_ESTIMATE FFTW_PRESERVE_INPUT.
Proof. exact C15_call_pointers_proved. Qed.
Print Assumptions C15_call_pointers.

(* The planner flags, for EVERY mask, pointer, layout -- hence every size --, sign and flags argument (the
   parameter is ignored): FFTW_ESTIMATE | FFTW_PRESERVE_INPUT.  By FFTW's documented contract
   (planning_preserves_arrays, Model/FftwPlan.v) creating the plan does not touch the arrays; an
   out-of-place execution preserves its input; the plan is not wisdom-only (so it exists). *)
Theorem C15_planner_flags :
  forall which bi li bo lo s flags,
    let g := fftw_plan_dft which bi li bo lo s flags in
       g_flags g = Z.lor FFTW_ESTIMATE FFTW_PRESERVE_INPUT
    /\ planning_preserves_arrays (g_flags g) = true
    /\ Z.testbit (g_flags g) 4 = true
    /\ planning_needs_wisdom (g_flags g) = false.
Proof. exact C15_planner_flags_proved. Qed.
Print Assumptions C15_planner_flags.

(* ... and the flag is needed: with an executor and a planner that meet both contracts (the planner clears
   the arrays exactly when the flags do not promise otherwise, as FFTW's measuring planner does), the calls
   the adaptor makes compute the DFT of (3, 5), while the same calls with FFTW_MEASURE | FFTW_PRESERVE_INPUT
   return zeros and destroy the input -- already for 2 points, i.e. independently of any size threshold. *)
Theorem C15_planner_flag_needed :
  let exec := ref_exec Z 0 Z.add Z.mul tw_pm in
  let planner := ref_plan_effect Z 0 in
  let vin := root_view [(0,2)] in
  let vout := mkview (mk_layout [(0,2)]) 10 in
  let m : mem Z := fun a => if a =? 0 then 3 else if a =? 1 then 5 else 0 in
     guru_contract Z 0 Z.add Z.mul tw_pm exec /\ plan_contract Z planner
  /\ (exists m', run_events Z exec planner (fe_dft [true] vin vout (-1)) None m = Some m'
                 /\ m' 10 = 8 /\ m' 11 = -2 /\ m' 0 = 3 /\ m' 1 = 5)
  /\ (exists m', run_events Z exec planner
                   (with_flags (Z.lor FFTW_MEASURE FFTW_PRESERVE_INPUT) (fe_dft [true] vin vout (-1))) None m = Some m'
                 /\ m' 10 = 0 /\ m' 11 = 0 /\ m' 0 = 0 /\ m' 1 = 0).
Proof. exact C15_planner_flag_needed_proved. Qed.
Print Assumptions C15_planner_flag_needed.

(* Relative to FFTW's contracts: the output view holds the direct DFT of the input view along
   exactly the masked dimensions (the others are batches), with the requested sign; nothing outside
   the output view is modified.  All extents >= 0, any index bases: no exclusion. *)
Theorem C15_equals_direct_dft :
  forall (C : Type) (c0 : C) (cadd cmul : C -> C -> C)
         (tw : Z -> Z -> Z -> C) (fftw_exec : guru_call -> Z -> Z -> mem C -> mem C)
         (fftw_plan_effect : guru_call -> mem C -> mem C),
    guru_contract C c0 cadd cmul tw fftw_exec -> plan_contract C fftw_plan_effect ->
    forall which vin vout s m,
      c15_domain_x which vin vout s ->
      c15_result_x C c0 cadd cmul tw which vin vout s m (dft_mem C fftw_exec fftw_plan_effect which vin vout s m).
Proof. exact C15_equals_direct_dft_x_proved. Qed.
Print Assumptions C15_equals_direct_dft.

(* A distinct input is left unchanged. *)
Theorem C15_input_unchanged :
  forall (C : Type) (c0 : C) (cadd cmul : C -> C -> C)
         (tw : Z -> Z -> Z -> C) (fftw_exec : guru_call -> Z -> Z -> mem C -> mem C)
         (fftw_plan_effect : guru_call -> mem C -> mem C),
    guru_contract C c0 cadd cmul tw fftw_exec -> plan_contract C fftw_plan_effect ->
    forall which vin vout s m,
      c15_domain_x which vin vout s ->
      (forall a b, In a (footprint_x vin) -> In b (footprint_x vout) -> a <> b) ->
      exists m', dft_mem C fftw_exec fftw_plan_effect which vin vout s m = Some m' /\
        forall idx, in_extl (lay vin) idx -> m' (v_addr vin idx) = m (v_addr vin idx).
Proof. exact C15_input_unchanged_x_proved. Qed.
Print Assumptions C15_input_unchanged.

(* Forward followed by backward multiplies every element by the number of transformed points
   (relative to one-dimensional DFT inversion for tw at the transformed sizes:
      tw_orthogonal_at s n :=  forall j l in [0,n),  sum_k tw (-s) n (k l) * tw s n (j k) = n [j = l]). *)
Theorem C15_forward_backward :
  forall (C : Type) (c0 c1 : C) (cadd cmul csub : C -> C -> C) (copp : C -> C),
    ring_theory c0 c1 cadd cmul csub copp eq ->
  forall (tw : Z -> Z -> Z -> C) (fftw_exec : guru_call -> Z -> Z -> mem C -> mem C)
         (fftw_plan_effect : guru_call -> mem C -> mem C),
    guru_contract C c0 cadd cmul tw fftw_exec -> plan_contract C fftw_plan_effect ->
    forall which vin vout v3 s m,
      c15_domain_x which vin vout s -> c15_domain_x which vout v3 (- s) ->
      Forall (tw_orthogonal_at C c0 c1 cadd cmul tw s) (select which (l_sizes (lay vin))) ->
      exists m1 m2, dft_mem C fftw_exec fftw_plan_effect which vin vout s m = Some m1
                 /\ dft_mem C fftw_exec fftw_plan_effect which vout v3 (- s) m1 = Some m2
                 /\ forall idx, in_extl (lay vin) idx ->
                      m2 (v_addr v3 idx) = cmul (zc C c0 c1 cadd (npoints which (l_sizes (lay vin)))) (m (v_addr vin idx)).
Proof. exact C15_forward_backward_x_proved. Qed.
Print Assumptions C15_forward_backward.

(* Explicit plan objects (plan::forward/backward(...).execute(...)) keep FFTW's own domain: the same
   result under no_empty_transform ... *)
Theorem C15_plan_object :
  forall (C : Type) (c0 : C) (cadd cmul : C -> C -> C)
         (tw : Z -> Z -> Z -> C) (fftw_exec : guru_call -> Z -> Z -> mem C -> mem C)
         (fftw_plan_effect : guru_call -> mem C -> mem C),
    guru_contract C c0 cadd cmul tw fftw_exec -> plan_contract C fftw_plan_effect ->
    forall which vin vout s m,
      c15_domain_x which vin vout s -> no_empty_transform which vin ->
      c15_result_x C c0 cadd cmul tw which vin vout s m (plan_mem C fftw_exec fftw_plan_effect which vin vout s m).
Proof. exact C15_plan_object_x_proved. Qed.
Print Assumptions C15_plan_object.

(* ... and the exclusion is needed there: with an empty transformed dimension FFTW returns a NULL plan, on
   which the plan constructor asserts (fftw.hpp:318, :415 -- the precondition of that interface). *)
Theorem C15_plan_object_needs_nonempty_transform :
  forall (C : Type) (fftw_exec : guru_call -> Z -> Z -> mem C -> mem C) (fftw_plan_effect : guru_call -> mem C -> mem C),
    exists which v, c15_domain_x which v v (-1) /\ ~ no_empty_transform which v
                    /\ forall m, plan_mem C fftw_exec fftw_plan_effect which v v (-1) m = None.
Proof. exact C15_plan_object_needs_nonempty_transform_x_proved. Qed.
Print Assumptions C15_plan_object_needs_nonempty_transform.

(* The contracts are satisfiable: the reference executor meets guru_contract for every ring and every tw,
   the reference planner (which does clear the arrays when the flags allow it) meets plan_contract. *)
Theorem C15_contract_satisfiable :
  forall (C : Type) (c0 : C) (cadd cmul : C -> C -> C) (tw : Z -> Z -> Z -> C),
    guru_contract C c0 cadd cmul tw (ref_exec C c0 cadd cmul tw) /\ plan_contract C (ref_plan_effect C c0).
Proof. exact (fun C c0 cadd cmul tw => conj (ref_exec_meets_contract C c0 cadd cmul tw) (ref_plan_meets_contract C c0)). Qed.
Print Assumptions C15_contract_satisfiable.

(* The lazy form  out = multi::fft::dft(which, in, dir)  of adaptors/fft.hpp (dft_range): where the leading
   dimension of both operands holds `count` whole strides -- whatever their index bases -- the iterator-pair
   constructor it uses changes the leading offset only, and it makes exactly the FFTW calls of
   dft(which, in, out, dir) ... *)
Theorem C15_lazy_range :
  forall which vin vout s,
    iter_pair_sizeb (l_size (lay vin)) vin = true -> iter_pair_sizeb (l_size (lay vin)) vout = true ->
    fe_fft_range which vin vout s = fe_dft which vin vout s.
Proof. exact C15_lazy_range_x_proved. Qed.
Print Assumptions C15_lazy_range.

(* ... which is the case for row-major arrays of EVERY rank over ANY index extensions with positive sizes
   (since a7e1e64; before, only for rank 2) ... *)
Theorem C15_lazy_range_arrays :
  forall xi xo which s bi bo,
    Forall (fun r => fst r < snd r) xi -> map r_size xo = map r_size xi ->
    let vin := mkview (mk_layout xi) bi in
    let vout := mkview (mk_layout xo) bo in
    fe_fft_range which vin vout s = fe_dft which vin vout s.
Proof. exact C15_lazy_range_arrays_x_proved. Qed.
Print Assumptions C15_lazy_range_arrays.

(* ... so that the lazy form computes the direct DFT as well. *)
Theorem C15_lazy_range_equals_direct_dft :
  forall (C : Type) (c0 : C) (cadd cmul : C -> C -> C)
         (tw : Z -> Z -> Z -> C) (fftw_exec : guru_call -> Z -> Z -> mem C -> mem C)
         (fftw_plan_effect : guru_call -> mem C -> mem C),
    guru_contract C c0 cadd cmul tw fftw_exec -> plan_contract C fftw_plan_effect ->
    forall which vin vout s m,
      c15_domain_x which vin vout s ->
      iter_pair_sizeb (l_size (lay vin)) vin = true -> iter_pair_sizeb (l_size (lay vin)) vout = true ->
      c15_result_x C c0 cadd cmul tw which vin vout s m (fft_range_mem C fftw_exec fftw_plan_effect which vin vout s m).
Proof. exact C15_lazy_range_equals_direct_dft_x_proved. Qed.
Print Assumptions C15_lazy_range_equals_direct_dft.

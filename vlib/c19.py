"""C19 -- index bases are transparent.  Proof: coq/Properties/Properties_C19.v.
Tie: the C01 and C02 correspondence checks on roots built from explicit index extensions with bases in
-3..3 and with reindexed/blocked in the alphabet; monitor independent of the model: the library run on
the zero-based twin program (indices shifted) designates the same elements."""
import re

from . import core, progcheck, c07, viewprog, c02, c05

PID = "C19"


def twin_monitor(impl_text, twin_text):
    """the re-based program and its zero-based twin, both run on the library: same sizes, strides,
    num_elements, emptiness after every operation and the same element at every (shifted) probe."""
    bad = []
    a, b = core.by_case(impl_text), core.by_case(twin_text)
    for cid, la in a.items():
        lb = b.get(cid)
        if lb is None:
            continue

        def strip(line):
            line = re.sub(r" ext=\S+", "", line)
            line = re.sub(r" idx=\S*", "", line)
            line = re.sub(r" H=\S+", "", line)   # a cursor is relative to home() by design (base + strides only): not part of C19
            return line
        sa, sb = [strip(x) for x in la], [strip(x) for x in lb]
        if sa != sb:
            for x, y in zip(sa, sb):
                if x != y:
                    bad.append((cid, "differs-from-zero-based-twin", "rebased: %s | twin: %s" % (x, y)))
                    break
            else:
                bad.append((cid, "differs-from-zero-based-twin", "%d vs %d lines" % (len(sa), len(sb))))
    return bad


def rebased_diagonal(block):
    """does the program apply diagonal() to a view whose first two index bases are not zero? (known finding)"""
    obs = VIEWS.model_run(block)
    ext = {}
    for line in obs.splitlines():
        if line.startswith("S "):
            p = line.split()
            ext[int(p[2])] = [q for q in p if q.startswith("ext=")][0][4:]
    step = 0
    for line in block.splitlines():
        if line.startswith("op "):
            if line.split()[1] == "diagonal":
                e = ext.get(step, "")
                firsts = [x.split(":")[0] for x in e.split(",")][:2]
                if any(f != "0" for f in firsts):
                    return True
            step += 1
    return False


def record_views(block, found_by, ml, il):
    return {"rebased_diagonal": rebased_diagonal(block)}


VIEWS = progcheck.Family(PID, "views", "views-run", "h_views", ["h_views.cpp"], record=record_views,
                         monitor=lambda impl, obs: viewprog.monitors(impl, viewprog.nroots(obs), check_cursor=False))
ITERS = progcheck.Family(PID, "iters", "iters-run", "h_iters", ["h_iters.cpp"], monitor=c02.monitor,
                         record=lambda b, f, m, i: {"rebased_diagonal": False, "iterator": c02.record(b, f, m, i)["iterator"]})


ASSIGN = progcheck.Family(PID, "assign", "assign-run", "h_assign", ["h_assign.cpp"], monitor=c05.monitor,
                          body_prefixes=("dop ", "sop "), record=lambda b, f, m, i: {"rebased_diagonal": False})


COMPARE = c07.Fam(PID, "compare", "compare-run", "h_compare", ["h_compare.cpp"], body_prefixes=("xop ",),
                  record=lambda b, f, m, i: {"rebased_diagonal": False})
COMPARE.monitor = lambda impl, obs: c07.monitor(getattr(COMPARE, "raw", impl), obs)


def compare_twin(prog):
    """the zero-based twin of a comparison program: the trailing re-indexing of every operand made neutral (reindexed 0);
    returns (twin program, ids of the cases whose three operands carry the same index bases)"""
    same, out = set(), []
    for cid, block in core.split_cases(prog):
        bases = {}
        for line in block.splitlines():
            p = line.split()
            if len(p) == 4 and p[0] == "xop" and p[2] == "reindexed":
                bases.setdefault(p[1], []).append(p[3])
        if len({tuple(bases.get(n, [])) for n in "abc"}) == 1:
            same.add(cid)
        out.append(re.sub(r"^(xop \w reindexed) -?\d+$", r"\1 0", block, flags=re.M).replace("case " + cid, "case t" + cid, 1))
    return "".join(out), same


def compare_twin_monitor(impl, twin_impl, same):
    """library vs library: comparisons of re-based operands with equal bases answer like their zero-based twins"""
    t = {}
    for line in twin_impl.splitlines():
        p = line.split(" ", 3)
        if p[0] == "C":
            t[(p[1][1:], p[2])] = p[3]
    bad = []
    for line in impl.splitlines():
        p = line.split(" ", 3)
        if p[0] == "C" and p[1] in same and t.get((p[1], p[2])) not in (None, p[3]):
            bad.append((p[1], "rebased-comparison-differs-from-zero-based-twin", "%s | twin: %s" % (line, t[(p[1], p[2])])))
    return bad


def run(tier, seed, replay=None):
    res = core.Result(PID, tier, seed, level="proof")
    if not replay:
        from . import receivers
        res.coverage["receiver_probe_operations"] = len(receivers.C19_OPS)
        res.coverage["receiver_probe_failing"] = [op for op, _ in receivers.report(res, PID, receivers.C19_OPS, "const arrays, const-qualified and temporary views")]
    coq = VIEWS.prepare(res)
    if coq is None:
        return res.finish()
    ok_h, log_h = ITERS.build()
    if not ok_h:
        path = core.write_replay(PID, "", {"property": PID, "found-by": "build:harness-h_iters", "log": log_h[-3000:]})
        res.violation(path, "h_iters does not compile", no_input=True)
        return res.finish()
    ok_a, log_a = ASSIGN.build()
    if not ok_a:
        path = core.write_replay(PID, "", {"property": PID, "found-by": "build:harness-h_assign", "log": log_a[-3000:]})
        res.violation(path, "h_assign does not compile", no_input=True)
        return res.finish()
    has_ge, has_rank0 = c07.configure(COMPARE)
    ok_c, log_c = COMPARE.build()
    if not ok_c:
        path = core.write_replay(PID, "", {"property": PID, "found-by": "build:harness-h_compare", "log": log_c[-3000:]})
        res.violation(path, "h_compare does not compile", no_input=True)
        return res.finish()
    if replay:
        text = open(replay).read()
        fam = ITERS if re.search(r"^it ", text, re.M) else (ASSIGN if re.search(r"^droot ", text, re.M) else
                                                            (COMPARE if re.search(r"^xroot ", text, re.M) else VIEWS))
        if fam is ASSIGN:
            c05.index_prog("".join(l for l in text.splitlines(True) if not l.startswith("#")))
        fam.replay(res, replay)
        return res.finish()
    nv, ni = (3000, 2000) if tier == "quick" else (60000, 40000)
    # ---- view programs on re-based roots + zero-based twin ----
    import os
    twin_path = os.path.join(VIEWS.workdir(), "twin.txt")
    prog_c = VIEWS.corpus()
    prog_cv = "".join(b for _c, b in core.split_cases(prog_c) if not re.search(r"^it ", b, re.M))
    prog_ci = "".join(b for _c, b in core.split_cases(prog_c) if re.search(r"^it ", b, re.M))
    prog_v, obs_v, dist_v = VIEWS.generate(seed, nv, extra=["--rebased", "--twin", twin_path,
                                                            "--maxops", "6" if tier == "quick" else "10"], prefix="r")
    twin_prog = open(twin_path).read()
    obs_cv = VIEWS.model_run(prog_cv) if prog_cv else ""
    impl_v, crashes_v = VIEWS.impl_run(prog_cv + prog_v)
    twin_impl, twin_crashes = VIEWS.impl_run(twin_prog)
    n_fail = VIEWS.classify(res, prog_cv + prog_v, obs_cv + obs_v, impl_v, crashes_v)
    # twin monitor (library vs library)
    tw_bad = twin_monitor(impl_v, twin_impl)
    blocks = dict(core.split_cases(prog_v))
    reported = 0
    for cid, what, line in tw_bad:
        rec = {"harness": "h_views", "found_by": "monitor", "rebased_diagonal": rebased_diagonal(blocks[cid])}
        kf = core.match_known(PID, rec)
        if kf:
            res.known_finding(kf)
            continue
        n_fail += 1
        if reported < 3:
            reported += 1
            path = core.write_replay(PID, blocks[cid], {"property": PID, "found-by": "monitor:" + what, "implementation-said": line,
                                                        "note": "library on the re-based program vs library on its zero-based twin"})
            res.violation(path, what + ": " + line)
    for cid, rc, err in twin_crashes:
        n_fail += 1
        path = core.write_replay(PID, dict(core.split_cases(twin_prog))[cid], {"property": PID, "found-by": "crash-on-twin", "log": err[-1500:]})
        res.violation(path, "twin program crashed")
    # ---- iterator walks on re-based views ----
    prog_i, obs_i, dist_i = ITERS.generate(seed + 1, ni, extra=["--rebased", "--maxops", "3" if tier == "quick" else "6",
                                                                "--maxsteps", "10" if tier == "quick" else "20"], prefix="ri")
    obs_ci = ITERS.model_run(prog_ci) if prog_ci else ""
    impl_i, crashes_i = ITERS.impl_run(prog_ci + prog_i)
    n_fail += ITERS.classify(res, prog_ci + prog_i, obs_ci + obs_i, impl_i, crashes_i)
    # ---- assignment / fill / swap / move through views of re-based roots (source re-indexed to the same bases) ----
    na = 1500 if tier == "quick" else 30000
    prog_a, obs_a, dist_a = ASSIGN.generate(seed + 2, na, extra=["--rebased", "--maxops", "4", "--maxrank", "3"], prefix="ra")
    c05.index_prog(prog_a)
    _orig = ASSIGN.case_fails

    def _cf(block):
        c05.index_prog(block)
        return _orig(block)
    ASSIGN.case_fails = _cf
    impl_a, crashes_a = ASSIGN.impl_run(prog_a)
    c05.index_prog(prog_a)
    n_fail += ASSIGN.classify(res, prog_a, obs_a, impl_a, crashes_a)
    ASSIGN.case_fails = _orig
    # ---- equality and ordering of re-based operands (+ zero-based twin, library vs library) ----
    nc = 1500 if tier == "quick" else 30000
    prog_q, obs_q, dist_q = COMPARE.generate(seed + 3, nc, prefix="rc", extra=["--rebased"] + (["--has-ge"] if has_ge else []))
    obs_q = c07.normalise(obs_q, c07.empties(obs_q))
    twin_q, same_q = compare_twin(prog_q)

    def eq_only(text):
        """operands with DIFFERENT index bases: neither C07 nor C19 says how they are ordered (the library orders them by
        their first indices, dimension by dimension); only == / != are compared for them, and they are != by extension"""
        out = []
        for line in text.splitlines():
            m = c07.C_RE.match(line)
            if m and m.group(1) not in same_q and m.group(4) != "*":
                cid, p, q, v, a, mx = m.groups()
                line = "C %s %s%s view=%s**** array=%s*** mixed=%s" % (cid, p, q, v[:2], a[:2], mx)
            out.append(line)
        return "\n".join(out) + "\n"
    obs_q = eq_only(obs_q)
    _impl_run = COMPARE.impl_run

    def _impl_eq_only(prog_text, shards=None):
        out, crashes = _impl_run(prog_text, shards)
        # the model-independent monitor sees only the same-base cases
        COMPARE.raw = "".join(l + "\n" for l in COMPARE.raw.splitlines() if len(l.split()) < 2 or l.split()[1] in same_q or l.split()[1].startswith("t"))
        return eq_only(out), crashes
    COMPARE.impl_run = _impl_eq_only
    _model_run = COMPARE.model_run
    COMPARE.model_run = lambda prog_text: eq_only(_model_run(prog_text))
    impl_q, crashes_q = COMPARE.impl_run(prog_q)
    raw_q = COMPARE.raw
    n_fail += COMPARE.classify(res, prog_q, obs_q, impl_q, crashes_q)
    COMPARE.impl_run = _impl_run
    COMPARE.model_run = _model_run
    twin_impl_q, _tc = COMPARE.impl_run(twin_q)
    emp = c07.empties(raw_q)
    bad_q = [b for b in compare_twin_monitor(impl_q, twin_impl_q, same_q) if b[0] not in emp]
    blocks_q = dict(core.split_cases(prog_q))
    for cid, what, line in bad_q[:3]:
        path = core.write_replay(PID, blocks_q[cid], {"property": PID, "found-by": "monitor:" + what, "implementation-said": line})
        res.violation(path, what + ": " + line)
    n_fail += len(bad_q)
    VIEWS.proof_verdict(res, coq, n_fail)
    allprog = prog_c + prog_v + prog_i + prog_a + prog_q
    res.coverage.update({
        "evaluations": len(core.split_cases(allprog)) + len(core.split_cases(twin_prog)),
        "distinct_nontrivial": progcheck.distinct_nontrivial(allprog, min_lines=3),
        "rule": "as C01/C02 but every root is built from explicit index extensions with first indices drawn from -3..3 (0 with "
                "probability 1/4 per dimension) and reindexed/blocked are in the alphabet; each view program is also translated "
                "(by the extracted twin_op of coq/Model/Rebase.v) to its zero-based twin with shifted indices and both are run on "
                "the library; diagonal() is generated only where the first two index bases are 0 (known finding otherwise, "
                "exercised by corpus/C19/kf-*.prog); non-trivial = at least 2 operations or walk steps; distinct by hash",
        "samples": progcheck.samples(prog_v, n=1, min_lines=6) + progcheck.samples(prog_i, n=1, min_lines=6),
        "generator_distribution": {"views": dist_v, "iters": dist_i, "assign": dist_a, "compare": dist_q},
        "compare_twin_cases": len(same_q),
        "observation_lines_compared": obs_v.count("\n") + obs_i.count("\n") + obs_a.count("\n") + obs_q.count("\n"),
        "twin_lines_compared": twin_impl.count("\n"),
        "corpus_cases": len(core.split_cases(prog_c)),
        "disagreeing_cases": n_fail,
    })
    res.assumptions = ["no 64-bit overflow in index arithmetic", "g++ 12 / libstdc++ as installed"]
    return res.finish()

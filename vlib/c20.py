"""C20 -- debug contracts.  Proof: coq/Properties/Properties_C20.v (model of every assertion: coq/Model/Asserts.v).
Tie:
 (a) the EXISTING harness sources h_views / h_iters / h_assign / h_compare are built unchanged three times (assertions
     on; -DNDEBUG; -DBOOST_MULTI_ASSERT_DISABLE) and run on generated VALID programs of the four families (zero-based and
     re-based roots): no abort in any configuration, byte-identical observation streams across the three;
 (b) death tests (harness/h_asserts.cpp, assertion-enabled build; additionally under AddressSanitizer in the thorough
     tier): out-of-range indices on views produced by view programs, at every dimension, below first / at last / after
     last, through brackets, call syntax and tuple apply; assignments between views of equal and of different extents
     through every overload; each in a forked child; SIGABRT with an assertion message naming a file under
     include/boost/multi is required exactly where the property demands it, and the model's asrt_* verdict (which
     operator[] level aborts; which overload checks what) is compared;
 (c) fixed probes for the known tensions of DESIGN 5/C20 (each either fixed in the library or a known finding)."""
import concurrent.futures as cf
import glob
import hashlib
import os
import re

from . import core, progcheck

PID = "C20"
CONFIGS = [("dbg", ()), ("ndebug", ("-DNDEBUG",)), ("adis", ("-DBOOST_MULTI_ASSERT_DISABLE",))]
CFG_TEXT = {"dbg": "assertions enabled (default)", "ndebug": "-DNDEBUG", "adis": "-DBOOST_MULTI_ASSERT_DISABLE"}
DRIVER_C20 = "driver_c20"
RUN_TIMEOUT = {"s": 120}

PROBES = [
    # name, expected result demanded by the property, why
    ("diag_zero_based", "ok", "valid"),
    ("diag_rebased", "ok", "valid"),
    ("null_base_slice_first", "ok", "valid"),
    ("null_base_slice", "ok", "valid"),
    ("reextent_same_base", "ok", "valid"),
    ("reextent_rebased", "ok", "valid"),          # regression of KF-C20-reextent-rebased-asserts (fixed by /repo 97e4116)
    ("reextent_disjoint", "ok", "valid"),         # /repo 3905732: no view of a null block when nothing is in common
    ("reshape_same_count", "ok", "valid"),
    ("reshape_count_differs", "abort", "mismatched"),
    ("reextent_zero_inner", "ok", "valid"),
    ("elements_zero_inner", "ok", "valid"),
    ("strided_rebased", "ok", "valid"),
    ("array_ref_assign_count_differs", "abort", "mismatched"),
    ("array_ref_assign_transposed", "abort", "mismatched"),
    # regression probes for the defects closed by /repo 6c4fe5c (all must abort) and their control
    ("assign_views_inner_permuted", "abort", "mismatched"),
    ("move_assign_views_count_differs", "abort", "mismatched"),
    ("swap_views_count_differs", "abort", "mismatched"),
    ("elements_assign_count_differs", "abort", "mismatched"),
    ("assign_views_equal", "ok", "valid"),
]


# --------------------------------------------------------------------------------------------
# (a) the four existing families in three build configurations
# --------------------------------------------------------------------------------------------
class CfgFamily(progcheck.Family):
    """A harness family whose unchanged source is built once per configuration."""

    def __init__(self, name, gen_cmd, run_cmd, harness, sources, gen_extra=(), extra_flags=(), body_prefixes=("op ", "probe ", "w ", "it ")):
        super().__init__(PID, gen_cmd, run_cmd, harness, sources, body_prefixes=body_prefixes)
        self.name = name
        self.gen_extra = list(gen_extra)
        self.extra_flags = tuple(extra_flags)
        self.exes = {}

    def build_cfg(self, cfg, flags):
        ok, exe, log = core.build_harness(self.harness, self.sources, flags=tuple(flags) + self.extra_flags, tag="_c20" + cfg)
        if ok:
            self.exes[cfg] = exe
        return ok, log

    def run_cfg(self, cfg, prog_text, shards=None):
        # valid programs take seconds; a hang (seen with a mutation that corrupts nelems in the unchecked builds) is cut short
        return core.run_harness(self.exes[cfg], prog_text, shards=shards, timeout=RUN_TIMEOUT["s"])

    def case_fails(self, block):
        mtxt = self.model_run(block)
        if re.search(r"^X ", mtxt, re.M):
            return None
        outs = {}
        for cfg, _f in CONFIGS:
            out, crashes = self.run_cfg(cfg, block, shards=1)
            if crashes:
                tail = (crashes[0][2].strip().splitlines() or [""])[-1]
                return ("abort-on-valid-program[%s]" % cfg, "", "signal/exit %s: %s" % (crashes[0][1], tail[:300]))
            outs[cfg] = out
        for cfg, _f in CONFIGS[1:]:
            if outs[cfg] != outs["dbg"]:
                a, b = first_diff(outs["dbg"], outs[cfg])
                return ("results-differ[dbg vs %s]" % cfg, a, b)
        return False


def first_diff(a, b):
    la, lb = a.splitlines(), b.splitlines()
    for x, y in zip(la, lb):
        if x != y:
            return x, y
    return "<%d lines>" % len(la), "<%d lines>" % len(lb)


def make_families(has_ge):
    ge_flags = ("-DC07_HAS_GE",) if has_ge else ()
    return [
        CfgFamily("views", "views", "views-run", "h_views", ["h_views.cpp"]),
        CfgFamily("views-rebased", "views", "views-run", "h_views", ["h_views.cpp"], gen_extra=["--rebased"]),
        CfgFamily("iters", "iters", "iters-run", "h_iters", ["h_iters.cpp"]),
        CfgFamily("iters-rebased", "iters", "iters-run", "h_iters", ["h_iters.cpp"], gen_extra=["--rebased"]),
        CfgFamily("assign", "assign", "assign-run", "h_assign", ["h_assign.cpp"], body_prefixes=("dop ", "sop ")),
        CfgFamily("assign-rebased", "assign", "assign-run", "h_assign", ["h_assign.cpp"], gen_extra=["--rebased"], body_prefixes=("dop ", "sop ")),
        CfgFamily("compare", "compare", "compare-run", "h_compare", ["h_compare.cpp"], gen_extra=(["--has-ge"] if has_ge else []),
                  extra_flags=ge_flags, body_prefixes=("xop ",)),
    ]


def family_of_text(text, fams):
    by = {f.name: f for f in fams}
    if re.search(r"^xroot ", text, re.M):
        return by["compare"]
    if re.search(r"^droot ", text, re.M) and re.search(r"^do ", text, re.M):
        return by["assign"]
    if re.search(r"^it ", text, re.M):
        return by["iters"]
    return by["views"]



# --------------------------------------------------------------------------------------------
# (a') the lifecycle family (harness/h_life.cpp UNCHANGED, vlib/lifecommon.py) in three build configurations
# --------------------------------------------------------------------------------------------
class LifeFamily:
    """Fault-free histories of array.hpp entry points (driver_life gen, kinds c04 and c06) on h_life built for a few
    lifecycle configurations x {default, -DNDEBUG, -DBOOST_MULTI_ASSERT_DISABLE}."""
    name = "life"

    def __init__(self):
        from . import lifecommon as lc
        self.lc = lc
        self.lcfgs = [lc.cfg(d=2, t=1), lc.cfg(d=1, t=0), lc.cfg(d=3, t=1)]
        self.exes = {}            # (life key, build cfg) -> exe

    def jobs(self):
        return [(self, (self.lc.cfg_key(c), cfg), (c, flags)) for c in self.lcfgs for cfg, flags in CONFIGS]

    @property
    def harness(self):
        return "h_life"

    def build_cfg(self, keycfg, cflags):
        key, cfg = keycfg
        c, flags = cflags
        extra = [] if self.lc.assign_fill_compiles()[0] else ["-DLIFE_NO_ASSIGN_FILL"]
        ok, exe, log = core.build_harness("h_life", ["h_life.cpp"], flags=self.lc.cfg_flags(c) + extra + list(flags),
                                          tag="_c20%s_%s" % (cfg, key))
        if ok:
            self.exes[(key, cfg)] = exe
        return ok, log

    def generate(self, seed, quick):
        progs = []
        for k, c in enumerate(self.lcfgs):
            n6, n4 = (500, 300) if quick else (8000, 5000)
            progs.append(self.lc.generate("c06", c, seed + 31 * k, n6, 16 if quick else 40, "l6%d_" % k))
            progs.append(self.lc.generate("c04", c, seed + 31 * k + 7, n4, 16 if quick else 40, "l4%d_" % k))
        return "".join(progs)

    def key_of(self, block):
        for line in block.splitlines():
            if line.startswith("cfg "):
                return self.lc.cfg_key(self.lc.parse_cfg_line(line))
        return None

    def run_cfg(self, cfg, prog_text, shards=None):
        groups = {}
        for _cid, block in core.split_cases(prog_text):
            groups.setdefault(self.key_of(block), []).append(block)
        outs, crashes = [], []
        for key, blocks in groups.items():
            exe = self.exes.get((key, cfg))
            if exe is None:
                crashes.append(("<no-executable-%s-%s>" % (key, cfg), -1, "not built"))
                continue
            out, cr = core.run_harness(exe, "".join(blocks), shards=shards, timeout=RUN_TIMEOUT["s"])
            outs.append(out)
            crashes.extend(cr)
        return "".join(outs), crashes

    def in_domain(self, block):
        m = self.lc.model_run(block)
        return not re.search(r"^(X|V) ", m, re.M) and " skipped" not in m

    def case_fails(self, block):
        try:
            if not self.in_domain(block):
                return None
        except Exception:
            return None
        outs = {}
        for cfg, _f in CONFIGS:
            out, crashes = self.run_cfg(cfg, block, shards=1)
            if crashes:
                tail = (crashes[0][2].strip().splitlines() or [""])[-1]
                return ("abort-on-valid-history[%s]" % cfg, "", "signal/exit %s: %s" % (crashes[0][1], tail[:300]))
            outs[cfg] = out
        for cfg, _f in CONFIGS[1:]:
            if outs[cfg] != outs["dbg"]:
                a, b = first_diff(outs["dbg"], outs[cfg])
                return ("results-differ[dbg vs %s]" % cfg, a, b)
        return False

    def shrink(self, block, budget=40):
        lines = block.splitlines()
        head = [l for l in lines if not l.startswith("op ") and l.strip() != "end"]
        ops = [l for l in lines if l.startswith("op ")]
        tries, k = 0, len(ops) - 1
        while k >= 0 and tries < budget:
            cand = ops[:k] + ops[k + 1:]
            txt = "\n".join(head + cand + ["end"]) + "\n"
            tries += 1
            if self.case_fails(txt):
                ops = cand
            k -= 1
        return "\n".join(head + ops + ["end"]) + "\n"

# --------------------------------------------------------------------------------------------
# (b) death tests
# --------------------------------------------------------------------------------------------
class DeathFamily(progcheck.Family):
    def __init__(self):
        super().__init__(PID, "deaths", "deaths-run", "h_asserts", ["h_asserts.cpp"], driver=DRIVER_C20,
                         body_prefixes=("op ", "oob ", "dop ", "sop "))
        self.exes = {}
        self.which = "dbg"

    def build_cfg(self, cfg, flags):
        ok, exe, log = core.build_harness(self.harness, self.sources, flags=tuple(flags), tag="_c20" + cfg)
        if ok:
            self.exes[cfg] = exe
        return ok, log

    def run_cfg(self, cfg, prog_text, shards=None):
        env = {"ASAN_OPTIONS": "detect_leaks=0:abort_on_error=0:allocator_may_return_null=1"} if cfg == "asan" else None
        return core.run_harness(self.exes[cfg], prog_text, env=env, shards=shards, timeout=1800)

    def case_fails(self, block):
        mtxt = self.model_run(block)
        if re.search(r"^X ", mtxt, re.M):
            return None
        itxt, crashes = self.run_cfg(self.which, block, shards=1)
        if crashes:
            tail = (crashes[0][2].strip().splitlines() or [""])[-1]
            return ("harness-crash", "", "signal/exit %s: %s" % (crashes[0][1], tail[:300]))
        bad, known = judge_deaths(block, mtxt, itxt)
        for k in known:
            if not match_known_rec(k[4]):
                bad.append(k[:4])
        if bad:
            return bad[0][1:]
        return False


S_EXT = re.compile(r" ext=(\S*) ")


def judge_deaths(prog_text, model_text, impl_text):
    """Returns (violations, candidates_for_known_findings); each item (case id, found_by, expected, got[, record])."""
    bad, known = [], []
    m, im = core.by_case(model_text), core.by_case(impl_text)
    blocks = dict(core.split_cases(prog_text))
    for cid, ml in m.items():
        il = [l for l in im.get(cid, []) if not l.startswith("L ")]
        info = {}
        for l in im.get(cid, []):
            if l.startswith("L "):
                p = l.split()
                info[p[2]] = l
        if not il:
            bad.append((cid, "no-output", ml[0] if ml else "", "<no output>"))
            continue
        if any(l.startswith("U ") for l in il):
            continue                      # an operation the harness cannot express at this rank: skipped, as in C01
        # ---- shapes and index deaths: model vs implementation, line by line ----
        mS = [l for l in ml if l[:2] in ("S ", "D ", "E ")]
        iS = [l for l in il if l[:2] in ("S ", "D ", "E ")]
        if any(l.startswith("D ") or l.startswith("S ") for l in mS):
            if mS != iS:
                a, b = first_diff("\n".join(mS), "\n".join(iS))
                n = b.split()[2] if b.startswith("D ") and len(b.split()) > 2 else "0"
                extra = info.get(n, "")
                bad.append((cid, "death:model-and-library-disagree", a, (b + "  " + extra).strip()))
                continue
            # direct monitor, independent of the model: outside the printed extension <=> abort
            ext = None
            for l in iS:
                if l.startswith("S "):
                    e = S_EXT.search(l + " ")
                    ext = [tuple(int(x) for x in q.split(":")) for q in e.group(1).split(",")] if e and e.group(1) else []
            for l in iS:
                if not l.startswith("D "):
                    continue
                p = l.split()
                idx = [int(x) for x in p[4][4:].split(",")] if p[4][4:] else []
                inside = ext is not None and len(idx) == len(ext) and all(f <= k < t for k, (f, t) in zip(idx, ext))
                res = p[5][4:]
                if inside and res != "ok":
                    bad.append((cid, "death:valid-index-aborted", "res=ok", l + "  " + info.get(p[2], "")))
                elif not inside and res != "abort":
                    bad.append((cid, "death:out-of-range-index-not-stopped-by-a-library-assertion", "res=abort", l + "  " + info.get(p[2], "")))
        # ---- assignments: the PROPERTY decides what is expected, the model says what the pinned overload checks ----
        for l in ml:
            if not l.startswith("A "):
                continue
            f = dict(q.split("=", 1) for q in l.split()[2:])
            got = [x for x in il if x.startswith("A ")]
            if not got:
                bad.append((cid, "assign:no-output", l, "<none>"))
                continue
            g = dict(q.split("=", 1) for q in got[0].split()[2:])
            res = g.get("res")
            nonempty = int(f["dnel"]) > 0 and int(f["snel"]) > 0
            elems_api = f["kind"] in ("assign_elems", "assign_elems_const")
            if f["xeq"] == "1":
                if res != "ok":
                    bad.append((cid, "assign:equal-extents-aborted", "res=ok", got[0] + "  " + info.get("0", "")))
            elif res == "abort":
                pass                                   # stopped by a library assertion: what the property demands
            elif res == "ok":
                if f["asrt"] == "0":
                    bad.append((cid, "assign:mismatch-not-stopped-although-the-modelled-assertion-is-false", l, got[0]))
                elif nonempty and not elems_api:
                    # cannot happen with the model of the fixed code (C20_assign_fire: every view overload compares all
                    # extensions); kept so that a model that says "unchecked" is reported, never silently accepted
                    bad.append((cid, "assign:mismatch-not-stopped", l, got[0]))
            else:
                bad.append((cid, "assign:unexpected-termination", "res=abort", got[0] + "  " + info.get("0", "")))
        _ = blocks
    return bad, known


def match_known_rec(rec):
    rec = dict(rec)
    pid = rec.pop("_pid", PID)
    return core.match_known(pid, rec)


def probe_prog():
    return "".join("case K%d\nprobe %s\nend\n" % (k, name) for k, (name, _e, _w) in enumerate(PROBES))


def judge_probes(impl_text, require_all=True):
    bad, known = [], []
    want = {name: (expect, why) for name, expect, why in PROBES}
    seen = set()
    info = {}
    for l in impl_text.splitlines():
        if l.startswith("L "):
            info[l.split()[1]] = l
    for l in impl_text.splitlines():
        if not l.startswith("K "):
            continue
        p = l.split()
        cid, name, res = p[1], p[2], p[3][4:]
        seen.add(name)
        if name not in want:
            bad.append((cid, "probe:unknown-probe", name, l))
            continue
        expect, why = want[name]
        if res == expect:
            continue
        rec = {"harness": "h_asserts", "site": "probe:" + name, "expected": expect, "got": res}
        if name == "diag_rebased" and res == "abort":
            # the same defect as C19's finding (diagonal_aux_ takes its block from index 0): reuse that entry
            rec = {"_pid": "C19", "harness": "h_views", "rebased_diagonal": True}
        known.append((cid, "probe:%s:%s-program-%s" % (name, why, "aborted" if res == "abort" else "not-stopped"), "res=" + expect,
                      l + "  " + info.get(cid, ""), rec))
    if require_all:
        for name in want:
            if name not in seen:
                bad.append(("K?", "probe:no-output", name, "<none>"))
    return bad, known


# --------------------------------------------------------------------------------------------
# thorough tier: a sub-sample of the death cases is re-evaluated by vm_compute inside coqc and must agree with the
# extracted OCaml run (bounds the trust in extraction and in the driver's number conversion)
# --------------------------------------------------------------------------------------------
def _z(x):
    x = int(x)
    return "(%d)" % x if x < 0 else str(x)


def _coq_op(toks):
    n, a = toks[0], toks[1:]
    simple = {"rotated": "ORotated", "unrotated": "OUnrotated", "transposed": "OTransposed", "tilde": "OTransposed",
              "reversed": "OReversed", "diagonal": "ODiagonal", "halved": "OHalved", "flatted": "OFlatted"}
    if n in simple:
        return simple[n]
    un = {"index": "OIndex", "strided": "OStrided", "dropped": "ODropped", "taked": "OTaked", "partitioned": "OPartitioned",
          "chunked": "OChunked", "reindexed": "OReindexed"}
    if n in un:
        return "%s %s" % (un[n], _z(a[0]))
    if n in ("sliced", "range"):
        return "OSliced %s %s" % (_z(a[0]), _z(a[1]))
    if n == "blocked":
        return "OBlocked %s %s" % (_z(a[0]), _z(a[1]))
    if n == "sliceds":
        return "OSlicedS %s %s %s" % (_z(a[0]), _z(a[1]), _z(a[2]))
    if n == "paren":
        out, k = [], 1
        while k < len(a):
            if a[k] == "i":
                out.append("PIdx %s" % _z(a[k + 1])); k += 2
            elif a[k] == "r":
                out.append("PRange %s %s" % (_z(a[k + 1]), _z(a[k + 2]))); k += 3
            else:
                out.append("PAll"); k += 1
        return "OParen [%s]" % "; ".join(out)
    raise ValueError("op " + n)


def _coq_exts(toks):
    return "[%s]" % "; ".join("(%s, %s)" % (_z(toks[k]), _z(toks[k + 1])) for k in range(0, len(toks), 2))


AK = {"assign": "AView", "assign_const": "AView", "assign_rv": "AView", "move": "AView", "assign_move": "AView", "assign_rv_rv": "AView",
      "swap": "ASwap", "assign_elems": "AElems", "assign_elems_const": "AElems"}


def vm_crosscheck(prog_text, obs_text, limit=250):
    """Returns (number of evaluations, list of (case id, extracted says, vm_compute says))."""
    obs = core.by_case(obs_text)
    evals, expect = [], []
    for cid, block in core.split_cases(prog_text)[: 4 * limit]:
        if len(expect) >= limit:
            break
        lines = [l.split() for l in block.splitlines()]
        try:
            if any(l and l[0] == "root" for l in lines):
                root = [l for l in lines if l and l[0] == "root"][0]
                ops = "[%s]" % "; ".join(_coq_op(l[1:]) for l in lines if l and l[0] == "op")
                dl = [l for l in obs.get(cid, []) if l.startswith("D ")]
                for n, l in enumerate([l for l in lines if l and l[0] == "oob"][:3]):
                    idx = "[%s]" % "; ".join(_z(x) for x in l[2:])
                    evals.append("Eval vm_compute in (c20_lvl %s %s %s)." % (_coq_exts(root[2:]), ops, idx))
                    f = dict(q.split("=", 1) for q in dl[n].split()[3:])
                    expect.append((cid, 0 if f["res"] == "ok" else int(f["rank"])))
            elif any(l and l[0] == "asg" for l in lines):
                dr = [l for l in lines if l and l[0] == "droot"][0]
                sr = [l for l in lines if l and l[0] == "sroot"][0]
                dops = "[%s]" % "; ".join(_coq_op(l[1:]) for l in lines if l and l[0] == "dop")
                sops = "[%s]" % "; ".join(_coq_op(l[1:]) for l in lines if l and l[0] == "sop")
                kind = [l for l in lines if l and l[0] == "asg"][0][1]
                al = [l for l in obs.get(cid, []) if l.startswith("A ")]
                if not al:
                    continue
                f = dict(q.split("=", 1) for q in al[0].split()[2:])
                evals.append("Eval vm_compute in (c20_asg %s %s %s %s %s)." % (_coq_exts(dr[2:]), dops, _coq_exts(sr[2:]), sops, AK[kind]))
                expect.append((cid, 2 * int(f["xeq"]) + int(f["asrt"])))
        except (ValueError, IndexError, KeyError):
            continue
    if not evals:
        return 0, []
    src = ("From BM Require Import Base.Tactics Model.Layout Model.View Model.Assign Model.Asserts.\nLocal Open Scope Z_scope.\n"
           "Definition c20_lvl (x : list range) (ops : list op) (idx : list Z) : Z :=\n"
           "  match run_ops ops (root_view x) with\n  | Some v => match abort_level v idx with None => 0 | Some k => Z.of_nat (length (lay v)) - Z.of_nat k end\n"
           "  | None => -1 end.\n"
           "Definition c20_asg (xd : list range) (od : list op) (xs : list range) (os : list op) (k : akind) : Z :=\n"
           "  match run_ops od (root_view xd), run_ops os (root_view xs) with\n"
           "  | Some d, Some s => 2 * (if x_eq (l_extensions (lay d)) (l_extensions (lay s)) then 1 else 0) + (if asrt_assign k d s then 1 else 0)\n"
           "  | _, _ => -1 end.\n" + "\n".join(evals) + "\n")
    d = os.path.join(core.BUILD, "work", PID)
    os.makedirs(d, exist_ok=True)
    path = os.path.join(d, "cases_C20.v")
    open(path, "w").write(src)
    rc, out, err = core.sh(["coqc", "-Q", core.COQ, "BM", path], cwd=d, timeout=1200)
    if rc != 0:
        return len(evals), [("<coqc>", "compiles", (out + err)[-600:])]
    got = [int(m.group(1).replace("(", "").replace(")", "")) for m in re.finditer(r"=\s*(\(?-?\d+\)?)\s*\n?\s*:\s*Z", out)]
    bad = []
    if len(got) != len(expect):
        bad.append(("<coqc>", "%d results" % len(expect), "%d results" % len(got)))
    for (cid, e), g in zip(expect, got):
        if e != g:
            bad.append((cid, e, g))
    return len(evals), bad

# --------------------------------------------------------------------------------------------
def structural_ndebug_check():
    """No model file that computes results depends on Model/Asserts.v (C20_ndebug_invariant, structural half)."""
    offenders = []
    for f in ("Model/Layout.v", "Model/View.v", "Model/Spec.v", "Model/Iter.v", "Model/Assign.v", "Model/Compare.v", "Model/Rebase.v",
              "Model/Life.v"):
        if os.path.exists(os.path.join(core.COQ, f)):
            deps = core.coq_deps(f)
            if "Model/Asserts.v" in deps or "Model/AssertsLife.v" in deps:
                offenders.append(f)
    return offenders


def report(res, items, known_items, prog_text, fam, max_report=4):
    """violations -> shrunk replays; candidates -> known findings or violations."""
    blocks = dict(core.split_cases(prog_text))
    n = 0
    reported = 0
    for it in known_items:
        cid, found_by, want, got, rec = it
        kf = match_known_rec(rec)
        if kf:
            res.known_finding(kf)
        else:
            items = items + [(cid, found_by, want, got)]
    for cid, found_by, want, got in items:
        n += 1
        if reported >= max_report:
            continue
        reported += 1
        block = blocks.get(cid, "")
        small = block
        if fam is not None and block and not block.startswith("case K"):
            try:
                small = fam.shrink(block, budget=40)
                if not fam.case_fails(small):
                    small = block
            except Exception:
                small = block
        path = core.write_replay(PID, small, {
            "property": PID, "tier": res.tier, "seed": res.seed, "found-by": found_by, "expected": want, "implementation-said": got,
            "note": "replay: ./check C20 --replay <this file>; the model of the assertions is coq/Model/Asserts.v, the theorems "
                    "coq/Properties/Properties_C20.v"})
        res.violation(path, "%s: expected %r got %r" % (found_by, want, got))
    return n


def run(tier, seed, replay=None):
    res = core.Result(PID, tier, seed, level="proof")
    coq = core.coq_check_property(PID)
    core.proof_coverage(res, coq)
    problems = []
    offenders = structural_ndebug_check()
    if offenders:
        problems.append(("proof:model-files-depend-on-Asserts.v", ", ".join(offenders)))
    ok_d, log_d = core.ensure_driver()
    if not ok_d:
        problems.append(("build:model-extraction-or-driver", log_d))
    ok_c, log_c = core.ensure_driver_for("c20", "ExtractC20.v", ["zu.ml", "views.ml", "assign.ml", "c20_gen.ml"], DRIVER_C20,
                                         model_base="model")
    if not ok_c:
        problems.append(("build:model-extraction-or-driver-c20", log_c))
    from . import c07
    has_ge = c07.ge_probe()
    if has_ge:
        os.environ["C07_HAS_GE"] = "1"
    fams = make_families(has_ge)
    deaths = DeathFamily()
    # ---- all builds in parallel (cached by content hash of include tree + sources + flags) ----
    life = LifeFamily()
    ok_l, log_l = life.lc.ensure_driver()
    if not ok_l:
        problems.append(("build:model-extraction-or-driver-life", log_l))
    jobs = []
    for fam in fams:
        for cfg, flags in CONFIGS:
            jobs.append((fam, cfg, flags))
    jobs.append((deaths, "dbg", ()))
    if tier == "thorough":
        jobs.append((deaths, "asan", ("-fsanitize=address", "-fno-omit-frame-pointer")))
    life.lc.assign_fill_compiles()       # one probe compilation, cached, before the parallel builds
    jobs += life.jobs()
    # one compile per distinct (source, config, flags); families sharing a source share the binary
    uniq = {}
    for fam, cfg, flags in jobs:
        key = (fam.harness, str(cfg), tuple(getattr(fam, "extra_flags", ())))
        uniq.setdefault(key, (fam, cfg, flags))
    results = {}
    with cf.ThreadPoolExecutor(max_workers=min(core.NCPU, len(uniq))) as ex:
        for key, (ok, log) in zip(uniq.keys(), ex.map(lambda j: j[0].build_cfg(j[1], j[2]), uniq.values())):
            results[key] = (ok, log)
    for fam, cfg, flags in jobs:
        key = (fam.harness, str(cfg), tuple(getattr(fam, "extra_flags", ())))
        ok, log = results[key]
        if ok and cfg not in fam.exes:
            fam.build_cfg(cfg, flags)          # cached: just records the path
        if not ok:
            problems.append(("build:harness-%s[%s]-does-not-compile-against-%s" % (fam.harness, cfg, core.INCLUDE), log))
    if problems:
        for step, log in problems:
            path = core.write_replay(PID, "", {"property": PID, "found-by": step, "log": str(log)[-3000:]})
            res.violation(path, step, no_input=True)
        return res.finish()

    if replay:
        text = "".join(l for l in open(replay) if not l.startswith("#"))
        if re.search(r"^(oob|asg|probe) ", text, re.M):
            probes = "".join(b for _c, b in core.split_cases(text) if re.search(r"^probe ", b, re.M))
            others = "".join(b for _c, b in core.split_cases(text) if not re.search(r"^probe ", b, re.M))
            bad, known = [], []
            if probes:
                out, _cr = deaths.run_cfg("dbg", probes, shards=1)
                bad, known = judge_probes(out, require_all=False)
            if others:
                mtxt = deaths.model_run(others)
                itxt, crashes = deaths.run_cfg("dbg", others, shards=1)
                b2, k2 = judge_deaths(others, mtxt, itxt)
                bad, known = bad + b2, known + k2
                for cid, rc, err in crashes:
                    bad.append((cid, "death:harness-crash", "", "signal/exit %s" % rc))
            n = 0
            for cid, found_by, want, got, rec in known:
                kf = match_known_rec(rec)
                if kf:
                    res.known_finding(kf)
                else:
                    bad.append((cid, found_by, want, got))
            print("replay verdict:", bad if bad else "no violation (known findings, if any, are listed above)")
            for cid, found_by, want, got in bad[:4]:
                res.violation(os.path.relpath(os.path.abspath(replay), core.VERIF), "%s: expected %r got %r" % (found_by, want, got))
        else:
            r = life.case_fails(text) if re.search(r"^cfg d=", text, re.M) else family_of_text(text, fams).case_fails(text)
            print("replay verdict:", r if r else ("outside the documented domain" if r is None else "agrees (no violation)"))
            if r:
                res.violation(os.path.relpath(os.path.abspath(replay), core.VERIF), str(r))
        return res.finish()

    quick = tier == "quick"
    RUN_TIMEOUT["s"] = 40 if quick else 900
    counts = {"views": 1500 if quick else 30000, "views-rebased": 800 if quick else 15000, "iters": 700 if quick else 15000,
              "iters-rebased": 400 if quick else 8000, "assign": 700 if quick else 15000, "assign-rebased": 400 if quick else 8000,
              "compare": 800 if quick else 15000}
    extras = {"views": ["--maxops", "6" if quick else "10"], "views-rebased": ["--maxops", "6" if quick else "10"],
              "iters": ["--maxops", "4", "--maxsteps", "10" if quick else "20"], "iters-rebased": ["--maxops", "3", "--maxsteps", "10"],
              "assign": ["--maxops", "4", "--maxrank", "3" if quick else "4"],
              "assign-rebased": ["--maxops", "4", "--maxrank", "3" if quick else "4"], "compare": []}
    n_fail = 0
    dist, evals, lines_cmp, all_progs, sample_blocks = {}, 0, 0, [], []
    # ---- corpus first (every family recognises its own cases) ----
    corpus = {}
    for f in sorted(glob.glob(os.path.join(core.VERIF, "corpus", PID, "*.prog"))):
        text = "".join(l for l in open(f) if not l.startswith("#"))
        for cid, block in core.split_cases(text):
            if re.search(r"^(oob|asg|probe) ", block, re.M):
                corpus.setdefault("deaths", []).append(block)
            else:
                corpus.setdefault(family_of_text(block, fams).name, []).append(block)
    # ---- (a) valid programs in three configurations ----
    skipped = []
    for k, fam in enumerate(fams):
        if n_fail >= 8:
            skipped.append(fam.name)       # enough failing cases already reported; do not spend minutes on hangs
            continue
        prog_g, obs_g, d = fam.generate(seed + 11 * k, counts[fam.name], extra=extras[fam.name] + fam.gen_extra,
                                        prefix=fam.name.replace("-", "")[:2] + str(k))
        prog = "".join(corpus.get(fam.name, [])) + prog_g
        dist[fam.name] = d
        all_progs.append(prog)
        blocks = core.split_cases(prog)
        evals += 3 * len(blocks)
        outs, failing = {}, {}
        with cf.ThreadPoolExecutor(max_workers=3) as ex:
            futs = {cfg: ex.submit(fam.run_cfg, cfg, prog, max(4, core.NCPU // 3)) for cfg, _f in CONFIGS}
            for cfg, fu in futs.items():
                out, crashes = fu.result()
                outs[cfg] = core.by_case(out)
                for cid, rc, err in crashes:
                    tail = (err.strip().splitlines() or [""])[-1]
                    failing.setdefault(cid, ("abort-on-valid-program[%s]" % cfg, "no abort (valid program: model domain holds)",
                                             "signal/exit %s: %s" % (rc, tail[:300])))
        for cid, _b in blocks:
            a = outs["dbg"].get(cid)
            lines_cmp += 3 * len(a or [])
            for cfg, _f in CONFIGS[1:]:
                b = outs[cfg].get(cid)
                if a != b and cid not in failing:
                    x, y = first_diff("\n".join(a or ["<no output>"]), "\n".join(b or ["<no output>"]))
                    failing[cid] = ("results-differ[%s vs %s]" % (CFG_TEXT["dbg"], CFG_TEXT[cfg]), x, y)
        # a valid program the model accepts must also be one the model's assertion predicates accept: by the theorem
        # this is always so; the implementation side is the abort check above
        items = [(cid,) + v for cid, v in sorted(failing.items(), key=lambda kv: len(dict(blocks).get(kv[0], "")))]
        n_fail += report(res, items, [], prog, fam)
        sample_blocks += [b for _c, b in blocks[:200] if b.count("\n") >= 6][:1]
    # ---- (a') lifecycle histories in three configurations ----
    if n_fail < 8:
        prog_l = life.generate(seed + 977, quick)
        dist["life"] = {"operations": life.lc.op_histogram(prog_l), "shapes": life.lc.shape_stats(prog_l),
                        "configurations": [life.lc.cfg_text(c) for c in life.lcfgs]}
        all_progs.append(prog_l)
        blocks = core.split_cases(prog_l)
        evals += 3 * len(blocks)
        outs, failing = {}, {}
        with cf.ThreadPoolExecutor(max_workers=3) as ex:
            futs = {cfg: ex.submit(life.run_cfg, cfg, prog_l, max(4, core.NCPU // 3)) for cfg, _f in CONFIGS}
            for cfg, fu in futs.items():
                out, crashes = fu.result()
                outs[cfg] = core.by_case(out)
                for cid, rc, err in crashes:
                    tail = (err.strip().splitlines() or [""])[-1]
                    failing.setdefault(cid, ("abort-on-valid-history[%s]" % cfg, "no abort (history in the documented domain of Model/Life.v)",
                                             "signal/exit %s: %s" % (rc, tail[:300])))
        for cid, _b in blocks:
            a = outs["dbg"].get(cid)
            lines_cmp += 3 * len(a or [])
            for cfg, _f in CONFIGS[1:]:
                b = outs[cfg].get(cid)
                if a != b and cid not in failing:
                    x, y = first_diff("\n".join(a or ["<no output>"]), "\n".join(b or ["<no output>"]))
                    failing[cid] = ("results-differ[%s vs %s]" % (CFG_TEXT["dbg"], CFG_TEXT[cfg]), x, y)
        items = [(cid,) + v for cid, v in sorted(failing.items(), key=lambda kv: len(dict(blocks).get(kv[0], "")))]
        n_fail += report(res, items, [], prog_l, life)
        sample_blocks += [b for _c, b in blocks[:100] if b.count("\nop ") >= 6][:1]
    else:
        skipped.append("life")
    # ---- (b) death tests ----
    n_death = 330 if quick else 5200
    death_cfgs = ["dbg"] + (["asan"] if tier == "thorough" else [])
    prog_d, obs_d, dd = deaths.generate(seed + 101, n_death, extra=["--maxops", "4" if quick else "6", "--asg-pct", "35"], prefix="d")
    prog_r, obs_r, dr = deaths.generate(seed + 102, 110 if quick else 1800, extra=["--maxops", "4", "--asg-pct", "0", "--rebased"],
                                        prefix="r")
    prog_c = "".join(corpus.get("deaths", []))
    prog_cn = "".join(b for b in corpus.get("deaths", []) if not re.search(r"^probe ", b, re.M))
    obs_c = deaths.model_run(prog_cn) if prog_cn else ""
    prog_death, obs_death = prog_cn + prog_d + prog_r, obs_c + obs_d + obs_r
    dist["deaths"] = dd
    dist["deaths-rebased"] = dr
    all_progs.append(prog_death)
    n_D = n_A = 0
    for cfg in death_cfgs:
        deaths.which = cfg
        impl, crashes = deaths.run_cfg(cfg, prog_death + probe_prog())
        bad, known = judge_deaths(prog_death, obs_death, impl)
        for cid, rc, err in crashes:
            bad.append((cid, "death:harness-crash[%s]" % cfg, "", "signal/exit %s: %s" % (rc, (err.strip().splitlines() or [""])[-1][:300])))
        pb, pk = judge_probes(impl)
        n_fail += report(res, bad + pb, known + pk, prog_death + probe_prog(), deaths)
        n_D += len(re.findall(r"^D ", impl, re.M))
        n_A += len(re.findall(r"^A ", impl, re.M))
        evals += len(core.split_cases(prog_death)) + len(PROBES)
        lines_cmp += obs_death.count("\n")
    n_vm = 0
    if tier == "thorough":
        n_vm, vm_bad = vm_crosscheck(prog_d, obs_d)
        for cid, e, g in vm_bad[:3]:
            n_fail += 1
            path = core.write_replay(PID, dict(core.split_cases(prog_d)).get(cid, ""), {
                "property": PID, "found-by": "trust:extracted-model-differs-from-vm_compute", "extracted-said": e, "vm_compute-said": g})
            res.violation(path, "extracted model %r, vm_compute %r" % (e, g), no_input=True)
    sample_blocks += [b for _c, b in core.split_cases(prog_d)[:50] if "oob" in b][:1]
    sample_blocks += [b for _c, b in core.split_cases(prog_d) if "asg" in b][:1]
    # ---- proof verdict ----
    if not coq["ok"] and n_fail == 0:
        path = core.write_replay(PID, "", {"property": PID, "found-by": "proof:Properties_%s.v" % PID, "log": coq["log"][-3000:],
                                           "obligations": coq["obligations"], "discharged": coq["discharged"]})
        res.violation(path, "proof obligations no longer check", no_input=True)
    allprog = "".join(all_progs)
    res.coverage.update({
        "evaluations": evals,
        "distinct_nontrivial": progcheck.distinct_nontrivial(allprog, min_lines=3, prefixes=("op ", "root ", "w ", "it ", "oob ", "droot", "dop ",
                                                                                            "sroot", "sop ", "do ", "asg ", "xroot", "xop ")),
        "rule": "(a) valid programs of the C01/C19 (views, zero-based and with index bases -3..3), C02 (iterator walks), C05 (assignment) and "
                "C07 (comparison) generators, every argument drawn inside the documented domain by the extracted model; each program "
                "runs on three builds of the UNCHANGED harness source (default, -DNDEBUG, -DBOOST_MULTI_ASSERT_DISABLE); "
                "(b) death tests: for the final view of a view program (rank 1..6), for up to three dimensions: index first-1, last, "
                "last+1..3, first-2..4, plus two wrong indices at once and one all-valid control tuple, through brackets (55%), call "
                "syntax (27%), tuple apply (18%); 35% of the death programs are assignments between two views built by view programs "
                "over separate buffers: equal extents (30%), same leading extent and element count with permuted inner extents (30%, "
                "rank >= 3), one extent off by one (40%), through 9 overload-selecting statements; each test in a forked child of the "
                "assertion-enabled build; (c) 19 fixed probes. non-trivial = at least 3 program lines; distinct by hash",
        "samples": sample_blocks[:4],
        "generator_distribution": dist,
        "observation_lines_compared": lines_cmp,
        "death_tests_index": n_D,
        "death_tests_assignment": n_A,
        "vm_compute_cross_checks": n_vm,
        "probes": [p[0] for p in PROBES],
        "configurations": [CFG_TEXT[c] for c, _f in CONFIGS] + (["assertions + -fsanitize=address (death tests)"] if tier == "thorough" else []),
        "corpus_cases": sum(len(v) for v in corpus.values()),
        "disagreeing_cases": n_fail,
        "families_skipped_after_8_failing_cases": skipped,
        "not_exercised": ["array lifecycle histories (C04/C06) in three configurations: those harnesses do not exist in this tree yet",
                          "taked() for D > 1 (does not compile at the pinned commit)", "broadcasted() views (stride-0 escape: theorem only)",
                          "iterators of DIFFERENT views compared with each other (undefined by the documented preconditions)",
                          "BLAS/FFTW/MPI adaptor assertions"],
    })
    res.assumptions = ["no 64-bit overflow in index arithmetic", "g++ 12 / glibc assert() message format (file:line: function: Assertion `expr' failed.)",
                       "base pointers of harness roots are non-null (empty roots are array_ref over a 1-element buffer); the null-base "
                       "assertion array_ref.hpp:1263 is covered by a probe and C20_null_base_slice_refuted"]
    return res.finish()

"""C20 -- debug contracts.  Proof: coq/Properties/Properties_C20.v (model of every assertion: coq/Model/Asserts.v).
Tie:
 (a) the EXISTING harness sources h_views / h_iters / h_assign / h_compare are built unchanged three times (assertions
     on; -DNDEBUG; -DBOOST_MULTI_ASSERT_DISABLE) and run on generated VALID programs of the four families (zero-based and
     re-based roots): no abort in any configuration, byte-identical observation streams across the three;
 (b) death tests (harness/h_asserts.cpp, assertion-enabled build; additionally under AddressSanitizer in the thorough
     tier): out-of-range indices on views produced by view programs, at every dimension, below first / at last / after
     last, through brackets, call syntax and tuple apply; assignments between views of equal and of different extents
     through every overload; each in a forked child; SIGABRT with an assertion message naming a file under
     include/boost/multi is required exactly where the property demands it, and the model's asrt_* verdict (which
     operator[] level aborts; which overload checks what) is compared; the index tests go through EVERY ENTRY POINT
     (r[i].., r(i,..), r.apply(tuple), r[tuple], r.front() / back() / begin()[k] / *(begin()+k) / end()[-k] followed by
     brackets, r.home()[..], r.elements()[n], r.elements_at(n)) on EVERY RECEIVER KIND (const_subarray, subarray,
     move_subarray, array_ref, array, static_array; lvalue, const lvalue, std::move, temporary, unary +;
     harness/common/c20_recv.hpp, coq/Model/AssertsRecv.v, C20_index_receiver_irrelevant): a matrix of all 13 x 21 cells for
     rank 1..4, zero-based and with index bases, on every run, plus drawn cells on the views of the view programs; in-range
     accesses must return the element the model computes in all three builds; the assignment operands are views over two
     buffers, ALIASING views of one array (same first element and strides with different extents, overlapping blocks,
     sub-blocks, rows vs columns, the same elements) and whole-root array_refs (two buffers or one), each pair through
     every overload-selecting statement; a model-independent monitor compares the library's own report of the operands'
     extensions with abort / no abort; violating view-forming calls (xop lines) must abort where asrt_op is false;
 (c) fixed probes: the known tensions of DESIGN 5/C20 (each either fixed in the library or a known finding), and one
     valid + one violating call for every assertion site no generated family reaches (harness/common/c20_site_probes.hpp;
     the violating call must be stopped by the assertion that states the precondition);
 (c') harness/c20_rank0_probe.cpp: valid uses of rank-0 arrays must COMPILE and run in all three configurations;
 thorough tier: vlib/c20_sites.py measures, with a gcov build of the unchanged harness sources, which assertion site is
     evaluated by which family on valid calls and which one stops which violating call (evidence: assertion_sites_*)."""
import concurrent.futures as cf
import glob
import hashlib
import os
import re

from . import core, progcheck

PID = "C20"
CONFIGS = [("dbg", ()), ("ndebug", ("-DNDEBUG",)), ("adis", ("-DBOOST_MULTI_ASSERT_DISABLE",))]
CFG_TEXT = {"dbg": "assertions enabled (default)", "ndebug": "-DNDEBUG", "adis": "-DBOOST_MULTI_ASSERT_DISABLE"}
DRIVER_C20 = "driver_c20"
RUN_TIMEOUT = {"s": 120}

X_EXT = "this->extensions()_==_other.extensions()"
# probes that witness one and the same defect (one known-finding entry matches the group)
PROBE_GROUP = {"v_member_cast_rebased": "scale_rebased", "v_reinterpret_array_cast_rebased": "scale_rebased"}
PROBES = [
    # name, result demanded by the property, why, (violating probes) the asserted expression that must stop the call
    ("diag_zero_based", "ok", "valid", None),
    ("diag_rebased", "ok", "valid", None),
    ("null_base_slice_first", "ok", "valid", None),
    ("null_base_slice", "ok", "valid", None),
    ("reextent_same_base", "ok", "valid", None),
    ("reextent_rebased", "ok", "valid", None),          # regression of KF-C20-reextent-rebased-asserts (fixed by /repo 97e4116)
    ("reextent_disjoint", "ok", "valid", None),         # /repo 3905732: no view of a null block when nothing is in common
    ("reshape_same_count", "ok", "valid", None),
    ("reshape_count_differs", "abort", "mismatched", "new_layout.num_elements()_==_this->num_elements()"),
    ("reextent_zero_inner", "ok", "valid", None),
    ("elements_zero_inner", "ok", "valid", None),
    ("strided_rebased", "ok", "valid", None),
    ("array_ref_assign_count_differs", "abort", "mismatched", X_EXT),
    ("array_ref_assign_transposed", "abort", "mismatched", X_EXT),
    # regression probes for the defects closed by /repo 6c4fe5c (all must abort) and their control
    ("assign_views_inner_permuted", "abort", "mismatched", X_EXT),
    ("move_assign_views_count_differs", "abort", "mismatched", X_EXT),
    ("swap_views_count_differs", "abort", "mismatched", X_EXT),
    ("elements_assign_count_differs", "abort", "mismatched", "size()_==_other.size()"),
    ("assign_views_equal", "ok", "valid", None),
    # aliasing operands (seed C20-s4): two named views of ONE array, same first element and strides, different extents
    ("assign_aliasing_same_first_2d", "abort", "mismatched", X_EXT),
    ("assign_aliasing_same_first_1d", "abort", "mismatched", X_EXT),
    ("assign_aliasing_same_view", "ok", "valid", None),
    # ---- one probe per assertion site that no generated family reaches (harness/common/c20_site_probes.hpp):
    #      v_* valid calls (silent, right values), x_* calls violating the stated precondition (stopped by that assertion)
    ("v_member_cast_rebased", "ok", "valid", None),
    ("v_reinterpret_array_cast_rebased", "ok", "valid", None),
    ("v_member_cast_zero_based", "ok", "valid", None),
    ("x_layout_extension_offset_indivisible", "abort", "violating", "offset__%_stride__==_0"),
    ("x_layout_extension_nelems_indivisible", "abort", "violating", "nelems__%_stride__==_0"),
    ("v_subarray_ptr_compare", "ok", "valid", None),
    ("x_subarray_ptr_compare_other_layout", "abort", "violating", "(!self_||_!other)_||_(self->layout()_==_othe"),
    ("x_subarray_ptr_ne_other_layout", "abort", "violating", "(!self_||_!other)_||_(self->layout()_==_othe"),
    ("x_subarray_ptr_less_other_layout", "abort", "violating", "layout_.nelems()_==_other.layout_.nelems()"),
    ("x_subarray_ptr_less_same_nelems_other_layout", "abort", "violating", "layout__==_other.layout_"),
    ("x_iterator_eq_other_stride", "abort", "violating", "this->stride__==_other.stride_"),
    ("x_iterator_eq_other_layout", "abort", "violating", "this->ptr_->layout()_==_other.ptr_->layout()"),
    ("x_iterator_diff_other_stride", "abort", "violating", "self.stride__==_other.stride_"),
    ("x_iterator_diff_zero_stride", "abort", "violating", "self.stride__!=_0"),
    ("x_iterator1d_diff_other_stride", "abort", "violating", "stride()_==_other.stride()"),
    ("x_iterator1d_diff_misaligned", "abort", "violating", "(ptr__-_other.ptr_)%stride()_==_0"),
    ("x_iterator1d_eq_other_stride", "abort", "violating", "this->stride__==_other.stride_"),
    ("x_iterator1d_ne_other_stride", "abort", "violating", "this->stride__==_other.stride_"),
    ("x_iterator1d_eq_const_other_stride", "abort", "violating", "this->stride__==_other.stride_"),
    ("x_iterator1d_less_other_stride", "abort", "violating", "stride()_==_other.stride()"),
    ("v_iterator_post_increment", "ok", "valid", None),
    ("x_elements_iterator_eq_other_range", "abort", "violating", "base__==_other.base__&&_l__==_other.l_"),
    ("x_elements_iterator_ne_other_range", "abort", "violating", "base__==_other.base__&&_l__==_other.l_"),
    ("x_elements_iterator_diff_other_range", "abort", "violating", "base__==_other.base__&&_l__==_other.l_"),
    ("x_elements_iterator_less_other_range", "abort", "violating", "base__==_other.base__&&_l__==_other.l_"),
    ("x_elements_index_on_empty", "abort", "violating", "!_is_empty()"),
    ("v_elements_swap_and_init_list", "ok", "valid", None),
    ("x_elements_swap_lv_rv_count_differs", "abort", "violating", "size()_==_other.size()"),
    ("x_elements_swap_rv_lv_count_differs", "abort", "violating", "size()_==_other.size()"),
    ("x_elements_init_list_count_differs", "abort", "violating", "static_cast<size_type>(values.size())_==_siz"),
    ("v_elements_at", "ok", "valid", None),
    ("x_elements_at_beyond", "abort", "violating", "idx_<_this->num_elements()"),
    ("x_elements_at_beyond_const", "abort", "violating", "idx_<_this->num_elements()"),
    ("x_elements_at_beyond_rvalue", "abort", "violating", "idx_<_this->num_elements()"),
    ("x_elements_at_negative", "abort", "violating", None),          # stopped by the inner operator[] assertion (signed size_type)
    ("x_elements_at_negative_row", "abort", "violating", None),
    ("x_elements_at_1d_negative", "abort", "violating", None),
    ("x_elements_at_1d_beyond", "abort", "violating", "idx_<_this->num_elements()"),
    ("x_elements_at_1d_beyond_const", "abort", "violating", "idx_<_this->num_elements()"),
    ("x_elements_at_1d_beyond_rvalue", "abort", "violating", "idx_<_this->num_elements()"),
    ("v_tiled", "ok", "valid", None),
    ("x_tiled_zero", "abort", "violating", "count_!=_0"),
    ("x_tiled_1d_zero", "abort", "violating", "count_!=_0"),
    ("v_subarray_from_iterators", "ok", "valid", None),
    ("x_subarray_from_iterators_other_layout", "abort", "violating", "first->layout()_==_last->layout()"),
    ("v_reinterpret_array_cast", "ok", "valid", None),
    ("x_reinterpret_array_cast_count", "abort", "violating", "sizeof(T)_==_sizeof(T2)*static_cast<std::siz"),
    ("x_reinterpret_array_cast_count_const", "abort", "violating", "sizeof(T)_==_sizeof(T2)_*_static_cast<std::s"),
    ("x_reinterpret_array_cast_count_rvalue", "abort", "violating", "sizeof(T)_==_sizeof(T2)*static_cast<std::siz"),
    ("x_reinterpret_array_cast_1d_stride_const", "abort", "violating", "this->layout().stride()*static_cast<size_typ"),
    ("x_reinterpret_array_cast_1d_stride", "abort", "violating", "(stride_*num)_%_den_==_0"),
    ("v_assign_from_ranges", "ok", "valid", None),
    ("x_assign_range_size_differs", "abort", "violating", "this->size()_==_static_cast<size_type>(adl_s"),
    ("x_assign_init_list_size_differs", "abort", "violating", "static_cast<size_type>(values.size())_==_thi"),
    ("x_assign_view_of_const_extents_differ", "abort", "violating", "this->extensions()_==_other.extensions()"),
    ("x_assign_view_of_other_element_type_extents_differ", "abort", "violating", "other.extensions()_==_this->extensions()"),
    ("x_assign_view_of_other_element_type_aliasing_shape", "abort", "violating", "other.extensions()_==_this->extensions()"),
    ("x_assign_view_of_const_aliasing_extents_differ", "abort", "violating", "this->extensions()_==_other.extensions()"),
    ("v_rank0", "ok", "valid", None),
    ("x_rank0_elements_at_beyond", "abort", "violating", "idx_<_this->num_elements()"),
    ("v_constructor_sweep", "ok", "valid", None),
    ("x_static_array_copy_assign_extents_differ", "abort", "violating", "other.extensions()_==_this->extensions()"),
    ("x_static_array_move_assign_extents_differ", "abort", "violating", "extensions(other)_==_static_array::extension"),
    ("x_static_array_converting_assign_extents_differ", "abort", "violating", "extensions(other)_==_static_array::extension"),
    ("x_static_array_assign_view_extents_differ", "abort", "violating", "this->extensions()_==_other.extensions()"),
    ("v_layout_drop_take_all", "ok", "valid", None),
    ("x_layout_drop_beyond", "abort", "violating", "count_<=_this->size()"),
    ("x_layout1d_drop_beyond", "abort", "violating", "count_<=_this->size()"),
    ("v_contiguous_layout_drop", "ok", "valid", None),
    ("x_contiguous_layout_drop_beyond", "abort", "violating", "count_<=_this->size()"),
    ("x_layout_halve_odd", "abort", "violating", "this->size()%2_==_0"),
    ("v_layout_scale", "ok", "valid", None),
    ("x_layout_scale_indivisible", "abort", "violating", "(stride_*num)_%_den_==_0"),
    ("v_extensions_from_linear", "ok", "valid", None),
    ("x_extensions_from_linear_zero_inner", "abort", "violating", "sub_num_elements_!=_0"),
    ("x_extensions0_from_linear_nonzero", "abort", "violating", "n_==_0"),
]


# --------------------------------------------------------------------------------------------
# (a) the four existing families in three build configurations
# --------------------------------------------------------------------------------------------
class CfgFamily(progcheck.Family):
    """A harness family whose unchanged source is built once per configuration."""

    def __init__(self, name, gen_cmd, run_cmd, harness, sources, gen_extra=(), extra_flags=(), body_prefixes=("op ", "probe ", "w ", "it ")):
        super().__init__(PID, gen_cmd, run_cmd, harness, sources, body_prefixes=body_prefixes)
        self.name = name
        self.gen_extra = list(gen_extra)
        self.extra_flags = tuple(extra_flags)
        self.exes = {}

    def build_cfg(self, cfg, flags):
        ok, exe, log = core.build_harness(self.harness, self.sources, flags=tuple(flags) + self.extra_flags, tag="_c20" + cfg)
        if ok:
            self.exes[cfg] = exe
        return ok, log

    def run_cfg(self, cfg, prog_text, shards=None):
        # valid programs take seconds; a hang (seen with a mutation that corrupts nelems in the unchecked builds) is cut short
        return core.run_harness(self.exes[cfg], prog_text, shards=shards, timeout=RUN_TIMEOUT["s"])

    def case_fails(self, block):
        mtxt = self.model_run(block)
        if re.search(r"^X ", mtxt, re.M):
            return None
        outs = {}
        for cfg, _f in CONFIGS:
            out, crashes = self.run_cfg(cfg, block, shards=1)
            if crashes:
                tail = (crashes[0][2].strip().splitlines() or [""])[-1]
                return ("abort-on-valid-program[%s]" % cfg, "", "signal/exit %s: %s" % (crashes[0][1], tail[:300]))
            outs[cfg] = out
        for cfg, _f in CONFIGS[1:]:
            if outs[cfg] != outs["dbg"]:
                a, b = first_diff(outs["dbg"], outs[cfg])
                return ("results-differ[dbg vs %s]" % cfg, a, b)
        return False


def first_diff(a, b):
    la, lb = a.splitlines(), b.splitlines()
    for x, y in zip(la, lb):
        if x != y:
            return x, y
    return "<%d lines>" % len(la), "<%d lines>" % len(lb)


def make_families(has_ge):
    ge_flags = ("-DC07_HAS_GE",) if has_ge else ()
    return [
        CfgFamily("views", "views", "views-run", "h_views", ["h_views.cpp"]),
        CfgFamily("views-rebased", "views", "views-run", "h_views", ["h_views.cpp"], gen_extra=["--rebased"]),
        CfgFamily("iters", "iters", "iters-run", "h_iters", ["h_iters.cpp"]),
        CfgFamily("iters-rebased", "iters", "iters-run", "h_iters", ["h_iters.cpp"], gen_extra=["--rebased"]),
        CfgFamily("assign", "assign", "assign-run", "h_assign", ["h_assign.cpp"], body_prefixes=("dop ", "sop ")),
        CfgFamily("assign-rebased", "assign", "assign-run", "h_assign", ["h_assign.cpp"], gen_extra=["--rebased"], body_prefixes=("dop ", "sop ")),
        CfgFamily("compare", "compare", "compare-run", "h_compare", ["h_compare.cpp"], gen_extra=(["--has-ge"] if has_ge else []),
                  extra_flags=ge_flags, body_prefixes=("xop ",)),
    ]


def family_of_text(text, fams):
    by = {f.name: f for f in fams}
    if re.search(r"^xroot ", text, re.M):
        return by["compare"]
    if re.search(r"^droot ", text, re.M) and re.search(r"^do ", text, re.M):
        return by["assign"]
    if re.search(r"^it ", text, re.M):
        return by["iters"]
    return by["views"]



# --------------------------------------------------------------------------------------------
# (a') the lifecycle family (harness/h_life.cpp UNCHANGED, vlib/lifecommon.py) in three build configurations
# --------------------------------------------------------------------------------------------
class LifeFamily:
    """Fault-free histories of array.hpp entry points (driver_life gen, kinds c04 and c06) on h_life built for a few
    lifecycle configurations x {default, -DNDEBUG, -DBOOST_MULTI_ASSERT_DISABLE}."""
    name = "life"

    def __init__(self):
        from . import lifecommon as lc
        self.lc = lc
        self.lcfgs = [lc.cfg(d=2, t=1), lc.cfg(d=1, t=0), lc.cfg(d=3, t=1)]
        self.exes = {}            # (life key, build cfg) -> exe

    def jobs(self):
        return [(self, (self.lc.cfg_key(c), cfg), (c, flags)) for c in self.lcfgs for cfg, flags in CONFIGS]

    @property
    def harness(self):
        return "h_life"

    def build_cfg(self, keycfg, cflags):
        key, cfg = keycfg
        c, flags = cflags
        extra = [] if self.lc.assign_fill_compiles()[0] else ["-DLIFE_NO_ASSIGN_FILL"]
        ok, exe, log = core.build_harness("h_life", ["h_life.cpp"], flags=self.lc.cfg_flags(c) + extra + list(flags),
                                          tag="_c20%s_%s" % (cfg, key))
        if ok:
            self.exes[(key, cfg)] = exe
        return ok, log

    def generate(self, seed, quick):
        progs = []
        for k, c in enumerate(self.lcfgs):
            n6, n4 = (500, 300) if quick else (8000, 5000)
            progs.append(self.lc.generate("c06", c, seed + 31 * k, n6, 16 if quick else 40, "l6%d_" % k))
            progs.append(self.lc.generate("c04", c, seed + 31 * k + 7, n4, 16 if quick else 40, "l4%d_" % k))
        return "".join(progs)

    def key_of(self, block):
        for line in block.splitlines():
            if line.startswith("cfg "):
                return self.lc.cfg_key(self.lc.parse_cfg_line(line))
        return None

    def run_cfg(self, cfg, prog_text, shards=None):
        groups = {}
        for _cid, block in core.split_cases(prog_text):
            groups.setdefault(self.key_of(block), []).append(block)
        outs, crashes = [], []
        for key, blocks in groups.items():
            exe = self.exes.get((key, cfg))
            if exe is None:
                crashes.append(("<no-executable-%s-%s>" % (key, cfg), -1, "not built"))
                continue
            out, cr = core.run_harness(exe, "".join(blocks), shards=shards, timeout=RUN_TIMEOUT["s"])
            outs.append(out)
            crashes.extend(cr)
        return "".join(outs), crashes

    def in_domain(self, block):
        m = self.lc.model_run(block)
        return not re.search(r"^(X|V) ", m, re.M) and " skipped" not in m

    def case_fails(self, block):
        try:
            if not self.in_domain(block):
                return None
        except Exception:
            return None
        outs = {}
        for cfg, _f in CONFIGS:
            out, crashes = self.run_cfg(cfg, block, shards=1)
            if crashes:
                tail = (crashes[0][2].strip().splitlines() or [""])[-1]
                return ("abort-on-valid-history[%s]" % cfg, "", "signal/exit %s: %s" % (crashes[0][1], tail[:300]))
            outs[cfg] = out
        for cfg, _f in CONFIGS[1:]:
            if outs[cfg] != outs["dbg"]:
                a, b = first_diff(outs["dbg"], outs[cfg])
                return ("results-differ[dbg vs %s]" % cfg, a, b)
        return False

    def shrink(self, block, budget=40):
        lines = block.splitlines()
        head = [l for l in lines if not l.startswith("op ") and l.strip() != "end"]
        ops = [l for l in lines if l.startswith("op ")]
        tries, k = 0, len(ops) - 1
        while k >= 0 and tries < budget:
            cand = ops[:k] + ops[k + 1:]
            txt = "\n".join(head + cand + ["end"]) + "\n"
            tries += 1
            if self.case_fails(txt):
                ops = cand
            k -= 1
        return "\n".join(head + ops + ["end"]) + "\n"

# --------------------------------------------------------------------------------------------
# (b) death tests
# --------------------------------------------------------------------------------------------
class DeathFamily(progcheck.Family):
    def __init__(self):
        super().__init__(PID, "deaths", "deaths-run", "h_asserts", ["h_asserts.cpp"], driver=DRIVER_C20,
                         body_prefixes=("op ", "oob ", "xop ", "asg ", "dop ", "sop "))
        self.exes = {}
        self.which = "dbg"

    def build_cfg(self, cfg, flags):
        ok, exe, log = core.build_harness(self.harness, self.sources, flags=tuple(flags), tag="_c20" + cfg)
        if ok:
            self.exes[cfg] = exe
        return ok, log

    def run_cfg(self, cfg, prog_text, shards=None):
        env = {"ASAN_OPTIONS": "detect_leaks=0:abort_on_error=0:allocator_may_return_null=1"} if cfg == "asan" else None
        return core.run_harness(self.exes[cfg], prog_text, env=env, shards=shards, timeout=1800)

    def case_fails(self, block):
        mtxt = self.model_run(block)
        if re.search(r"^X ", mtxt, re.M):
            return None
        itxt, crashes = self.run_cfg(self.which, block, shards=1)
        if crashes:
            tail = (crashes[0][2].strip().splitlines() or [""])[-1]
            return ("harness-crash", "", "signal/exit %s: %s" % (crashes[0][1], tail[:300]))
        bad, known = judge_deaths(block, mtxt, itxt)
        for k in known:
            if not match_known_rec(k[4]):
                bad.append(k[:4])
        if bad:
            return bad[0][1:]
        return False


S_EXT = re.compile(r" ext=(\S*) ")
# harness/common/c20_recv.hpp, coq/Model/AssertsRecv.v
ENTRY_TEXT = {"B": "r[i0][i1]..", "C": "r(i0,i1,..)", "T": "r.apply(tuple)", "U": "r[tuple]", "F": "r.front()[i1]..", "K": "r.back()[i1]..",
              "I": "r.begin()[k][i1]..", "S": "(*(r.begin()+k))[i1]..", "N": "r.end()[-k][i1]..", "H": "r.home()[k0][k1]..",
              "E": "r.elements()[n]", "A": "r.elements_at(n)", "Ax": "r.elements_at(num_elements()+k)"}
RECV_TEXT = {"cv_l": "a named const_subarray", "cv_c": "a const const_subarray", "cv_r": "an rvalue const_subarray",
             "sv_l": "a named subarray", "sv_c": "a const subarray", "sv_r": "an rvalue subarray (std::move)", "sv_t": "a temporary subarray",
             "mv_l": "a named move_subarray", "mv_r": "a temporary move_subarray",
             "ref_l": "an array_ref lvalue", "ref_c": "a const array_ref", "ref_r": "an rvalue array_ref (std::move)", "ref_t": "a temporary array_ref",
             "arr_l": "an array lvalue", "arr_c": "a const array", "arr_r": "an rvalue array (std::move(A))", "arr_t": "a temporary array",
             "arr_p": "the array returned by unary + of a view", "sta_l": "a static_array lvalue", "sta_c": "a const static_array",
             "sta_r": "an rvalue static_array"}
COQ_ENTRY = {"B": "EBrackets", "C": "ECall", "T": "EApply", "U": "ETupleBr", "F": "EFront", "K": "EBack", "I": "EItIndex", "S": "EItDeref",
             "N": "EEndIndex", "H": "ECursor"}
CHECKED_ENTRIES = ("B", "C", "T", "U")            # every level goes through an operator[]
UNCHECKED_FIRST = ("F", "K", "I", "S", "N")       # the first level evaluates no assertion, the later ones do
VALID_ONLY = ("H", "E", "A")                      # in-range tuples only


def judge_deaths(prog_text, model_text, impl_text):
    """Returns (violations, candidates_for_known_findings); each item (case id, found_by, expected, got[, record])."""
    bad, known = [], []
    m, im = core.by_case(model_text), core.by_case(impl_text)
    blocks = dict(core.split_cases(prog_text))
    for cid, ml in m.items():
        il = [l for l in im.get(cid, []) if not l.startswith("L ")]
        info = {}
        for l in im.get(cid, []):
            if l.startswith("L "):
                p = l.split()
                info[p[2]] = l
        if not il:
            bad.append((cid, "no-output", ml[0] if ml else "", "<no output>"))
            continue
        if any(l.startswith("U ") for l in il):
            continue                      # an operation the harness cannot express at this rank: skipped, as in C01
        # ---- shapes and index deaths: model vs implementation, line by line ----
        mS = [l for l in ml if l[:2] in ("S ", "D ", "E ", "O ")]
        iS = [l for l in il if l[:2] in ("S ", "D ", "E ", "O ") and not l.endswith("res=unsupported")]
        unsup = set(l.split()[2] for l in il if l.startswith("O ") and l.endswith("res=unsupported"))
        mS = [l for l in mS if not (l.startswith("O ") and l.split()[2] in unsup)]
        # the extension the LIBRARY reports for the final view (last S line)
        ext = None
        for l in iS:
            if l.startswith("S "):
                e = S_EXT.search(l + " ")
                ext = [tuple(int(x) for x in q.split(":")) for q in e.group(1).split(",")] if e and e.group(1) else []
        index_bases = bool(ext) and any(f != 0 for f, _t in ext)
        # index tests the property does not claim (an out-of-range first index handed to an iterator / front / back / cursor /
        # elements()[n]: none is generated; a hand-written replay may hold one) are not judged; elements_at is judged against
        # the PROPERTY (silent inside [0, num_elements())): a disagreement is a candidate known finding
        iD = {l.split()[2]: l for l in iS if l.startswith("D ")}
        drop = set()
        for l in mS:
            if not l.startswith("D "):
                continue
            n = l.split()[2]
            g = iD.get(n)
            if " res=unclaimed" in l:
                drop.add(n)
            elif g is not None and " path=A@" in l and g != l:
                drop.add(n)
                rec = {"harness": "h_asserts", "site": "elements_at", "index_bases": index_bases, "expected": "ok",
                       "got": dict(q.split("=", 1) for q in g.split()[3:]).get("res", "?")}
                known.append((cid, "death:elements_at-of-a-valid-position-%s" % ("aborted" if rec["got"] == "abort" else "gave-another-element"),
                              l, (g + "  " + info.get(n, "")).strip(), rec))
        mS = [l for l in mS if not (l.startswith("D ") and l.split()[2] in drop)]
        iS = [l for l in iS if not (l.startswith("D ") and l.split()[2] in drop)]
        if any(l.startswith("D ") or l.startswith("S ") for l in mS):
            if mS != iS:
                a, b = first_diff("\n".join(mS), "\n".join(iS))
                n = b.split()[2] if b[:2] in ("D ", "O ") and len(b.split()) > 2 else "0"
                if b.startswith("O "):
                    n = str(1000 + int(n))
                extra = info.get(n, "")
                why = "death:model-and-library-disagree"
                if b.startswith("D ") and a.startswith("D ") and "@" in b.split()[3]:
                    ent, rcv = b.split()[3][5:].split("@", 1)
                    why += "[%s on %s]" % (ENTRY_TEXT.get(ent, ent), RECV_TEXT.get(rcv, rcv))
                bad.append((cid, why, a, (b + "  " + extra).strip()))
                continue
            # direct monitor, independent of the model: outside the printed extension <=> abort
            for l in iS:
                if not l.startswith("D "):
                    continue
                p = l.split()
                ent = p[3][5:].split("@", 1)[0]
                idx = [int(x) for x in p[4][4:].split(",")] if p[4][4:] else []
                res = p[5][4:]
                tag = ""
                if "@" in p[3]:
                    tag = "[%s on %s]" % (ENTRY_TEXT.get(ent, ent), RECV_TEXT.get(p[3][5:].split("@", 1)[1], "?"))
                if ent == "Ax":
                    if res != "abort":
                        bad.append((cid, "death:elements_at-beyond-num_elements-not-stopped-by-a-library-assertion" + tag, "res=abort",
                                    l + "  " + info.get(p[2], "")))
                    continue
                inside = ext is not None and len(idx) == len(ext) and all(f <= k < t for k, (f, t) in zip(idx, ext))
                if inside and res != "ok":
                    bad.append((cid, "death:valid-index-aborted" + tag, "res=ok", l + "  " + info.get(p[2], "")))
                elif not inside and res != "abort":
                    bad.append((cid, "death:out-of-range-index-not-stopped-by-a-library-assertion" + tag, "res=abort", l + "  " + info.get(p[2], "")))
        # ---- assignments: the PROPERTY decides what is expected, the model says what the pinned overload checks ----
        mA = [l for l in ml if l.startswith("A ")]
        gA = [x for x in il if x.startswith("A ")]
        for n_a, l in enumerate(mA):
            f = dict(q.split("=", 1) for q in l.split()[2:])
            if n_a >= len(gA):
                bad.append((cid, "assign:no-output", l, "<none>"))
                continue
            got = [gA[n_a]]
            g = dict(q.split("=", 1) for q in got[0].split()[2:])
            res = g.get("res")
            linfo = info.get(str(n_a + 1), "")
            if g.get("kind") != f["kind"]:
                bad.append((cid, "assign:statement-order-differs", l, got[0]))
                continue
            if res == "unsupported":
                continue                               # the harness cannot express this statement on these operands
            nonempty = int(f["dnel"]) > 0 and int(f["snel"]) > 0
            elems_api = f["kind"] in ELEMS_KINDS
            tag = " [aliasing operands: two views of one array]" if f.get("alias") == "1" else ""
            # model-independent monitor: the extensions / element counts the LIBRARY reports for the two operands decide
            if "dext" in g and res in ("ok", "abort"):
                same = (int(g["dnel"]) == int(g["snel"])) if elems_api else _ranges_equal(_ranges(g["dext"]), _ranges(g["sext"]))
                if same and res != "ok":
                    bad.append((cid, "assign:monitor:equal-extents-aborted" + tag, "res=ok", got[0] + "  " + linfo))
                    continue
                if not same and res != "abort":
                    bad.append((cid, "assign:monitor:operands-of-different-extents-not-stopped-by-a-library-assertion" + tag, "res=abort", got[0]))
                    continue
            if elems_api:
                # flat ranges compare element counts (C20_elements_assign_fire); the model's assertion decides
                if (f["asrt"] == "1") != (res == "ok"):
                    bad.append((cid, "assign:elements-range-model-and-library-disagree" + tag, l, got[0] + "  " + linfo))
            elif f["xeq"] == "1":
                if res != "ok":
                    bad.append((cid, "assign:equal-extents-aborted" + tag, "res=ok", got[0] + "  " + linfo))
            elif res == "abort":
                pass                                   # stopped by a library assertion: what the property demands
            elif res == "ok":
                if f["asrt"] == "0":
                    bad.append((cid, "assign:mismatch-not-stopped-although-the-modelled-assertion-is-false" + tag, l, got[0]))
                elif nonempty:
                    # cannot happen with the model of the fixed code (C20_assign_fire: every view overload compares all
                    # extensions); kept so that a model that says "unchecked" is reported, never silently accepted
                    bad.append((cid, "assign:mismatch-not-stopped" + tag, l, got[0]))
            else:
                bad.append((cid, "assign:unexpected-termination", "res=abort", got[0] + "  " + linfo))
        _ = blocks
    return bad, known


def valid_only(prog_text, model_text):
    """The assignment cases of a death program reduced to the statements the MODEL accepts (assertion true): those are valid
    programs and may run on the unchecked builds."""
    m = core.by_case(model_text)
    out = []
    for cid, block in core.split_cases(prog_text):
        mA = [l for l in m.get(cid, []) if l.startswith("A ")]
        if not mA:
            continue
        ok = [" asrt=1 " in l and (" xeq=1 " in l or l.split()[2][5:] in ELEMS_KINDS) for l in mA]
        lines, k, kept = [], 0, 0
        for l in block.splitlines():
            if l.startswith("asg "):
                if k < len(ok) and ok[k]:
                    lines.append(l)
                    kept += 1
                k += 1
            else:
                lines.append(l)
        if kept:
            out.append("\n".join(lines) + "\n")
    return "".join(out)


def valid_index_only(prog_text, model_text):
    """The index cases of a death program reduced to the accesses the MODEL declares valid (res=ok): valid programs, which
    run on the unchecked builds too and must read the same element there."""
    m = core.by_case(model_text)
    out = []
    for cid, block in core.split_cases(prog_text):
        mD = [l for l in m.get(cid, []) if l.startswith("D ")]
        if not mD or not re.search(r"^oob ", block, re.M):
            continue
        ok = [" res=ok " in l + " " for l in mD]
        lines, k, kept = [], 0, 0
        for l in block.splitlines():
            if l.startswith("oob "):
                if k < len(ok) and ok[k]:
                    lines.append(l)
                    kept += 1
                k += 1
            elif not l.startswith("xop "):
                lines.append(l)
        if kept:
            out.append("\n".join(lines) + "\n")
    return "".join(out)


def judge_index_configs(deaths, iprog):
    """valid element accesses (every entry point x receiver kind the death program holds) on the -DNDEBUG and
    -DBOOST_MULTI_ASSERT_DISABLE builds of h_asserts: res=ok and the value the model computes (= the root address of the
    element).  Returns (violations, candidates for known findings, number of accesses compared)."""
    bad, known, n = [], [], 0
    if not iprog:
        return bad, known, n
    want = core.by_case(deaths.model_run(iprog))
    for cfg, _f in CONFIGS[1:]:
        if cfg not in deaths.exes:
            continue
        out, crashes = deaths.run_cfg(cfg, iprog)
        for cid, rc, err in crashes:
            bad.append((cid, "death-harness-crash[%s]" % cfg, "", "signal/exit %s" % rc))
        got = core.by_case(out)
        for cid, wl in want.items():
            gl = got.get(cid, [])
            if any(l.startswith("U ") for l in gl):
                continue
            ext = None
            for l in gl:
                if l.startswith("S "):
                    e = S_EXT.search(l + " ")
                    ext = [tuple(int(x) for x in q.split(":")) for q in e.group(1).split(",")] if e and e.group(1) else []
            index_bases = bool(ext) and any(f != 0 for f, _t in ext)
            gD = {l.split()[2]: l for l in gl if l.startswith("D ")}
            for l in wl:
                if not l.startswith("D ") or " res=ok " not in l + " ":
                    continue
                n += 1
                g = gD.get(l.split()[2], "<no output>")
                if g == l:
                    continue
                if " path=A@" in l:
                    rec = {"harness": "h_asserts", "site": "elements_at", "index_bases": index_bases, "expected": "ok",
                           "got": dict(q.split("=", 1) for q in g.split()[3:]).get("res", "?") if g.startswith("D ") else "?",
                           "configuration": cfg}
                    known.append((cid, "index:elements_at-of-a-valid-position-gives-another-element[%s]" % CFG_TEXT[cfg], l, g, rec))
                else:
                    p = l.split()[3][5:]
                    tag = ""
                    if "@" in p:
                        tag = "[%s on %s]" % (ENTRY_TEXT.get(p.split("@")[0], p), RECV_TEXT.get(p.split("@")[1], "?"))
                    bad.append((cid, "index:valid-access-differs[%s]%s" % (CFG_TEXT[cfg], tag), l, g))
    return bad, known, n


def overload_table_agreement(model_text, impl_text):
    """A MEASUREMENT, never a verdict: for every out-of-range access on a drawn receiver, the member function that holds the
    assertion which stopped it (the name glibc prints: operator[] for the const& overload of rank > 1, at_aux_ for the others)
    against the prediction of the receiver -> overload table of coq/Model/AssertsRecv.v (ov_of, ov_first, first_result, ov_next).
    Returns (agreeing, [disagreements])."""
    want = {}
    for l in model_text.splitlines():
        if l.startswith("W "):
            p = l.split()
            want[(p[1], p[2])] = p[3][3:]
    n, diff = 0, []
    for l in impl_text.splitlines():
        if l.startswith("L "):
            p = l.split()
            w = want.get((p[1], p[2]))
            fn = p[-1][3:] if p[-1].startswith("fn=") else None
            if w is None or fn is None or "line=0" in l:
                continue
            if fn == w:
                n += 1
            elif len(diff) < 20:
                diff.append("%s %s: model %s, library %s" % (p[1], p[2], w, fn))
    return n, diff


def entry_receiver_matrix(prog_text, impl_text):
    """{entry: {receiver: [aborted, ok, other]}} of the index tests that ran (a measurement for the evidence), and the cells
    of the entry x receiver matrix that no test reached."""
    paths = {}
    for cid, block in core.split_cases(prog_text):
        k = 0
        for l in block.splitlines():
            if l.startswith("oob "):
                k += 1
                paths[(cid, str(k))] = l.split()[1]
    table = {}
    for l in impl_text.splitlines():
        if not l.startswith("D "):
            continue
        p = l.split()
        path = paths.get((p[1], p[2]), p[3][5:])
        ent, rcv = (path.split("@", 1) + ["(plain)"])[:2]
        cell = table.setdefault(ent, {}).setdefault(rcv, [0, 0, 0])
        res = p[5][4:]
        cell[0 if res == "abort" else 1 if res == "ok" else 2] += 1
    missing = []
    for ent in CHECKED_ENTRIES + UNCHECKED_FIRST + VALID_ONLY + ("Ax",):
        for rcv in RECV_TEXT:
            c = table.get(ent, {}).get(rcv, [0, 0, 0])
            need_abort = ent in CHECKED_ENTRIES + UNCHECKED_FIRST + ("Ax",)
            need_ok = ent != "Ax"
            if (need_abort and c[0] == 0) or (need_ok and c[1] == 0):
                missing.append("%s@%s" % (ent, rcv))
    return table, missing


def judge_configs(deaths, vprog, impl_dbg_valid, probe_names=None):
    """valid assignment statements and valid probes on the -DNDEBUG / -DBOOST_MULTI_ASSERT_DISABLE builds of h_asserts:
    same outcome (res=ok) and same buffer contents as the assertion-enabled build."""
    bad = []
    ref = {}
    for cid, ls in core.by_case(impl_dbg_valid).items():
        ref[cid] = [" ".join(q for q in l.split() if q.startswith(("kind=", "res=", "hash="))) for l in ls if l.startswith("A ")]
    vprobes = "".join("case KV%d\nprobe %s\nend\n" % (k, p[0]) for k, p in enumerate(PROBES)
                      if p[1] == "ok" and (probe_names is None or p[0] in probe_names))
    n = 0
    for cfg, _f in CONFIGS[1:]:
        if cfg not in deaths.exes:
            continue
        out, crashes = deaths.run_cfg(cfg, vprog + vprobes)
        for cid, rc, err in crashes:
            bad.append((cid, "death-harness-crash[%s]" % cfg, "", "signal/exit %s" % rc))
        got = core.by_case(out)
        for cid, want in ref.items():
            g = [" ".join(q for q in l.split() if q.startswith(("kind=", "res=", "hash="))) for l in got.get(cid, []) if l.startswith("A ")]
            n += len(want)
            if g != want:
                a, b = first_diff("\n".join(want), "\n".join(g))
                bad.append((cid, "assign:results-differ[%s vs %s]" % (CFG_TEXT["dbg"], CFG_TEXT[cfg]), a, b))
        for l in out.splitlines():
            if l.startswith("K ") and not l.endswith("res=ok"):
                name = l.split()[2]
                rec = {"harness": "h_asserts", "site": "probe:" + name, "expected": "ok", "got": l.split()[3][4:], "configuration": cfg,
                       "group": PROBE_GROUP.get(name, name)}
                if not match_known_rec(rec) and not match_known_rec({k: v for k, v in rec.items() if k != "configuration"}) \
                        and not (name == "diag_rebased"):
                    bad.append((l.split()[1], "probe:%s:valid-program-fails[%s]" % (name, CFG_TEXT[cfg]), "res=ok", l))
    return bad, n


def match_known_rec(rec):
    rec = dict(rec)
    pid = rec.pop("_pid", PID)
    return core.match_known(pid, rec)


def probe_prog():
    return "".join("case K%d\nprobe %s\nend\n" % (k, p[0]) for k, p in enumerate(PROBES))


def judge_probes(impl_text, require_all=True):
    bad, known = [], []
    want = {p[0]: (p[1], p[2]) for p in PROBES}
    want_expr = {p[0]: p[3] for p in PROBES}
    seen = set()
    info = {}
    for l in impl_text.splitlines():
        if l.startswith("L "):
            info[l.split()[1]] = l
    for l in impl_text.splitlines():
        if not l.startswith("K "):
            continue
        p = l.split()
        cid, name, res = p[1], p[2], p[3][4:]
        seen.add(name)
        if name not in want:
            bad.append((cid, "probe:unknown-probe", name, l))
            continue
        expect, why = want[name]
        if res == expect:
            ex = want_expr.get(name)
            if expect == "abort" and ex and ("expr=" + ex) not in info.get(cid, ""):
                # stopped, but not by the assertion that states the violated precondition
                bad.append((cid, "probe:%s:stopped-by-another-assertion" % name, "expr=" + ex, l + "  " + info.get(cid, "")))
            continue
        rec = {"harness": "h_asserts", "site": "probe:" + name, "expected": expect, "got": res, "group": PROBE_GROUP.get(name, name)}
        if name == "diag_rebased" and res == "abort":
            # the same defect as C19's finding (diagonal_aux_ takes its block from index 0): reuse that entry
            rec = {"_pid": "C19", "harness": "h_views", "rebased_diagonal": True}
        known.append((cid, "probe:%s:%s-program-%s" % (name, why, "aborted" if res == "abort" else "not-stopped"), "res=" + expect,
                      l + "  " + info.get(cid, ""), rec))
    if require_all:
        for name in want:
            if name not in seen:
                bad.append(("K?", "probe:no-output", name, "<none>"))
    return bad, known



# --------------------------------------------------------------------------------------------
# (c') rank-0 arrays: every valid use must COMPILE and give the same result in the three configurations
# --------------------------------------------------------------------------------------------
R0_CASES = {1: "copy construction", 2: "allocator-extended copy construction", 3: "construction from extensions and allocator",
            4: "construction from extensions", 5: "default construction and copy assignment",
            6: "controls: element constructors, move construction, assignment, comparison, element access"}


def rank0_probe():
    """harness/c20_rank0_probe.cpp, one executable per (case, configuration).  Returns (results, bad, known):
    results[(case, cfg)] = 'ok' | 'does-not-compile' | 'exit<N>'."""
    jobs = [(n, cfg, flags) for n in sorted(R0_CASES) for cfg, flags in CONFIGS]

    def one(j):
        n, cfg, flags = j
        ok, exe, log = core.build_harness("c20_rank0_probe", ["c20_rank0_probe.cpp"], flags=tuple(flags) + ("-DC20_R0_CASE=%d" % n,),
                                          tag="_c20%s_%d" % (cfg, n), timeout=300)
        if not ok:
            first = [l for l in log.splitlines() if "error" in l]
            return "does-not-compile", (first[0] if first else log[-300:])[:300]
        rc, out, err = core.sh([exe], timeout=60)
        return ("ok" if rc == 0 else "exit%d" % rc), (out + err)[-200:]
    with cf.ThreadPoolExecutor(max_workers=min(core.NCPU, len(jobs))) as ex:
        res = dict(zip([(j[0], j[1]) for j in jobs], ex.map(one, jobs)))
    bad, known = [], []
    for n in sorted(R0_CASES):
        r = {cfg: res[(n, cfg)][0] for cfg, _f in CONFIGS}
        if all(v == "ok" for v in r.values()):
            continue
        text = "case %d (%s): %s" % (n, R0_CASES[n], ", ".join("%s: %s" % (CFG_TEXT[c], r[c]) for c, _f in CONFIGS))
        detail = next(res[(n, c)][1] for c, _f in CONFIGS if r[c] != "ok")
        rec = {"harness": "c20_rank0_probe", "site": "rank0:case%d" % n,
               "compiles": "+".join(c for c, _f in CONFIGS if r[c] != "does-not-compile") or "none",
               "runs_ok_where_it_compiles": all(v in ("ok", "does-not-compile") for v in r.values())}
        known.append(("R0_%d" % n, "rank0:a-valid-program-does-not-compile-or-differs-across-configurations", "ok in all three configurations",
                      text + "  [" + detail + "]", rec))
    return {"%d:%s" % k: v[0] for k, v in res.items()}, bad, known


# --------------------------------------------------------------------------------------------
# thorough tier: a sub-sample of the death cases is re-evaluated by vm_compute inside coqc and must agree with the
# extracted OCaml run (bounds the trust in extraction and in the driver's number conversion)
# --------------------------------------------------------------------------------------------
def _z(x):
    x = int(x)
    return "(%d)" % x if x < 0 else str(x)


def _coq_op(toks):
    n, a = toks[0], toks[1:]
    simple = {"rotated": "ORotated", "unrotated": "OUnrotated", "transposed": "OTransposed", "tilde": "OTransposed",
              "reversed": "OReversed", "diagonal": "ODiagonal", "halved": "OHalved", "flatted": "OFlatted"}
    if n in simple:
        return simple[n]
    un = {"index": "OIndex", "strided": "OStrided", "dropped": "ODropped", "taked": "OTaked", "partitioned": "OPartitioned",
          "chunked": "OChunked", "reindexed": "OReindexed"}
    if n in un:
        return "%s %s" % (un[n], _z(a[0]))
    if n in ("sliced", "range"):
        return "OSliced %s %s" % (_z(a[0]), _z(a[1]))
    if n == "blocked":
        return "OBlocked %s %s" % (_z(a[0]), _z(a[1]))
    if n == "sliceds":
        return "OSlicedS %s %s %s" % (_z(a[0]), _z(a[1]), _z(a[2]))
    if n == "paren":
        out, k = [], 1
        while k < len(a):
            if a[k] == "i":
                out.append("PIdx %s" % _z(a[k + 1])); k += 2
            elif a[k] == "r":
                out.append("PRange %s %s" % (_z(a[k + 1]), _z(a[k + 2]))); k += 3
            else:
                out.append("PAll"); k += 1
        return "OParen [%s]" % "; ".join(out)
    raise ValueError("op " + n)


def _coq_exts(toks):
    return "[%s]" % "; ".join("(%s, %s)" % (_z(toks[k]), _z(toks[k + 1])) for k in range(0, len(toks), 2))


AK = {"assign": "AView", "assign_const": "AView", "assign_rv": "AView", "move": "AView", "assign_move": "AView", "assign_rv_rv": "AView",
      "swap": "ASwap", "swap_member": "ASwap", "assign_elems": "AElems", "assign_elems_const": "AElems", "assign_elems_named": "AElems",
      "swap_elems": "AElems", "swap_elems_named": "AElems", "aref_lv": "ARef", "aref_rv": "ARef", "aref_conv_lv": "ARef",
      "aref_conv_rv": "ARef", "aref_from_rv": "ARef", "aref_rv_from_rv": "ARef", "aref_from_array": "ARef"}
ELEMS_KINDS = tuple(k for k, v in AK.items() if v == "AElems")


def _ranges(txt):
    return [tuple(int(x) for x in q.split(":")) for q in txt.split(",")] if txt else []


def _ranges_equal(a, b):
    """index_range equality of the library: all empty ranges are equal, otherwise first and last coincide."""
    return len(a) == len(b) and all((x[1] <= x[0] and y[1] <= y[0]) or x == y for x, y in zip(a, b))


def vm_crosscheck(prog_text, obs_text, limit=250):
    """Returns (number of evaluations, list of (case id, extracted says, vm_compute says))."""
    obs = core.by_case(obs_text)
    evals, expect = [], []
    for cid, block in core.split_cases(prog_text)[: 4 * limit]:
        if len(expect) >= limit:
            break
        lines = [l.split() for l in block.splitlines()]
        try:
            if any(l and l[0] == "root" for l in lines):
                root = [l for l in lines if l and l[0] == "root"][0]
                ops = "[%s]" % "; ".join(_coq_op(l[1:]) for l in lines if l and l[0] == "op")
                dl = [l for l in obs.get(cid, []) if l.startswith("D ")]
                taken = 0
                for n, l in enumerate([l for l in lines if l and l[0] == "oob"]):
                    ent = l[1].split("@")[0]
                    if taken >= 3 or ent not in COQ_ENTRY or n >= len(dl):
                        continue
                    f = dict(q.split("=", 1) for q in dl[n].split()[3:])
                    if f["res"] not in ("ok", "abort"):
                        continue
                    taken += 1
                    idx = "[%s]" % "; ".join(_z(x) for x in l[2:])
                    if "@" in l[1]:
                        evals.append("Eval vm_compute in (c20_lvle %s %s %s %s)." % (COQ_ENTRY[ent], _coq_exts(root[2:]), ops, idx))
                    else:
                        evals.append("Eval vm_compute in (c20_lvl %s %s %s)." % (_coq_exts(root[2:]), ops, idx))
                    expect.append((cid, 0 if f["res"] == "ok" else int(f["rank"])))
            elif any(l and l[0] == "asg" for l in lines):
                dr = [l for l in lines if l and l[0] == "droot"][0]
                sr = [l for l in lines if l and l[0] in ("sroot", "salias")][0]
                dops = "[%s]" % "; ".join(_coq_op(l[1:]) for l in lines if l and l[0] == "dop")
                sops = "[%s]" % "; ".join(_coq_op(l[1:]) for l in lines if l and l[0] == "sop")
                kind = [l for l in lines if l and l[0] == "asg"][0][1]
                al = [l for l in obs.get(cid, []) if l.startswith("A ") and ("kind=%s " % kind) in l]
                if not al:
                    continue
                f = dict(q.split("=", 1) for q in al[0].split()[2:])
                evals.append("Eval vm_compute in (c20_asg %s %s %s %s %s)." % (_coq_exts(dr[2:]), dops, _coq_exts(sr[2:]), sops, AK[kind]))
                expect.append((cid, 2 * int(f["xeq"]) + int(f["asrt"])))
        except (ValueError, IndexError, KeyError):
            continue
    if not evals:
        return 0, []
    src = ("From BM Require Import Base.Tactics Model.Layout Model.View Model.Assign Model.Asserts Model.AssertsRecv.\nLocal Open Scope Z_scope.\n"
           "Definition c20_lvle (e : entry) (x : list range) (ops : list op) (idx : list Z) : Z :=\n"
           "  match run_ops ops (root_view x) with\n  | Some v => match abort_level_entry e v idx with None => 0 | Some k => Z.of_nat (length (lay v)) - Z.of_nat k end\n"
           "  | None => -1 end.\n"
           "Definition c20_lvl (x : list range) (ops : list op) (idx : list Z) : Z :=\n"
           "  match run_ops ops (root_view x) with\n  | Some v => match abort_level v idx with None => 0 | Some k => Z.of_nat (length (lay v)) - Z.of_nat k end\n"
           "  | None => -1 end.\n"
           "Definition c20_asg (xd : list range) (od : list op) (xs : list range) (os : list op) (k : akind) : Z :=\n"
           "  match run_ops od (root_view xd), run_ops os (root_view xs) with\n"
           "  | Some d, Some s => 2 * (if x_eq (l_extensions (lay d)) (l_extensions (lay s)) then 1 else 0) + (if asrt_assign k d s then 1 else 0)\n"
           "  | _, _ => -1 end.\n" + "\n".join(evals) + "\n")
    d = os.path.join(core.BUILD, "work", PID)
    os.makedirs(d, exist_ok=True)
    path = os.path.join(d, "cases_C20.v")
    open(path, "w").write(src)
    rc, out, err = core.sh(["coqc", "-Q", core.COQ, "BM", path], cwd=d, timeout=1200)
    if rc != 0:
        return len(evals), [("<coqc>", "compiles", (out + err)[-600:])]
    got = [int(m.group(1).replace("(", "").replace(")", "")) for m in re.finditer(r"=\s*(\(?-?\d+\)?)\s*\n?\s*:\s*Z", out)]
    bad = []
    if len(got) != len(expect):
        bad.append(("<coqc>", "%d results" % len(expect), "%d results" % len(got)))
    for (cid, e), g in zip(expect, got):
        if e != g:
            bad.append((cid, e, g))
    return len(evals), bad

# --------------------------------------------------------------------------------------------
def structural_ndebug_check():
    """No model file that computes results depends on Model/Asserts.v (C20_ndebug_invariant, structural half)."""
    offenders = []
    for f in ("Model/Layout.v", "Model/View.v", "Model/Spec.v", "Model/Iter.v", "Model/Assign.v", "Model/Compare.v", "Model/Rebase.v",
              "Model/Life.v"):
        if os.path.exists(os.path.join(core.COQ, f)):
            deps = core.coq_deps(f)
            if "Model/Asserts.v" in deps or "Model/AssertsLife.v" in deps:
                offenders.append(f)
    return offenders


def report(res, items, known_items, prog_text, fam, max_report=4):
    """violations -> shrunk replays; candidates -> known findings or violations."""
    blocks = dict(core.split_cases(prog_text))
    n = 0
    reported = 0
    for it in known_items:
        cid, found_by, want, got, rec = it
        kf = match_known_rec(rec)
        if kf:
            res.known_finding(kf)
        else:
            items = items + [(cid, found_by, want, got)]
    for cid, found_by, want, got in items:
        n += 1
        if reported >= max_report:
            continue
        reported += 1
        block = blocks.get(cid, "")
        small = block
        if fam is not None and block and not block.startswith("case K"):
            try:
                small = fam.shrink(block, budget=40)
                if not fam.case_fails(small):
                    small = block
            except Exception:
                small = block
        path = core.write_replay(PID, small, {
            "property": PID, "tier": res.tier, "seed": res.seed, "found-by": found_by, "expected": want, "implementation-said": got,
            "note": "replay: ./check C20 --replay <this file>; the model of the assertions is coq/Model/Asserts.v, the theorems "
                    "coq/Properties/Properties_C20.v"})
        res.violation(path, "%s: expected %r got %r" % (found_by, want, got))
    return n


def run(tier, seed, replay=None):
    res = core.Result(PID, tier, seed, level="proof")
    coq = core.coq_check_property(PID)
    core.proof_coverage(res, coq)
    problems = []
    offenders = structural_ndebug_check()
    if offenders:
        problems.append(("proof:model-files-depend-on-Asserts.v", ", ".join(offenders)))
    ok_d, log_d = core.ensure_driver()
    if not ok_d:
        problems.append(("build:model-extraction-or-driver", log_d))
    ok_c, log_c = core.ensure_driver_for("c20", "ExtractC20.v", ["zu.ml", "views.ml", "assign.ml", "c20_gen.ml"], DRIVER_C20,
                                         model_base="model")
    if not ok_c:
        problems.append(("build:model-extraction-or-driver-c20", log_c))
    from . import c07
    has_ge = c07.ge_probe()
    if has_ge:
        os.environ["C07_HAS_GE"] = "1"
    fams = make_families(has_ge)
    deaths = DeathFamily()
    # ---- all builds in parallel (cached by content hash of include tree + sources + flags) ----
    life = LifeFamily()
    ok_l, log_l = life.lc.ensure_driver()
    if not ok_l:
        problems.append(("build:model-extraction-or-driver-life", log_l))
    jobs = []
    for fam in fams:
        for cfg, flags in CONFIGS:
            jobs.append((fam, cfg, flags))
    jobs.append((deaths, "dbg", ()))
    jobs.append((deaths, "ndebug", ("-DNDEBUG",)))
    jobs.append((deaths, "adis", ("-DBOOST_MULTI_ASSERT_DISABLE",)))
    if tier == "thorough":
        jobs.append((deaths, "asan", ("-fsanitize=address", "-fno-omit-frame-pointer")))
    life.lc.assign_fill_compiles()       # one probe compilation, cached, before the parallel builds
    jobs += life.jobs()
    # one compile per distinct (source, config, flags); families sharing a source share the binary
    uniq = {}
    for fam, cfg, flags in jobs:
        key = (fam.harness, str(cfg), tuple(getattr(fam, "extra_flags", ())))
        uniq.setdefault(key, (fam, cfg, flags))
    results = {}
    with cf.ThreadPoolExecutor(max_workers=min(core.NCPU, len(uniq))) as ex:
        for key, (ok, log) in zip(uniq.keys(), ex.map(lambda j: j[0].build_cfg(j[1], j[2]), uniq.values())):
            results[key] = (ok, log)
    for fam, cfg, flags in jobs:
        key = (fam.harness, str(cfg), tuple(getattr(fam, "extra_flags", ())))
        ok, log = results[key]
        if ok and cfg not in fam.exes:
            fam.build_cfg(cfg, flags)          # cached: just records the path
        if not ok:
            problems.append(("build:harness-%s[%s]-does-not-compile-against-%s" % (fam.harness, cfg, core.INCLUDE), log))
    if problems:
        for step, log in problems:
            path = core.write_replay(PID, "", {"property": PID, "found-by": step, "log": str(log)[-3000:]})
            res.violation(path, step, no_input=True)
        return res.finish()

    if replay:
        text = "".join(l for l in open(replay) if not l.startswith("#"))
        if re.search(r"^rank0 ", text, re.M):
            want = set(int(m.group(1)) for m in re.finditer(r"^rank0 (\d+)", text, re.M))
            _r, bad0, known0 = rank0_probe()
            bad = list(bad0)
            for cid, found_by, wnt, got, rec in known0:
                if int(cid.split("_")[1]) not in want:
                    continue
                kf = match_known_rec(rec)
                if kf:
                    res.known_finding(kf)
                else:
                    bad.append((cid, found_by, wnt, got))
            print("replay verdict:", bad if bad else "no violation (known findings, if any, are listed above)")
            for cid, found_by, wnt, got in bad[:4]:
                res.violation(os.path.relpath(os.path.abspath(replay), core.VERIF), "%s: expected %r got %r" % (found_by, wnt, got))
            return res.finish()
        if re.search(r"^(oob|asg|probe|xop) ", text, re.M):
            probes = "".join(b for _c, b in core.split_cases(text) if re.search(r"^probe ", b, re.M))
            others = "".join(b for _c, b in core.split_cases(text) if not re.search(r"^probe ", b, re.M))
            bad, known = [], []
            if probes:
                out, _cr = deaths.run_cfg("dbg", probes, shards=1)
                bad, known = judge_probes(out, require_all=False)
            if others:
                mtxt = deaths.model_run(others)
                itxt, crashes = deaths.run_cfg("dbg", others, shards=1)
                b2, k2 = judge_deaths(others, mtxt, itxt)
                bad, known = bad + b2, known + k2
                for cid, rc, err in crashes:
                    bad.append((cid, "death:harness-crash", "", "signal/exit %s" % rc))
            # the valid statements / valid probes of this text on the two unchecked builds
            vprog = valid_only(others, deaths.model_run(others)) if others else ""
            impl_v = deaths.run_cfg("dbg", vprog)[0] if vprog else ""
            cbad, _n = judge_configs(deaths, vprog, impl_v, probe_names=set(re.findall(r"^probe (\S+)", probes, re.M)))
            bad += cbad
            if others:
                ibad, iknown, _n = judge_index_configs(deaths, valid_index_only(others, deaths.model_run(others)))
                bad, known = bad + ibad, known + iknown
            n = 0
            for cid, found_by, want, got, rec in known:
                kf = match_known_rec(rec)
                if kf:
                    res.known_finding(kf)
                else:
                    bad.append((cid, found_by, want, got))
            print("replay verdict:", bad if bad else "no violation (known findings, if any, are listed above)")
            for cid, found_by, want, got in bad[:4]:
                res.violation(os.path.relpath(os.path.abspath(replay), core.VERIF), "%s: expected %r got %r" % (found_by, want, got))
        else:
            r = life.case_fails(text) if re.search(r"^cfg d=", text, re.M) else family_of_text(text, fams).case_fails(text)
            print("replay verdict:", r if r else ("outside the documented domain" if r is None else "agrees (no violation)"))
            if r:
                res.violation(os.path.relpath(os.path.abspath(replay), core.VERIF), str(r))
        return res.finish()

    quick = tier == "quick"
    RUN_TIMEOUT["s"] = 40 if quick else 900
    counts = {"views": 1500 if quick else 30000, "views-rebased": 800 if quick else 15000, "iters": 700 if quick else 15000,
              "iters-rebased": 400 if quick else 8000, "assign": 700 if quick else 15000, "assign-rebased": 400 if quick else 8000,
              "compare": 800 if quick else 15000}
    extras = {"views": ["--maxops", "6" if quick else "10"], "views-rebased": ["--maxops", "6" if quick else "10"],
              "iters": ["--maxops", "4", "--maxsteps", "10" if quick else "20"], "iters-rebased": ["--maxops", "3", "--maxsteps", "10"],
              "assign": ["--maxops", "4", "--maxrank", "3" if quick else "4"],
              "assign-rebased": ["--maxops", "4", "--maxrank", "3" if quick else "4"], "compare": []}
    n_fail = 0
    dist, evals, lines_cmp, all_progs, sample_blocks = {}, 0, 0, [], []
    # ---- corpus first (every family recognises its own cases) ----
    corpus = {}
    for f in sorted(glob.glob(os.path.join(core.VERIF, "corpus", PID, "*.prog"))):
        text = "".join(l for l in open(f) if not l.startswith("#"))
        for cid, block in core.split_cases(text):
            if re.search(r"^rank0 ", block, re.M):
                continue                       # the rank-0 compile probe always runs all its cases
            if re.search(r"^(oob|asg|probe|xop) ", block, re.M):
                corpus.setdefault("deaths", []).append(block)
            else:
                corpus.setdefault(family_of_text(block, fams).name, []).append(block)
    # ---- (a) valid programs in three configurations ----
    skipped = []
    for k, fam in enumerate(fams):
        if n_fail >= 8:
            skipped.append(fam.name)       # enough failing cases already reported; do not spend minutes on hangs
            continue
        prog_g, obs_g, d = fam.generate(seed + 11 * k, counts[fam.name], extra=extras[fam.name] + fam.gen_extra,
                                        prefix=fam.name.replace("-", "")[:2] + str(k))
        prog = "".join(corpus.get(fam.name, [])) + prog_g
        dist[fam.name] = d
        all_progs.append(prog)
        blocks = core.split_cases(prog)
        evals += 3 * len(blocks)
        outs, failing = {}, {}
        with cf.ThreadPoolExecutor(max_workers=3) as ex:
            futs = {cfg: ex.submit(fam.run_cfg, cfg, prog, max(4, core.NCPU // 3)) for cfg, _f in CONFIGS}
            for cfg, fu in futs.items():
                out, crashes = fu.result()
                outs[cfg] = core.by_case(out)
                for cid, rc, err in crashes:
                    tail = (err.strip().splitlines() or [""])[-1]
                    failing.setdefault(cid, ("abort-on-valid-program[%s]" % cfg, "no abort (valid program: model domain holds)",
                                             "signal/exit %s: %s" % (rc, tail[:300])))
        for cid, _b in blocks:
            a = outs["dbg"].get(cid)
            lines_cmp += 3 * len(a or [])
            for cfg, _f in CONFIGS[1:]:
                b = outs[cfg].get(cid)
                if a != b and cid not in failing:
                    x, y = first_diff("\n".join(a or ["<no output>"]), "\n".join(b or ["<no output>"]))
                    failing[cid] = ("results-differ[%s vs %s]" % (CFG_TEXT["dbg"], CFG_TEXT[cfg]), x, y)
        # a valid program the model accepts must also be one the model's assertion predicates accept: by the theorem
        # this is always so; the implementation side is the abort check above
        items = [(cid,) + v for cid, v in sorted(failing.items(), key=lambda kv: len(dict(blocks).get(kv[0], "")))]
        n_fail += report(res, items, [], prog, fam)
        sample_blocks += [b for _c, b in blocks[:200] if b.count("\n") >= 6][:1]
    # ---- (a') lifecycle histories in three configurations ----
    if n_fail < 8:
        prog_l = life.generate(seed + 977, quick)
        dist["life"] = {"operations": life.lc.op_histogram(prog_l), "shapes": life.lc.shape_stats(prog_l),
                        "configurations": [life.lc.cfg_text(c) for c in life.lcfgs]}
        all_progs.append(prog_l)
        blocks = core.split_cases(prog_l)
        evals += 3 * len(blocks)
        outs, failing = {}, {}
        with cf.ThreadPoolExecutor(max_workers=3) as ex:
            futs = {cfg: ex.submit(life.run_cfg, cfg, prog_l, max(4, core.NCPU // 3)) for cfg, _f in CONFIGS}
            for cfg, fu in futs.items():
                out, crashes = fu.result()
                outs[cfg] = core.by_case(out)
                for cid, rc, err in crashes:
                    tail = (err.strip().splitlines() or [""])[-1]
                    failing.setdefault(cid, ("abort-on-valid-history[%s]" % cfg, "no abort (history in the documented domain of Model/Life.v)",
                                             "signal/exit %s: %s" % (rc, tail[:300])))
        for cid, _b in blocks:
            a = outs["dbg"].get(cid)
            lines_cmp += 3 * len(a or [])
            for cfg, _f in CONFIGS[1:]:
                b = outs[cfg].get(cid)
                if a != b and cid not in failing:
                    x, y = first_diff("\n".join(a or ["<no output>"]), "\n".join(b or ["<no output>"]))
                    failing[cid] = ("results-differ[%s vs %s]" % (CFG_TEXT["dbg"], CFG_TEXT[cfg]), x, y)
        items = [(cid,) + v for cid, v in sorted(failing.items(), key=lambda kv: len(dict(blocks).get(kv[0], "")))]
        n_fail += report(res, items, [], prog_l, life)
        sample_blocks += [b for _c, b in blocks[:100] if b.count("\nop ") >= 6][:1]
    else:
        skipped.append("life")
    # ---- (b) death tests ----
    n_death = 1200 if quick else 8000
    death_cfgs = ["dbg"] + (["asan"] if tier == "thorough" else [])
    prog_d, obs_d, dd = deaths.generate(seed + 101, n_death, extra=["--maxops", "4" if quick else "6", "--asg-pct", "40", "--matrix"], prefix="d")
    prog_r, obs_r, dr = deaths.generate(seed + 102, 110 if quick else 1800, extra=["--maxops", "4", "--asg-pct", "0", "--rebased"],
                                        prefix="r")
    prog_c = "".join(corpus.get("deaths", []))
    prog_cn = "".join(b for b in corpus.get("deaths", []) if not re.search(r"^probe ", b, re.M))
    obs_c = deaths.model_run(prog_cn) if prog_cn else ""
    prog_death, obs_death = prog_cn + prog_d + prog_r, obs_c + obs_d + obs_r
    dist["deaths"] = dd
    dist["deaths-rebased"] = dr
    all_progs.append(prog_death)
    n_D = n_A = 0
    er_table, er_missing = {}, []
    ov_agree, ov_diff = 0, []
    for cfg in death_cfgs:
        deaths.which = cfg
        impl, crashes = deaths.run_cfg(cfg, prog_death + probe_prog())
        bad, known = judge_deaths(prog_death, obs_death, impl)
        for cid, rc, err in crashes:
            bad.append((cid, "death:harness-crash[%s]" % cfg, "", "signal/exit %s: %s" % (rc, (err.strip().splitlines() or [""])[-1][:300])))
        pb, pk = judge_probes(impl)
        n_fail += report(res, bad + pb, known + pk, prog_death + probe_prog(), deaths)
        if cfg == "dbg":
            er_table, er_missing = entry_receiver_matrix(prog_death, impl)
            ov_agree, ov_diff = overload_table_agreement(obs_death, impl)
            if er_missing and n_fail == 0:
                # the generator's own promise: every entry point on every receiver kind, stopped and silent
                path = core.write_replay(PID, "", {"property": PID, "found-by": "generator:entry-x-receiver-cells-not-exercised",
                                                   "cells": " ".join(er_missing)})
                res.violation(path, "index tests did not reach %d entry x receiver cells: %s" % (len(er_missing), " ".join(er_missing[:12])),
                              no_input=True)
                n_fail += 1
        n_D += len(re.findall(r"^D ", impl, re.M))
        n_A += len(re.findall(r"^A ", impl, re.M))
        evals += len(core.split_cases(prog_death)) + len(PROBES)
        lines_cmp += obs_death.count("\n")
    # ---- (c') rank-0 arrays compile and agree in the three configurations ----
    r0_results, r0_bad, r0_known = rank0_probe()
    r0_prog = "".join("case R0_%d\nrank0 %d\nend\n" % (n, n) for n in sorted(R0_CASES))
    n_fail += report(res, r0_bad, r0_known, r0_prog, None)
    evals += len(r0_results)
    # ---- (b') the valid assignment statements and the valid probes in the two unchecked configurations ----
    vprog = valid_only(prog_death, obs_death)
    impl_v, _cr = deaths.run_cfg("dbg", vprog)
    cbad, n_cfg = judge_configs(deaths, vprog, impl_v)
    deaths.which = "dbg"
    n_fail += report(res, cbad, [], vprog + "".join("case KV%d\nprobe %s\nend\n" % (k, p[0]) for k, p in enumerate(PROBES) if p[1] == "ok"), None)
    evals += 2 * len(core.split_cases(vprog))
    lines_cmp += 2 * n_cfg
    # ---- (b'') the valid element accesses (every entry point x receiver kind) in the two unchecked configurations ----
    iprog = valid_index_only(prog_death, obs_death)
    ibad, iknown, n_icfg = judge_index_configs(deaths, iprog)
    n_fail += report(res, ibad, iknown, iprog, None)
    evals += 2 * len(core.split_cases(iprog))
    lines_cmp += n_icfg
    n_vm = 0
    if tier == "thorough":
        n_vm, vm_bad = vm_crosscheck(prog_d, obs_d)
        for cid, e, g in vm_bad[:3]:
            n_fail += 1
            path = core.write_replay(PID, dict(core.split_cases(prog_d)).get(cid, ""), {
                "property": PID, "found-by": "trust:extracted-model-differs-from-vm_compute", "extracted-said": e, "vm_compute-said": g})
            res.violation(path, "extracted model %r, vm_compute %r" % (e, g), no_input=True)
    # ---- thorough: which assertion site is reached by which family / probe (gcov build of the unchanged harness sources) ----
    site_cov = {}
    if tier == "thorough":
        from . import c20_sites
        try:
            sites, reached, fired, sprob = c20_sites.measure(seed, log=lambda *_a: None)
            site_cov = {
                "assertion_sites": len(sites),
                "assertion_sites_reached_on_valid_calls": sum(1 for x in sites if reached[x["key"]]),
                "assertion_sites_fired_on_violating_calls": sum(1 for x in sites if fired[x["key"]]),
                "assertion_sites_never_evaluated": ["%s:%d %s" % (x["file"], x["line"], x["expr"][:60]) for x in sites
                                                    if not reached[x["key"]] and not fired[x["key"]]],
                "assertion_site_measurement_problems": sprob,
            }
        except Exception as e:                       # a measurement, never a verdict
            site_cov = {"assertion_site_measurement_problems": ["%s: %s" % (type(e).__name__, e)]}
    sample_blocks += [b for _c, b in core.split_cases(prog_d)[:50] if "oob" in b][:1]
    sample_blocks += [b for _c, b in core.split_cases(prog_d) if "asg" in b][:1]
    # ---- proof verdict ----
    if not coq["ok"] and n_fail == 0:
        path = core.write_replay(PID, "", {"property": PID, "found-by": "proof:Properties_%s.v" % PID, "log": coq["log"][-3000:],
                                           "obligations": coq["obligations"], "discharged": coq["discharged"]})
        res.violation(path, "proof obligations no longer check", no_input=True)
    allprog = "".join(all_progs)
    res.coverage.update({
        "evaluations": evals,
        "distinct_nontrivial": progcheck.distinct_nontrivial(allprog, min_lines=3, prefixes=("op ", "root ", "w ", "it ", "oob ", "droot", "dop ",
                                                                                            "sroot", "sop ", "do ", "asg ", "xroot", "xop ")),
        "rule": "(a) valid programs of the C01/C19 (views, zero-based and with index bases -3..3), C02 (iterator walks), C05 (assignment) and "
                "C07 (comparison) generators, every argument drawn inside the documented domain by the extracted model; each program "
                "runs on three builds of the UNCHANGED harness source (default, -DNDEBUG, -DBOOST_MULTI_ASSERT_DISABLE); "
                "(b) death tests: for the final view of a view program (rank 1..6), for up to three dimensions: index first-1, last, "
                "last+1..3, first-2..4, plus two wrong indices at once and one all-valid control tuple, through brackets (55%), call "
                "syntax (27%), tuple apply (18%); 55% of these tuples (views of rank <= 4) are sent through a drawn ENTRY POINT on a drawn "
                "RECEIVER KIND instead of a named const_subarray (harness/common/c20_recv.hpp; ENTRY: r[i0][i1].. 6, r(i0,..) 3, "
                "r.apply(tuple) 2, r[tuple] 2 (rank 1); when the first index is in range also r.front() 1, r.back() 1, r.begin()[k] 2, "
                "*(r.begin()+k) 1, r.end()[-k] 1, each followed by brackets; when the whole tuple is in range also r.home()[..] 2, "
                "r.elements()[n] 2, r.elements_at(n) 2; RECEIVER: const_subarray / subarray / move_subarray over the view's own elements "
                "as lvalue, const lvalue, std::move, prvalue temporary (40%; always when the view has an empty dimension), or an OWNING "
                "COPY of the view -- array, static_array, array_ref over the copy -- as lvalue, const lvalue, std::move(A), prvalue "
                "temporary, result of unary + (60%); 15% of the out-of-range ones add r.elements_at(num_elements() + 0..3)); plus the "
                "ENTRY x RECEIVER MATRIX on every run: for rank 1..4 x {zero-based, index bases -3..3} one root of extents 1..4, and for "
                "each of the 21 receiver kinds one case that sends an in-range tuple through all 13 entry points and an out-of-range "
                "tuple (below first / at last / beyond / far below, at a drawn dimension; dimension >= 1 for the entries whose first "
                "level is unchecked) through every entry point that must stop it, and elements_at(num_elements() + k); the run fails "
                "if a cell of the matrix was not reached; every in-range access must return the value the model computes (the root "
                "address of the element), on the assertion-enabled build and again on the -DNDEBUG and -DBOOST_MULTI_ASSERT_DISABLE "
                "builds; after them up to ~8 VIOLATING VIEW-FORMING CALLS on the same view for which the "
                "model's asrt_op is false (taked/dropped beyond size(), sliced/blocked/sliced-with-stride bounds below first / beyond "
                "last / at last, partitioned by 0 or a non-divisor, chunked by a non-divisor, halved of an odd size, call-syntax ranges "
                "and indices out of range in the first and second argument); 40% of the death programs are assignments, each pair of "
                "operands going through several overload-selecting statements, every statement in its own forked child: (i) 40% "
                "two views over separate buffers (3 of 13 statements): equal extents 30%, same leading extent and element count with "
                "permuted inner extents 30% (rank >= 3), one extent off by one 40%; (ii) 40% ALIASING operands = two views of ONE "
                "array built from a common view program (all 13 statements: a = b, = const view, rvalue = lvalue, = element_moved(), "
                "swap free/member, = std::move, rvalue = rvalue, elements() = elements() x3, elements().swap x2): same first element "
                "and strides with different lengths 30% (equal lengths control in 3 of 10), shifted windows of equal lengths with or "
                "without reindexing to 0 20%, block and sub-block either way 12%, row vs column 14%, the very same elements 8%, "
                "strided(p) vs [dropped(1).]strided(q) 10%, reversed 6%; (iii) 20% array_ref assignment over whole roots through "
                "all 7 array_ref statements (& / && x same type, pointer-to-const source, rvalue source, owning array source), "
                "extents equal / permuted / off by one / shifted index base, half of them two array_refs over ONE buffer; the "
                "extensions and element counts the LIBRARY reports for the two operands decide (model-independent monitor) and the "
                "model's asrt_assign must agree; the valid statements are run again on the -DNDEBUG and -DBOOST_MULTI_ASSERT_DISABLE "
                "builds of the death harness and must leave the same buffer contents; (c) " + str(len(PROBES)) + " fixed probes (the valid ones "
                "in all three configurations): known tensions, regression probes, and one valid + one violating "
                "call per assertion site no generated family reaches (the violating ones must be stopped by the assertion that states "
                "the violated precondition: the asserted expression is compared); (c') rank-0 arrays: 6 valid uses x 3 configurations "
                "must compile and exit 0. non-trivial = at least 3 program lines; distinct by hash",
        "samples": sample_blocks[:4],
        "generator_distribution": dist,
        "observation_lines_compared": lines_cmp,
        "death_tests_index": n_D,
        "index_entry_x_receiver": {e: {r: "%d stopped / %d silent%s" % (c[0], c[1], (" / %d other" % c[2]) if c[2] else "")
                                       for r, c in sorted(rs.items())} for e, rs in sorted(er_table.items())},
        "index_entry_x_receiver_cells_not_reached": er_missing,
        "overload_table_aborts_agreeing_with_the_named_member_function": ov_agree,
        "overload_table_disagreements (measurement, not a verdict)": ov_diff,
        "valid_index_accesses_compared_in_unchecked_builds": n_icfg,
        "death_tests_assignment": n_A,
        "valid_assignment_statements_compared_in_unchecked_builds": n_cfg,
        "vm_compute_cross_checks": n_vm,
        "probes": [p[0] for p in PROBES],
        "rank0_compile_probe": r0_results,
        **site_cov,
        "configurations": [CFG_TEXT[c] for c, _f in CONFIGS] + (["assertions + -fsanitize=address (death tests)"] if tier == "thorough" else []),
        "corpus_cases": sum(len(v) for v in corpus.values()),
        "disagreeing_cases": n_fail,
        "families_skipped_after_8_failing_cases": skipped,
        "not_exercised": ["taked() for D > 1 through the view families (does not compile at the pinned commit on mutable lvalues)",
                          "broadcasted() views (stride-0 escape: theorem only; one probe of iterator difference on a stride-0 dimension)",
                          "assertion sites no input can reach (listed with reasons in notes/REPORT_C20.txt FOLLOW-UP 3): "
                          "const_subarray<T,1>::assign(initializer_list) / assign(first,last) and the assert(0) overload of "
                          "const_subarray<T,1>::operator= (cannot be instantiated), array<T,0>(view, alloc) and the explicit "
                          "initializer-list constructor of array<T,1> (do not compile), the _MSC_VER-only constructors, the "
                          "execution-policy copy constructor, detail/operators.hpp:114 (incrementable's post-increment is never "
                          "selected by overload resolution), assert(stride() != 0) cannot be violated through the public interface",
                          "violating calls under -DBOOST_MULTI_ASSERT_DISABLE (the plain asserts that stay live there are modelled, "
                          "asrt_plain, but the death tests run on the default configuration only)",
                          "1-D stride-0 views (array_ref.hpp iterator assertions stride() != 0 of the D = 1 iterator)",
                          "BLAS/FFTW/MPI adaptor assertions",
                          "out-of-range FIRST indices handed to front() / back() of an empty view, to an iterator (begin()[k], *(begin()+k), "
                          "end()[-k] with k outside [0, size())), to a cursor (home()[k]..) and to elements()[n] of a VIEW: these entry points "
                          "hold no extension and evaluate no assertion in the library (array_ref.hpp:546, :561, :703-717, :914-916, :1173-1174; "
                          "README:1914-1919), the property's wording (indexing outside a VIEW's extension) does not cover them; they are run with "
                          "in-range first indices only, the levels after them are death-tested (C20_unchecked_first_level)",
                          "operator[](tuple) for rank > 1 (array_ref.hpp:1164 does not instantiate with std::tuple / std::array arguments)",
                          "receiver kinds at ranks 5 and 6 (the entry x receiver code is instantiated for ranks 1..4; higher ranks go through "
                          "the named const_subarray paths as before); owning receivers of views with an empty dimension (an owning array "
                          "collapses the other extents)",
                          "elements_at with a negative argument (size_type is signed: it passes idx < num_elements() and is stopped by the inner "
                          "operator[] assertion; two probes x_elements_at_negative*)"],
    })
    res.assumptions = ["no 64-bit overflow in index arithmetic", "g++ 12 / glibc assert() message format (file:line: function: Assertion `expr' failed.)",
                       "base pointers of harness roots are non-null (empty roots are array_ref over a 1-element buffer); the null-base "
                       "assertion array_ref.hpp:1263 is covered by a probe and C20_null_base_slice_refuted"]
    return res.finish()

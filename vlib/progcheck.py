"""Generic machinery for the program-shaped correspondence checks (view programs followed by
property-specific lines): generate with the driver, run model and library, diff, monitors, shrink,
classify against known findings, report."""
import glob
import hashlib
import json
import os
import re
import tempfile

from . import core


class Family:
    """One harness family.  gen_cmd/run_cmd: driver sub-commands; monitor(impl_text, obs_text) ->
    [(case id, what, line)]; body_prefixes: line keywords that the shrinker may drop one by one."""

    def __init__(self, pid, gen_cmd, run_cmd, harness, sources, monitor=None, flags=(), libs=(),
                 body_prefixes=("op ", "probe ", "w ", "it "), record=None, driver="driver", env=None):
        self.pid, self.gen_cmd, self.run_cmd = pid, gen_cmd, run_cmd
        self.harness, self.sources, self.flags, self.libs = harness, list(sources), tuple(flags), tuple(libs)
        self.monitor = monitor or (lambda impl, obs: [])
        self.body_prefixes = tuple(body_prefixes)
        self.record = record or (lambda block, found_by, ml, il: {})
        self.driver = driver
        self.env = env
        self.exe = None

    # ---- model side ----
    def workdir(self):
        d = os.path.join(core.BUILD, "work", self.pid)
        os.makedirs(d, exist_ok=True)
        return d

    def generate(self, seed, count, extra=(), prefix="g"):
        d = self.workdir()
        prog, obs = os.path.join(d, "prog_%s.txt" % prefix), os.path.join(d, "obs_%s.txt" % prefix)
        rc, out, err = core.sh([os.path.join(core.BIN, self.driver), self.gen_cmd, "--seed", str(seed), "--count", str(count),
                                "--prog", prog, "--obs", obs, "--prefix", prefix] + list(extra), timeout=900)
        if rc != 0:
            raise RuntimeError("driver %s failed: %s" % (self.gen_cmd, err[-2000:]))
        try:
            dist = json.loads(out.strip().splitlines()[-1])
        except Exception:
            dist = {}
        return open(prog).read(), open(obs).read(), dist

    def model_run(self, prog_text):
        d = self.workdir()
        fd, p = tempfile.mkstemp(dir=d, suffix=".prog")
        os.write(fd, prog_text.encode())
        os.close(fd)
        o = p + ".obs"
        rc, out, err = core.sh([os.path.join(core.BIN, self.driver), self.run_cmd, "--prog", p, "--obs", o], timeout=300)
        txt = open(o).read() if os.path.exists(o) else ""
        for f in (p, o):
            try:
                os.remove(f)
            except OSError:
                pass
        if rc != 0:
            raise RuntimeError("driver %s failed: %s" % (self.run_cmd, err[-2000:]))
        return txt

    # ---- implementation side ----
    def build(self):
        ok, exe, log = core.build_harness(self.harness, self.sources, flags=self.flags, libs=self.libs)
        self.exe = exe if ok else None
        return ok, log

    def impl_run(self, prog_text, shards=None):
        return core.run_harness(self.exe, prog_text, env=self.env, shards=shards, timeout=600)

    # ---- one case ----
    def case_fails(self, block):
        mtxt = self.model_run(block)
        if re.search(r"^X ", mtxt, re.M):
            return None            # outside the documented domain: not a candidate
        itxt, crashes = self.impl_run(block, shards=1)
        if crashes:
            tail = (crashes[0][2].strip().splitlines() or [""])[-1]
            return ("crash", "", "signal/exit %s: %s" % (crashes[0][1], tail))
        d = core.diff_cases(mtxt, itxt)
        if d:
            return ("correspondence", d[0][1], d[0][2])
        mon = self.monitor(itxt, mtxt)
        if mon:
            return ("monitor:" + mon[0][1], "", mon[0][2])
        return False

    def shrink(self, block, budget=80):
        lines = block.strip().splitlines()
        head = [l for l in lines[:2]]
        body = lines[2:-1]
        tries = 0
        changed = True
        while changed and tries < budget:
            changed = False
            for k in range(len(body) - 1, -1, -1):
                if not body[k].startswith(self.body_prefixes):
                    continue
                cand = body[:k] + body[k + 1:]
                tries += 1
                if self.case_fails("\n".join(head + cand + ["end"]) + "\n"):
                    body = cand
                    changed = True
                if tries >= budget:
                    break
        return "\n".join(head + body + ["end"]) + "\n"

    # ---- a whole run ----
    def corpus(self):
        progs = []
        for n, f in enumerate(sorted(glob.glob(os.path.join(core.VERIF, "corpus", self.pid, "*.prog")))):
            # corpus case ids get a reserved prefix so that they can never collide with generated ids
            progs.append("".join(re.sub(r"^case (?!K\d+_)", "case K%d_" % n, l) for l in open(f) if not l.startswith("#")))
        return "".join(progs)

    def classify(self, res, prog_text, obs_text, impl_text, crashes, max_report=4):
        """diff + monitors + crashes -> known findings / shrunk replays.  Returns number of failing cases."""
        blocks = dict(core.split_cases(prog_text))
        failing = {}
        for cid, ml, il in core.diff_cases(obs_text, impl_text):
            failing.setdefault(cid, ("correspondence", ml, il))
        for cid, what, line in self.monitor(impl_text, obs_text):
            failing.setdefault(cid, ("monitor:" + what, "", line))
        for cid, rc, err in crashes:
            tail = (err.strip().splitlines() or [""])[-1]
            failing[cid] = ("crash", "", "exit/signal %s: %s" % (rc, tail))
        n_reported = 0
        for cid in sorted(failing, key=lambda c: len(blocks.get(c, ""))):
            found_by, ml, il = failing[cid]
            block = blocks.get(cid)
            if block is None:
                continue
            record = {"harness": self.harness, "found_by": found_by.split(":")[0]}
            record.update(self.record(block, found_by, ml, il))
            kf = core.match_known(self.pid, record)
            if kf:
                res.known_finding(kf)
                continue
            if n_reported >= max_report:
                continue
            n_reported += 1
            small = self.shrink(block)
            r = self.case_fails(small)
            if not r:
                small, r = block, (found_by, ml, il)
            path = core.write_replay(self.pid, small, {
                "property": self.pid, "tier": res.tier, "seed": res.seed, "found-by": r[0],
                "model-said": r[1], "implementation-said": r[2],
                "note": "the model is proved to satisfy the property (coq/Properties/Properties_%s.v); "
                        "replay: ./check %s --replay <this file>" % (self.pid, self.pid)})
            res.violation(path, "%s: model %r impl %r" % (r[0], r[1], r[2]))
        return len(failing)

    def prepare(self, res, driver_ok=None):
        """Coq build + audit, driver, harness.  Returns coq dict, or None after reporting no-failing-input-found."""
        coq = core.coq_check_property(self.pid)
        core.proof_coverage(res, coq)
        ok_d, log_d = driver_ok if driver_ok is not None else core.ensure_driver()
        ok_h, log_h = self.build()
        problems = []
        if not ok_d:
            problems.append(("build:model-extraction-or-driver", log_d))
        if not ok_h:
            problems.append(("build:harness-%s-does-not-compile-against-%s" % (self.harness, core.INCLUDE), log_h))
        for step, log in problems:
            path = core.write_replay(self.pid, "", {"property": self.pid, "found-by": step, "log": log[-3000:]})
            res.violation(path, step, no_input=True)
        if not problems and res.tier == "thorough" and coq["ok"]:
            core.coqchk_property(res, self.pid)
        return None if problems else coq

    def proof_verdict(self, res, coq, n_failing):
        if not coq["ok"] and n_failing == 0:
            path = core.write_replay(self.pid, "", {"property": self.pid, "found-by": "proof:Properties_%s.v" % self.pid,
                                                    "log": coq["log"][-3000:], "obligations": coq["obligations"],
                                                    "discharged": coq["discharged"]})
            res.violation(path, "proof obligations no longer check", no_input=True)

    def replay(self, res, path):
        block = "".join(l for l in open(path) if not l.startswith("#"))
        r = self.case_fails(block)
        print("replay verdict:", r if r else ("outside the documented domain" if r is None else "agrees (no violation)"))
        if r:
            res.violation(os.path.relpath(os.path.abspath(path), core.VERIF), str(r))


def distinct_nontrivial(prog_text, min_lines=3, prefixes=("op ", "root ", "w ", "it ")):
    seen = set()
    for _cid, block in core.split_cases(prog_text):
        ls = [ln for ln in block.splitlines() if ln.startswith(prefixes)]
        if len(ls) >= min_lines:
            seen.add(hashlib.sha256("\n".join(ls).encode()).hexdigest())
    return len(seen)


def samples(prog_text, n=2, min_lines=4, scan=400):
    out = []
    for _c, b in core.split_cases(prog_text)[:scan]:
        if len(b.splitlines()) >= min_lines + 2:
            out.append(b)
        if len(out) >= n:
            break
    return out or [b for _c, b in core.split_cases(prog_text)[:1]]

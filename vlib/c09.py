"""C09 -- failures (allocation or element exceptions) leave no leak and valid arrays.
Proof: coq/Properties/Properties_C09.v (C09_fault_safety_partial over every history and every injection point outside
the named sites; C09_*_refuted witnesses for the sites).  Tie: every generated history is re-run once per injection
point (the fallible events of the fault-free run are counted first); after the exception the ledger and registry
totals, the validity of every surviving array and the rest of the history are compared with the model; monitors:
balanced at the end, no illegal transition, arrays valid."""
from . import core, lifecommon as lc, rank0

PID = "C09"


def plan(tier):
    q = tier == "quick"
    n = 420 if q else 4000
    mo = 12 if q else 24
    f = 40 if q else 400
    return [
        {"kind": "c09", "cfg": lc.cfg(d=2, t=1), "count": n, "maxops": mo, "faults": f},
        {"kind": "c09", "cfg": lc.cfg(d=1, t=1), "count": n // 2, "maxops": mo, "faults": f},
        {"kind": "c09", "cfg": lc.cfg(d=3, t=1), "count": n // 3, "maxops": mo, "faults": f},
        {"kind": "c09", "cfg": lc.cfg(d=2, t=0), "count": n // 2, "maxops": mo, "faults": f},
        {"kind": "c09", "cfg": lc.cfg(d=2, t=1, pocca=1, pocma=1, pocs=1, socc=1), "count": n // 2, "maxops": mo, "faults": f},
        {"kind": "c09", "cfg": lc.cfg(d=2, t=1, pmr=1), "count": n // 3, "maxops": mo, "faults": f},
        # assignment through views (row = row, view = view, elements() = elements(); named, temporary and moved forms)
        # under fault injection; element kind 4: noexcept move assignment, throwing copy assignment
        {"kind": "c09v", "cfg": lc.cfg(d=2, t=4), "count": n // 2, "maxops": mo, "faults": f},
        {"kind": "c09v", "cfg": lc.cfg(d=3, t=4), "count": n // 4, "maxops": mo, "faults": f},
        {"kind": "c09v", "cfg": lc.cfg(d=2, t=1), "count": n // 4, "maxops": mo, "faults": f},
        {"kind": "c09", "cfg": lc.cfg(d=2, t=4), "count": n // 4, "maxops": mo, "faults": f},
    ]


def run(tier, seed, replay=None):
    if replay:
        res = core.Result(PID, tier, seed, level="proof")
        if rank0.is_rank0_replay(replay):
            rank0.replay(res, PID, replay)
        else:
            lc.replay(res, PID, replay)
        return res.finish()
    res, _exes = lc.run_family(
        PID, tier, seed, plan(tier),
        rule="random histories over every operation; each history is run fault-free (case .f0, which counts the K fallible "
             "events: allocations through the instrumented allocator, element copy/move constructions, assignments and "
             "conversions) and then once per injection point k = 1..K (at most 40 per history in the quick tier: first, last "
             "and random ones); the k-th fallible event throws; after the exception every array is read back (extensions, "
             "elements, block, allocator), the history continues (operations whose arrays no longer exist are skipped "
             "identically on both sides) and everything is destroyed; assignment through views (view = view with four "
             "forms: named = lvalue, named = rvalue of the same type, temporary on the left, elements() = elements(); row = "
             "row with three forms) is a history operation, with an element type whose move assignment is noexcept and whose "
             "copy assignment throws; std::terminate in the harness child is a violation (the exception did not reach the "
             "caller); non-trivial = at least 4 operations; distinct by hash of (history, k)",
        not_exercised=["two faults in one history", "exceptions from default construction", "rank 4",
                       "assignment between views of the SAME array (overlap)"],
        assumptions=["single injection point per run", "default construction of the element type does not throw"])
    rank0.run_family(res, tier, seed, PID)     # dimensionality 0: h_rank0 under fault injection (coverage under "rank0")
    return res.finish()

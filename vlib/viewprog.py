"""View programs (h_views family): generate with the driver, run on the library, diff, monitor, shrink."""
import hashlib
import json
import os
import re
import tempfile

from . import core


def workdir(pid):
    d = os.path.join(core.BUILD, "work", pid)
    os.makedirs(d, exist_ok=True)
    return d


def generate(pid, seed, count, extra=(), prefix="v"):
    d = workdir(pid)
    prog, obs = os.path.join(d, "prog_%s.txt" % prefix), os.path.join(d, "obs_%s.txt" % prefix)
    rc, out, err = core.sh([os.path.join(core.BIN, "driver"), "views", "--seed", str(seed), "--count", str(count),
                            "--prog", prog, "--obs", obs, "--prefix", prefix] + list(extra), timeout=600)
    if rc != 0:
        raise RuntimeError("driver failed: " + err[-2000:])
    try:
        dist = json.loads(out.strip().splitlines()[-1])
    except Exception:
        dist = {}
    return open(prog).read(), open(obs).read(), dist


def model_run(pid, prog_text):
    d = workdir(pid)
    fd, p = tempfile.mkstemp(dir=d, suffix=".prog")
    os.write(fd, prog_text.encode())
    os.close(fd)
    o = p + ".obs"
    rc, out, err = core.sh([os.path.join(core.BIN, "driver"), "views-run", "--prog", p, "--obs", o], timeout=120)
    txt = open(o).read() if os.path.exists(o) else ""
    for f in (p, o):
        try:
            os.remove(f)
        except OSError:
            pass
    if rc != 0:
        raise RuntimeError("driver views-run failed: " + err[-2000:])
    return txt


def impl_run(exe, prog_text, env=None):
    out, crashes = core.run_harness(exe, prog_text, env=env, shards=1, timeout=120)
    return out, crashes


P_RE = re.compile(r"^P (\S+) (\d+) idx=(\S*) B=(-?\d+) C=(-?\d+) T=(-?\d+) H=(-?\d+) V=(\S+)$")


def monitors(impl_text, nroot_by_case, check_cursor=True):
    """Direct property monitors on the implementation's own output (independent of the model):
    the four access paths reach one address; that address is inside the root; the value read is the
    element stored there (roots are filled with 0,1,2,...)."""
    bad = []
    for line in impl_text.splitlines():
        m = P_RE.match(line)
        if not m:
            continue
        cid, step, idx, b, c, t, h, v = m.groups()
        b, c, t, h = int(b), int(c), int(t), int(h)
        if not (b == c == t) or (check_cursor and h != b):
            bad.append((cid, "access-paths-disagree", line))
        n = nroot_by_case.get(cid)
        if n is not None and not (0 <= b < n):
            bad.append((cid, "address-outside-root", line))
        elif v != str(b):
            bad.append((cid, "value-is-not-the-element-at-address", line))
    return bad


def nroots(obs_text):
    """number of elements of each case's root (from the step-0 S line of the model)."""
    d = {}
    for line in obs_text.splitlines():
        if line.startswith("S "):
            parts = line.split()
            if parts[2] == "0":
                for p in parts:
                    if p.startswith("nel="):
                        d[parts[1]] = int(p[4:])
    return d


def case_fails(exe, block, env=None):
    """Does this single case still show a model/impl disagreement, a crash or a monitor alarm?"""
    mtxt = model_run("shrink", block)
    if re.search(r"^X ", mtxt, re.M):
        return None  # shrunk program left the documented domain: not a candidate
    itxt, crashes = impl_run(exe, block, env)
    if crashes:
        return ("crash", "", "signal/exit %s: %s" % (crashes[0][1], crashes[0][2].strip().splitlines()[-1:] or ""))
    d = core.diff_cases(mtxt, itxt)
    if d:
        return ("diff", d[0][1], d[0][2])
    mon = monitors(itxt, nroots(mtxt))
    if mon:
        return ("monitor:" + mon[0][1], "", mon[0][2])
    return False


def shrink(exe, block, env=None, budget=60):
    """Greedy delta debugging on one case: drop ops (with the probes that follow them), then probes."""
    lines = block.strip().splitlines()
    head = lines[:2]
    body = lines[2:-1]
    # group: each op with its following probes; leading probes belong to the root
    groups, cur = [], []
    for ln in body:
        if ln.startswith("op "):
            groups.append(cur)
            cur = [ln]
        else:
            cur.append(ln)
    groups.append(cur)

    def assemble(gs):
        return "\n".join(head + [ln for g in gs for ln in g] + ["end"]) + "\n"

    best = groups
    tries = 0
    changed = True
    while changed and tries < budget:
        changed = False
        for k in range(len(best) - 1, 0, -1):
            cand = best[:k] + best[k + 1:]
            tries += 1
            r = case_fails(exe, assemble(cand), env)
            if r:
                best = cand
                changed = True
                break
            if tries >= budget:
                break
    # drop probes one group at a time: keep only the probes of the last group that still fail
    for k in range(len(best)):
        g = best[k]
        ops = [ln for ln in g if ln.startswith("op ")]
        cand = best[:k] + [ops] + best[k + 1:]
        if tries >= budget + 20:
            break
        tries += 1
        if case_fails(exe, assemble(cand), env):
            best = cand
    return assemble(best)


def distinct_nontrivial(prog_text):
    """distinct cases (by hash of the canonical text without probes) having at least two operations."""
    seen = set()
    for _cid, block in core.split_cases(prog_text):
        ops = [ln for ln in block.splitlines() if ln.startswith("op ") or ln.startswith("root ")]
        if len(ops) >= 3:
            seen.add(hashlib.sha256("\n".join(ops).encode()).hexdigest())
    return len(seen)

"""Runs the registered quick checks against the seeded breaking changes kept under seeded/<name>/
(patch.diff, demo, meta.json): applies each patch to a scratch git worktree of /repo's HEAD (so that checks
running against /repo itself at the same time are not disturbed), runs the check of the property it breaks
with BM_REPO pointing there, expects exit 1 with a VIOLATION line, and removes the worktree afterwards.
(Equivalent to `git -C /repo apply <patch>; ./check ...; git -C /repo checkout -- .`, which also works.)
usage: python3 -m vlib.seedcheck [name ...]   (development aid; not a registered check)"""
import json
import os
import subprocess
import sys

VERIF = os.path.dirname(os.path.dirname(os.path.abspath(__file__)))
REPO = "/repo"


def run_one(name):
    d = os.path.join(VERIF, "seeded", name)
    meta = json.load(open(os.path.join(d, "meta.json")))
    pid = meta["property"]
    patch = os.path.join(d, "patch.diff")
    wt = "/tmp/seedwt-%d" % os.getpid()
    subprocess.run(["git", "-C", REPO, "worktree", "remove", "--force", wt], capture_output=True)
    subprocess.run(["git", "-C", REPO, "worktree", "add", "-f", wt, "HEAD"], capture_output=True, check=True)
    a = subprocess.run(["git", "-C", wt, "apply", patch], capture_output=True, text=True)
    if a.returncode != 0:
        subprocess.run(["git", "-C", REPO, "worktree", "remove", "--force", wt], capture_output=True)
        return name, pid, "patch does not apply: " + a.stderr.strip()[:200]
    try:
        results = {}
        env = dict(os.environ, BM_REPO=wt)
        for p in meta.get("also_checks", []) + [pid]:
            r = subprocess.run(["./check", p, "--tier", "quick"], cwd=VERIF, capture_output=True, text=True, timeout=1800, env=env)
            viol = [l for l in r.stdout.splitlines() if l.startswith("VIOLATION")]
            results[p] = "caught (%d VIOLATION lines)" % len(viol) if (r.returncode == 1 and viol) else "MISSED (rc=%d)" % r.returncode
    finally:
        subprocess.run(["git", "-C", REPO, "worktree", "remove", "--force", wt], capture_output=True)
        # checks regenerate these from the tree under test (C13's translator): put back the versions generated from /repo
        subprocess.run(["git", "-C", VERIF, "checkout", "--", "coq/Model/BlasC13Gen.v", "coq/Model/BlasC13L3Gen.v"], capture_output=True)
    return name, pid, results


def main():
    names = sys.argv[1:] or sorted(os.listdir(os.path.join(VERIF, "seeded")))
    for n in names:
        if os.path.exists(os.path.join(VERIF, "seeded", n, "meta.json")):
            print(run_one(n))
            sys.stdout.flush()


if __name__ == "__main__":
    main()

"""C05 -- assignment through views.  Proof: coq/Properties/Properties_C05.v.
Tie: h_assign (destination and source views built by view programs over two guarded roots inside one
buffer of tracked elements; whole buffer dumped after =, elements()=, fill, swap, element_moved
assignment, range assignment) vs the extracted model."""
import re

from . import core, progcheck, rank0

PID = "C05"
_meta = {}          # case id -> (G, NA, NB, what)


def index_prog(prog_text):
    _meta.clear()
    for cid, block in core.split_cases(prog_text):
        g = na = nb = 0
        what = ""
        for line in block.splitlines():
            p = line.split()
            if p and p[0] == "buf":
                g, na, nb = int(p[1]), int(p[2]), int(p[3])
            if p and p[0] == "do":
                what = p[1]
        _meta[cid] = (g, na, nb, what)


def monitor(impl_text, obs_text):
    """On the library's own output: guard cells keep their values; only destination cells change (for swap also
    source cells); at most num_elements of them; element_moved assignment marks exactly num_elements source
    cells as moved-from and no other; nothing is ever marked moved-from otherwise."""
    bad = []
    dn = {}
    for line in impl_text.splitlines():
        p = line.split()
        if not p:
            continue
        if p[0] == "V":
            dn[p[1]] = int([q for q in p if q.startswith("dnel=")][0][5:])
        if p[0] != "B" or p[1] not in _meta:
            continue
        cid = p[1]
        g, na, nb, what = _meta[cid]
        cells = p[2:]
        if len(cells) != 3 * g + na + nb:
            bad.append((cid, "buffer-length", line[:120]))
            continue

        def changed(k):
            return cells[k] != str(1000 + k)
        regions = {"g0": range(0, g), "A": range(g, g + na), "g1": range(g + na, 2 * g + na),
                   "B": range(2 * g + na, 2 * g + na + nb), "g2": range(2 * g + na + nb, 3 * g + na + nb)}
        for r in ("g0", "g1", "g2"):
            if any(changed(k) for k in regions[r]):
                bad.append((cid, "guard-cell-changed", "region %s of %s" % (r, cid)))
        n = dn.get(cid, 0)
        ca = sum(1 for k in regions["A"] if changed(k))
        cb = sum(1 for k in regions["B"] if changed(k))
        moved = [k for k in range(len(cells)) if cells[k].endswith("!")]
        if ca > n:
            bad.append((cid, "more-destination-cells-changed-than-viewed", "%d > %d" % (ca, n)))
        if what == "move" or what.startswith("marr_"):
            if len(moved) != n or any(k not in regions["B"] for k in moved):
                bad.append((cid, "moved-from-cells-are-not-exactly-the-source-view", "%d moved, %d viewed" % (len(moved), n)))
        else:
            if moved:
                bad.append((cid, "element-moved-from-by-a-copying-operation", str(moved[:4])))
            if what != "swap" and cb:
                bad.append((cid, "source-changed", "%d cells" % cb))
            if what == "swap" and cb > n:
                bad.append((cid, "more-source-cells-changed-than-viewed", "%d > %d" % (cb, n)))
    return bad


FAMILY = progcheck.Family(PID, "assign", "assign-run", "h_assign", ["h_assign.cpp"], monitor=monitor,
                          body_prefixes=("dop ", "sop "))


def run(tier, seed, replay=None):
    res = core.Result(PID, tier, seed, level="proof")
    if replay and rank0.is_rank0_replay(replay):
        rank0.replay(res, PID, replay)
        return res.finish()
    fam = FAMILY
    coq = fam.prepare(res)
    if coq is None:
        return res.finish()
    if replay:
        index_prog("".join(l for l in open(replay) if not l.startswith("#")))
        fam.replay(res, replay)
        return res.finish()
    count = 3000 if tier == "quick" else 60000
    extra = ["--maxops", "4" if tier == "quick" else "7", "--maxrank", "3" if tier == "quick" else "4"]
    prog_c = fam.corpus()
    obs_c = fam.model_run(prog_c) if prog_c else ""
    prog_g, obs_g, dist = fam.generate(seed, count, extra=extra, prefix="a")
    prog_text, obs_text = prog_c + prog_g, obs_c + obs_g
    index_prog(prog_text)
    _orig_fails = fam.case_fails

    def case_fails(block):
        index_prog(block)
        r = _orig_fails(block)
        return r
    fam.case_fails = case_fails
    impl_text, crashes = fam.impl_run(prog_text)
    index_prog(prog_text)
    n_failing = fam.classify(res, prog_text, obs_text, impl_text, crashes)
    fam.proof_verdict(res, coq, n_failing)
    res.coverage.update({
        "evaluations": len(core.split_cases(prog_text)),
        "distinct_nontrivial": progcheck.distinct_nontrivial(prog_text, min_lines=4, prefixes=("droot", "dop ", "sroot", "sop ", "do ")),
        "rule": "destination = a C01-style view program over root A; source = a view program over root B reaching the same "
                "sizes through padding, rotation, sub-blocks and stride-2 slices; A and B live in one buffer of tracked "
                "elements separated by guard cells; one operation among = (from mutable and const view), elements()=, fill, "
                "swap, = element_moved(), = range of values; the whole buffer (value + moved-from flag per cell) is compared "
                "with the model; non-trivial = at least 4 program lines (roots, view ops, operation); distinct by hash",
        "samples": progcheck.samples(prog_text, n=2, min_lines=6),
        "generator_distribution": dist,
        "observation_lines_compared": obs_text.count("\n"),
        "corpus_cases": len(core.split_cases(prog_c)),
        "disagreeing_cases": n_failing,
        "not_exercised": ["convertible element types (the theorem has the conversion as a parameter)",
                          "source and destination inside one root", "re-based roots (C19 covers flat iteration on them)"],
    })
    res.assumptions = ["no 64-bit overflow", "g++ 12 / libstdc++ as installed",
                       "tracked element: copy clears and move sets the moved-from flag of the source"]
    rank0.run_family(res, tier, seed, PID)     # dimensionality 0: compile probes + h_rank0 (coverage under "rank0")
    return res.finish()

"""C16 -- compiles and runs the probes of gen/const_probes.py against core.INCLUDE and returns what the
library says, row by row (model-independent).  Used by vlib/c16.py."""
import concurrent.futures as cf
import hashlib
import importlib.util
import json
import os
import re
import shutil

from . import core

_spec = importlib.util.spec_from_file_location("c16_const_probes", os.path.join(core.VERIF, "gen", "const_probes.py"))
gen = importlib.util.module_from_spec(_spec)
_spec.loader.exec_module(gen)

CXX = "g++"
STD = ["-std=c++17"]


def gen_hash():
    h = hashlib.sha256()
    for f in (os.path.join(core.VERIF, "gen", "const_probes.py"), os.path.abspath(__file__)):
        h.update(open(f, "rb").read())
    return h.hexdigest()[:12]


_workdir = None


def workdir():
    """build/c16/<hash of the include tree>-<hash of the generator>; work directories of other hashes are stale
    (another library state or an older generator) and are removed, like core.build_harness does for its binaries"""
    global _workdir
    if _workdir is None:
        root = os.path.join(core.BUILD, "c16")
        name = core.include_hash() + "-" + gen_hash()
        d = os.path.join(root, name)
        os.makedirs(d, exist_ok=True)
        for other in os.listdir(root):
            if other != name:
                shutil.rmtree(os.path.join(root, other), ignore_errors=True)
        _workdir = d
    return _workdir


def ensure_pch(d):
    """writes the common header and precompiles it. Returns (ok, log)."""
    hp = os.path.join(d, "c16_common.hpp")
    txt = gen.common_header()
    if not (os.path.exists(hp) and open(hp).read() == txt and os.path.exists(hp + ".gch")):
        open(hp, "w").write(txt)
        rc, out, err = core.sh([CXX] + STD + ["-O0", "-I" + core.INCLUDE, "-x", "c++-header", hp, "-o", hp + ".gch"], timeout=300)
        if rc != 0:
            return False, (out + err)[-4000:]
    return True, "ok"


def _flags(d):
    return STD + ["-O0", "-I" + core.INCLUDE, "-I" + d, "-Winvalid-pch", "-w", "-fmax-errors=0"]


def _attributed(err, src_name, linemap):
    hit = set()
    for m in re.finditer(re.escape(src_name) + r":(\d+):", err):
        ln = int(m.group(1))
        if ln in linemap:
            hit.add(linemap[ln])
    return hit


def _run_rows_shard(args):
    """compile+run one shard of rows; rows that break the compilation are peeled off (by the line numbers in the
    diagnostics, else by bisection) and returned separately."""
    d, name, rows = args
    observed, broken = {}, []
    todo = list(rows)
    rounds = 0
    while todo:
        rounds += 1
        txt, linemap = gen.rows_tu(todo)
        src = os.path.join(d, name + ".cpp")
        exe = os.path.join(d, name + ".x")
        open(src, "w").write(txt)
        rc, out, err = core.sh([CXX] + _flags(d) + [src, "-o", exe], timeout=600)
        if rc == 0:
            rc2, out2, err2 = core.sh([exe], timeout=120)
            if rc2 != 0:
                return observed, broken + [(r, "probe executable failed: " + err2[-300:]) for r in todo], rounds
            for line in out2.splitlines():
                p = line.split()
                if len(p) == 4 and p[0] == "R":
                    observed[(p[1], p[2])] = p[3]
            break
        if "undefined reference" in err and not re.search(r": error: ", err):
            # the TU compiled; some instantiated probe body uses a member that is declared but never defined
            idx = set(int(m.group(1)) for m in re.finditer(r"in function `(?:void )?row_(\d+)<", err))
            idx = set(i for i in idx if i < len(todo))
            if idx:
                for i in sorted(idx):
                    broken.append((todo[i], "undefined reference (declared, never defined)"))
                todo = [r for i, r in enumerate(todo) if i not in idx]
                continue
        hit = _attributed(err, os.path.basename(src), linemap)
        if not hit:
            if len(todo) == 1:
                hit = {0}
            else:   # no usable line number: bisect
                half = len(todo) // 2
                o1, b1, _ = _run_rows_shard((d, name + "a", todo[:half]))
                o2, b2, _ = _run_rows_shard((d, name + "b", todo[half:]))
                observed.update(o1)
                observed.update(o2)
                return observed, broken + b1 + b2, rounds
        first_err = {}
        for m in re.finditer(r"^(\S+:\d+:\d+: error: .*)$", err, re.M):
            first_err.setdefault(0, m.group(1))
        for i in sorted(hit):
            broken.append((todo[i], first_err.get(0, "")[:300]))
        todo = [r for i, r in enumerate(todo) if i not in hit]
    return observed, broken, rounds


def _single(args):
    """one row alone: Hard when it does not compile, NoDef when it compiles but does not link, else ok"""
    d, k, st, op = args
    src = os.path.join(d, "single_%d.cpp" % k)
    obj = os.path.join(d, "single_%d.x" % k)
    open(src, "w").write(gen.single_row_tu(st, op))
    rc, out, err = core.sh([CXX] + _flags(d) + ["-fsyntax-only", src], timeout=120)
    if rc != 0:
        m = re.search(r"^(\S+:\d+:\d+: error: .*)$", err, re.M)
        return (str(st), op), "Hard", (m.group(1)[:300] if m else err[-300:])
    rc, out, err = core.sh([CXX] + _flags(d) + [src, "-o", obj], timeout=120)
    if rc != 0 and "undefined reference" in err:
        m = re.search(r"undefined reference to `([^']*)'", err)
        return (str(st), op), "NoDef", (m.group(1)[:300] if m else "")
    if rc != 0:
        return (str(st), op), "Hard", err[-300:]
    return (str(st), op), "ok", ""


def _must_fail_batch(args):
    """rows predicted ill-formed, compiled together: returns ({key: first error text} for the rows whose own line got an
    error, [rows without an error at their line])"""
    d, k, rows = args
    txt, linemap = gen.must_fail_tu(rows)
    src = os.path.join(d, "mustfail_%d.cpp" % k)
    open(src, "w").write(txt)
    rc, out, err = core.sh([CXX] + _flags(d) + ["-fsyntax-only", src], timeout=600)
    if rc == 0:
        return {}, list(rows)
    hit = _attributed(err, os.path.basename(src), linemap)
    msgs = {}
    for m in re.finditer(re.escape(os.path.basename(src)) + r":(\d+):\d+: error: (.*)$", err, re.M):
        ln = int(m.group(1))
        if ln in linemap:
            msgs.setdefault(linemap[ln], m.group(2)[:300])
    failed = {}
    rest = []
    for i, (st, op) in enumerate(rows):
        if i in hit:
            failed[(str(st), op)] = msgs.get(i, "ill-formed (error inside a template instantiated from this row)")
        else:
            rest.append((st, op))
    return failed, rest


def observe_rows(rows, predicted_hard=(), log=None, predicted_kind=None):
    """rows: list of (State, op).  predicted_hard: set of (state text, op) compiled alone from the start.
    Returns dict (state text, op) -> outcome text in {To:..., Mut, No, Hard}, and a dict of diagnostics."""
    d = workdir()
    ok, lg = ensure_pch(d)
    if not ok:
        raise RuntimeError("c16: common probe header does not compile against %s: %s" % (core.INCLUDE, lg))
    predicted_hard = set(predicted_hard)
    shards = {}
    singles = []
    for st, op in rows:
        if (str(st), op) in predicted_hard:
            singles.append((st, op))
        else:
            shards.setdefault("rows_%s_%s%s" % (st.kind, st.c, st.cat), []).append((st, op))
    observed, diag = {}, {}
    jobs = [(d, name, rs) for name, rs in sorted(shards.items())]
    unexpected_broken = []
    with cf.ThreadPoolExecutor(max_workers=core.NCPU) as ex:
        for obs, broken, rounds in ex.map(_run_rows_shard, jobs):
            observed.update(obs)
            unexpected_broken.extend(broken)
    # the rows predicted Hard (not NoDef: that is a link failure) are first compiled in batches of must-fail functions; a row
    # whose own line gets an error is Hard, the others (and every row that broke a shard unexpectedly) are compiled alone
    n_batched = 0
    predicted_kind = predicted_kind or {}
    batchable = [r for r in singles if predicted_kind.get((str(r[0]), r[1])) == "Hard"]
    if batchable:
        singles = [r for r in singles if predicted_kind.get((str(r[0]), r[1])) != "Hard"]
        # rows that differ only in const / category tend to fail inside the same template instantiation, which is reported
        # once: deal them out over the batches
        batchable.sort(key=lambda r: (r[1], r[0].kind, r[0].d, r[0].c, r[0].cat))
        nb = max(1, (len(batchable) + 23) // 24)
        jobs2 = [(d, k, batchable[k::nb]) for k in range(nb)]
        with cf.ThreadPoolExecutor(max_workers=core.NCPU) as ex:
            for failed, rest in ex.map(_must_fail_batch, jobs2):
                for key, msg in failed.items():
                    observed[key] = "Hard"
                    diag[key] = msg
                    n_batched += 1
                singles.extend(rest)
    for (st, op), msg in unexpected_broken:
        singles.append((st, op))
        diag[(str(st), op)] = msg
    # rows compiled alone: Hard iff the compilation fails
    recheck = []
    with cf.ThreadPoolExecutor(max_workers=core.NCPU) as ex:
        for key, verdict, msg in ex.map(_single, [(d, k, st, op) for k, (st, op) in enumerate(singles)]):
            if verdict in ("Hard", "NoDef"):
                observed[key] = verdict
                diag[key] = msg
            else:
                recheck.append(key)
    # a row that compiles alone is classified alone (it broke only next to others, or was wrongly predicted)
    for k, key in enumerate(recheck):
        st = gen.State.parse(key[0])
        obs, broken, _ = _run_rows_shard((d, "recheck_%d" % k, [(st, key[1])]))
        observed.update(obs)
        for (st2, op2), msg in broken:
            observed[(str(st2), op2)] = "Hard"
    # Hard is only used for rows the detection idiom cannot answer "No" for: a row that fails alone but
    # whose detection says No is No.
    if log is not None:
        log["shards"] = len(jobs)
        log["singles"] = len(singles)
        log["must_fail_rows_batched"] = n_batched
        log["unexpected_broken"] = len(unexpected_broken)
    return observed, diag


def observe_paths(paths, log=None):
    """paths: list of (pid, root, D, steps).  Returns dict pid -> classification ('No', 'To:...') and list of
    pids whose TU could not be compiled (hard error inside a path)."""
    d = workdir()
    ok, lg = ensure_pch(d)
    if not ok:
        raise RuntimeError(lg)
    n = max(1, min(core.NCPU * 2, len(paths) // 200 + 1))
    parts = [paths[k::n] for k in range(n)]

    def run(args):
        k, part = args
        res, bad = {}, []
        todo = list(part)
        name = "paths_%d" % k
        guard = 0
        while todo and guard < 12:
            guard += 1
            txt, linemap = gen.paths_tu(todo)
            src, exe = os.path.join(d, name + ".cpp"), os.path.join(d, name + ".x")
            open(src, "w").write(txt)
            rc, out, err = core.sh([CXX] + _flags(d) + [src, "-o", exe], timeout=900)
            if rc == 0:
                rc2, out2, _ = core.sh([exe], timeout=120)
                for line in out2.splitlines():
                    p = line.split()
                    if len(p) == 3 and p[0] == "P":
                        res[p[1]] = p[2]
                break
            hit = _attributed(err, os.path.basename(src), linemap)
            if not hit:
                bad.extend(p[0] for p in todo)
                break
            bad.extend(todo[i][0] for i in hit)
            todo = [p for i, p in enumerate(todo) if i not in hit]
        return res, bad

    result, hard = {}, []
    with cf.ThreadPoolExecutor(max_workers=core.NCPU) as ex:
        for res, bad in ex.map(run, list(enumerate(parts))):
            result.update(res)
            hard.extend(bad)
    for pid in hard:
        result[pid] = "Hard"
    return result

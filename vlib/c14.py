"""C14 -- LAPACK adaptor.  Proof: coq/Properties/Properties_C14.v (marshalling of views into Fortran
calls, relative to LAPACK's column-major contracts).  Tie: harness/h_lapack.cpp (+ the interposer
harness/c14_interpose.cpp) vs the extracted model (ocaml/c14_driver.ml): every intercepted
dpotrf_/dgeqrf_/dgesvd_/dsyev_ call, workspace event and returned view is compared line by line
(syev is tied whenever harness/c14_syev_probe.cpp compiles; if it does not, that is a violation);
direct monitors (numeric oracle, guard cells, untouched triangle, ordering, shape of the returned
block) run on the library's own output."""
import concurrent.futures as cf
import hashlib
import json
import os
import re

from . import core

PID = "C14"
DRIVER = os.path.join(core.BIN, "driver_c14")
SOURCES = ["h_lapack.cpp", "c14_interpose.cpp"]


def workdir():
    d = os.path.join(core.BUILD, "work", PID)
    os.makedirs(d, exist_ok=True)
    return d


# ------------------------------------------------------------------------------------------------
# build
# ------------------------------------------------------------------------------------------------
def build_all():
    """Returns dict(ok_driver, log_driver, syev (bool), log_probe, exe_p, ok_p, log_p, exe_r, ok_r, log_r)."""
    ok_d, log_d = core.ensure_driver_for("c14", "ExtractC14.v", ["c14_driver.ml"], "driver_c14", model_base="modelc14")
    ok_probe, _obj, log_probe = core.build_harness("h_lapack_syevprobe", ["c14_syev_probe.cpp"], flags=["-c"])

    def bp():
        return core.build_harness("h_lapack_potrf", SOURCES, flags=["-DC14_PART_POTRF"], libs=["-ldl"])

    def br():
        flags = ["-DC14_PART_REST"] + (["-DC14_WITH_SYEV"] if ok_probe else [])
        return core.build_harness("h_lapack_rest", SOURCES, flags=flags, libs=["-ldl"])

    with cf.ThreadPoolExecutor(max_workers=2) as ex:
        fp, fr = ex.submit(bp), ex.submit(br)
        ok_p, exe_p, log_p = fp.result()
        ok_r, exe_r, log_r = fr.result()
    return dict(ok_driver=ok_d, log_driver=log_d, syev=ok_probe, log_probe=log_probe,
                exe_p=exe_p, ok_p=ok_p, log_p=log_p, exe_r=exe_r, ok_r=ok_r, log_r=log_r)


# ------------------------------------------------------------------------------------------------
# model / implementation runs
# ------------------------------------------------------------------------------------------------
def generate(seed, count, maxn, with_syev, prefix="c"):
    d = workdir()
    prog, obs = os.path.join(d, "prog_%s.txt" % prefix), os.path.join(d, "obs_%s.txt" % prefix)
    rc, out, err = core.sh([DRIVER, "gen", "--seed", str(seed), "--count", str(count), "--maxn", str(maxn),
                            "--syev", "1" if with_syev else "0", "--prefix", prefix, "--prog", prog, "--obs", obs], timeout=600)
    if rc != 0:
        raise RuntimeError("driver_c14 gen failed: " + err[-2000:])
    try:
        dist = json.loads(out.strip().splitlines()[-1])
    except Exception:
        dist = {}
    return open(prog).read(), open(obs).read(), dist


def model_run(prog_text, tag="replay"):
    d = workdir()
    p, o = os.path.join(d, "run_%s.prog" % tag), os.path.join(d, "run_%s.obs" % tag)
    open(p, "w").write(prog_text)
    rc, out, err = core.sh([DRIVER, "run", "--prog", p, "--obs", o], timeout=300)
    if rc != 0:
        raise RuntimeError("driver_c14 run failed: " + err[-2000:])
    return open(o).read()


def routine_of(block):
    m = re.search(r"^routine (\S+)", block, re.M)
    return m.group(1) if m else ""


def impl_run(b, prog_text, shards=None):
    """Route potrf cases to the potrf executable and the rest to the other one."""
    blocks = core.split_cases(prog_text)
    tp = "".join(t for _c, t in blocks if routine_of(t) == "potrf")
    tr = "".join(t for _c, t in blocks if routine_of(t) != "potrf" and (b["syev"] or routine_of(t) != "syev"))
    out, crashes = "", []
    if tp:
        o, c = core.run_harness(b["exe_p"], tp, shards=shards)
        out += o
        crashes += c
    if tr:
        o, c = core.run_harness(b["exe_r"], tr, shards=shards)
        out += o
        crashes += c
    return out, crashes


def split_obs(text):
    """-> (compared lines, monitor lines)"""
    cmp_, mon = [], []
    for line in text.splitlines():
        if line.startswith("N "):
            continue                                     # informational notes
        (mon if line.startswith("M ") else cmp_).append(line)
    return "\n".join(cmp_) + "\n", mon


MON_RE = re.compile(r"^M (\S+) (\S+) (ok|FAIL)\s*(.*)$")


def failures(obs_text, impl_text, crashes):
    """-> {case id: [ (found_by, model line, impl line, record) ]}"""
    fails = {}
    impl_cmp, mons = split_obs(impl_text)
    model_cmp, _ = split_obs(obs_text)
    for cid, ml, il in core.diff_cases(model_cmp, impl_cmp):
        fails.setdefault(cid, []).append(("correspondence", ml, il, {"found_by": "correspondence"}))
    for line in mons:
        m = MON_RE.match(line)
        if not m or m.group(3) == "ok":
            continue
        cid, name, _st, detail = m.groups()
        rec = {"found_by": "monitor", "monitor": name}
        for tok in detail.split():
            if "=" in tok:
                k, v = tok.split("=", 1)
                if k in ("site", "branch", "info"):
                    rec[k] = v
        fails.setdefault(cid, []).append(("monitor:" + name, "", line, rec))
    for cid, rc, err in crashes:
        tail = (err.strip().splitlines() or [""])[-1]
        fails.setdefault(cid, []).append(("crash", "", "exit/signal %s: %s" % (rc, tail), {"found_by": "crash"}))
    return fails


def probe_ids(obs_text):
    """cases the model declares outside the documented domain (generated on purpose as probes)"""
    return {l.split()[1] for l in obs_text.splitlines() if l.startswith("D ") and l.rstrip().endswith("probe")}


def run_probes(res, b, blocks, max_report=2):
    """Views OUTSIDE the documented domain (non-unit inner stride).  The library must reject them
    (geqrf.hpp:40-42 assertions -> abort; or an exception) or handle them correctly; accepting them
    silently and then writing outside the view / returning a wrong factorization violates 'only the
    documented outputs are overwritten' for an accepted view.
    -> (n probes, n rejected, n accepted silently with wrong effect)"""
    if not blocks:
        return 0, 0, 0
    text = "".join(t for _c, t in blocks)
    impl, crashes = impl_run(b, text)
    crashed = {cid for cid, _rc, _e in crashes}
    by = core.by_case(impl)
    n_wrong, n_rep, n_rej = 0, 0, 0
    for cid, blk in blocks:
        lines = by.get(cid, [])
        if cid in crashed or any(l.startswith("X ") for l in lines):
            n_rej += 1
            continue                                     # rejected
        bad = [l for l in lines if l.startswith("M ") and " FAIL" in l]
        if not bad:
            continue                                     # accepted and right
        n_wrong += 1
        rec = {"routine": routine_of(blk), "found_by": "probe", "probe": "inner-stride-2", "outcome": "accepted-silently-wrong"}
        kf = core.match_known(PID, rec)
        if kf:
            res.known_finding(kf)
        elif n_rep < max_report:
            n_rep += 1
            path = core.write_replay(PID, blk, {"property": PID, "tier": res.tier, "seed": res.seed, "found-by": "probe",
                                                "implementation-said": bad[0], "record": json.dumps(rec, sort_keys=True)})
            res.violation(path, "out-of-domain view accepted silently: " + bad[0])
    return len(blocks), n_rej, n_wrong


def case_key(block):
    """canonical form for distinctness: everything but the id and the value seed"""
    return "\n".join(l for l in block.splitlines() if not l.startswith(("case ", "vseed ")))


def case_size(block):
    n = 0
    for m in re.finditer(r"^mat \S+ \d+ \d+ \d+ \d+ (\d+) (\d+) \d", block, re.M):
        n = max(n, int(m.group(1)), int(m.group(2)))
    return n


def shrink(b, block):
    """Greedy: make operands contiguous, drop the transposition, one at a time, while the case still fails."""
    def fails_(blk):
        try:
            obs = model_run(blk, "shrink")
            impl, crashes = impl_run(b, blk, shards=1)
        except Exception:
            return False
        return bool(unexplained(failures(obs, impl, crashes), routine_of(blk)))
    cur = block
    lines = cur.splitlines()
    for k, l in enumerate(lines):
        p = l.split()
        if p and p[0] == "mat":
            nm, R, C, r0, c0, nr, nc, t = p[1], *map(int, p[2:9])
            cand = "mat %s %d %d 0 0 %d %d %d" % (nm, nr, max(1, nc), nr, nc, t)
            if cand != l:
                trial = lines[:k] + [cand] + lines[k + 1:]
                if fails_("\n".join(trial) + "\n"):
                    lines = trial
        elif p and p[0] == "vec":
            nm, ln, off, n = p[1], *map(int, p[2:5])
            cand = "vec %s %d 0 %d" % (nm, max(1, n), n)
            if cand != l:
                trial = lines[:k] + [cand] + lines[k + 1:]
                if fails_("\n".join(trial) + "\n"):
                    lines = trial
    return "\n".join(lines) + "\n"


def unexplained(fails, routine):
    """failures that do not match a known finding; -> list of (cid, found_by, ml, il, rec)"""
    out = []
    for cid, items in fails.items():
        for found_by, ml, il, rec in items:
            r = dict(rec)
            r["routine"] = routine if isinstance(routine, str) else routine.get(cid, "")
            if core.match_known(PID, r) is None:
                out.append((cid, found_by, ml, il, r))
    return out


# ------------------------------------------------------------------------------------------------
# vm_compute cross-check of the extracted model on a sub-sample (bounds the trust in extraction and
# in the driver's number conversion): the model's own output lines are turned into Coq goals
# ------------------------------------------------------------------------------------------------
def coq_crosscheck(prog_text, obs_text, limit):
    blocks = core.split_cases(prog_text)
    obs = core.by_case(obs_text)
    goals = []
    for cid, blk in blocks:
        if len(goals) >= limit:
            break
        if routine_of(blk) != "potrf":
            continue
        m = re.search(r"^mat A (\d+) (\d+) (\d+) (\d+) (\d+) (\d+) (\d)", blk, re.M)
        up = "Upper" if re.search(r"^uplo U", blk, re.M) else "Lower"
        R, C, r0, c0, nr, nc, t = map(int, m.groups())
        L = [l for l in obs.get(cid, []) if l.startswith("L ")]
        V = [l for l in obs.get(cid, []) if l.startswith("V ")]
        I = [l for l in obs.get(cid, []) if l.startswith("I ")]
        if len(L) != 1 or len(V) != 1 or len(I) != 1:
            continue
        lm = re.search(r"uplo=(\w) n=(-?\d+) a=A\+(-?\d+) lda=(-?\d+) legal=(\d)", L[0])
        vm = re.search(r"base=A\+(-?\d+) strides=(-?\d+),(-?\d+) sizes=(-?\d+),(-?\d+)", V[0])
        info = int(re.search(r"info=(-?\d+)", I[0]).group(1))
        v = "(mk_operand %d %d %d %d %d %s)" % (C, r0, c0, nr, nc, "true" if t else "false")
        goals.append("Goal potrf_call_of %s %s = mkpc F%s (%s) (%s) (%s) /\\ potrf_ret %s (%d) = mkmat (%s) (%s) (%s) (%s) (%s).\n"
                     "Proof. vm_compute. split; reflexivity. Qed.\n"
                     % (up, v, lm.group(1), lm.group(2), lm.group(3), lm.group(4), v, info, *vm.groups()))
    if not goals:
        return True, 0, ""
    d = workdir()
    path = os.path.join(d, "Cross_C14.v")
    open(path, "w").write("From Coq Require Import ZArith.\nFrom BM Require Import Model.Lapack.\nLocal Open Scope Z_scope.\n"
                          + "".join(goals))
    rc, out, err = core.sh(["coqc", "-Q", core.COQ, "BM", path], cwd=d, timeout=900)
    return rc == 0, len(goals), (out + err)[-2000:]


# ------------------------------------------------------------------------------------------------
def report(res, b, prog_text, obs_text, impl_text, crashes, max_report=4):
    blocks = dict(core.split_cases(prog_text))
    routines = {cid: routine_of(t) for cid, t in blocks.items()}
    fails = failures(obs_text, impl_text, crashes)
    n_known = 0
    bad_cases = {}
    for cid, items in fails.items():
        for found_by, ml, il, rec in items:
            r = dict(rec)
            r["routine"] = routines.get(cid, "")
            kf = core.match_known(PID, r)
            if kf:
                res.known_finding(kf)
                n_known += 1
            else:
                bad_cases.setdefault(cid, []).append((found_by, ml, il, r))
    n_reported = 0
    for cid in sorted(bad_cases, key=lambda c: (case_size(blocks.get(c, "")), len(blocks.get(c, "")))):
        if n_reported >= max_report or cid not in blocks:
            continue
        n_reported += 1
        found_by, ml, il, rec = bad_cases[cid][0]
        small = shrink(b, blocks[cid]) if found_by != "crash" else blocks[cid]
        path = core.write_replay(PID, small, {
            "property": PID, "tier": res.tier, "seed": res.seed, "found-by": found_by,
            "model-said": ml, "implementation-said": il, "record": json.dumps(rec, sort_keys=True),
            "note": "model = Coq marshalling model proved in Properties_C14.v; replay: ./check C14 --replay <this file>"})
        res.violation(path, "%s: model %r impl %r" % (found_by, ml, il))
    return len(bad_cases), n_known


def sanitizer_pass(res, b, prog_text, obs_text):
    """thorough tier: the same cases through harnesses built with -fsanitize=address,undefined"""
    san = ["-fsanitize=address,undefined", "-fno-sanitize-recover=all", "-g"]
    okp, exe_p, logp = core.build_harness("h_lapack_potrf", SOURCES, flags=["-DC14_PART_POTRF"] + san, libs=["-ldl"], tag="-san")
    okr, exe_r, logr = core.build_harness("h_lapack_rest", SOURCES, flags=["-DC14_PART_REST"] + (["-DC14_WITH_SYEV"] if b["syev"] else []) + san,
                                          libs=["-ldl"], tag="-san")
    if not (okp and okr):
        path = core.write_replay(PID, "", {"property": PID, "found-by": "build:sanitizer-harness", "log": (logp + logr)[-3000:]})
        res.violation(path, "sanitizer harness does not build", no_input=True)
        return 0, 0
    bs = dict(b, exe_p=exe_p, exe_r=exe_r)
    impl, crashes = impl_run(bs, prog_text)
    ids = {c_ for c_, _t in core.split_cases(prog_text)}
    obs = "\n".join(l for l in obs_text.splitlines() if len(l.split()) >= 2 and l.split()[1] in ids) + "\n"
    # crashes reported after the last case (leak reports at exit) are attributed to the shard's last case
    crashes = [(c_ if c_ != "<after-last-case>" else next(iter(ids)), rc, e) for c_, rc, e in crashes]
    n_bad, _k = report(res, bs, prog_text, obs, impl, crashes, max_report=2)
    return len(ids), n_bad


def run(tier, seed, replay=None):
    res = core.Result(PID, tier, seed, level="proof")
    coq = core.coq_check_property(PID)
    core.proof_coverage(res, coq)
    b = build_all()
    problems = []
    if not b["ok_driver"]:
        problems.append(("build:model-extraction-or-driver", b["log_driver"]))
    if not b["ok_p"]:
        problems.append(("build:harness-h_lapack(potrf)-does-not-compile-against-%s" % core.INCLUDE, b["log_p"]))
    if not b["ok_r"]:
        problems.append(("build:harness-h_lapack(geqrf,gesvd%s)-does-not-compile-against-%s"
                         % (",syev" if b["syev"] else "", core.INCLUDE), b["log_r"]))
    if problems:
        for step, log in problems:
            path = core.write_replay(PID, "", {"property": PID, "found-by": step, "log": log[-3000:]})
            res.violation(path, step, no_input=True)
        return res.finish()
    if not b["syev"]:
        rec = {"routine": "syev", "found_by": "build", "what": "header-does-not-compile"}
        kf = core.match_known(PID, rec)
        if kf:
            res.known_finding(kf)
        else:
            path = core.write_replay(PID, "", {"property": PID, "found-by": "build:syev.hpp-does-not-compile",
                                               "record": json.dumps(rec), "log": b["log_probe"][-3000:]})
            res.violation(path, "syev.hpp does not compile", no_input=True)

    if replay:
        block = "".join(l for l in open(replay) if not l.startswith("#"))
        if not block.strip():
            print("replay file names a build/proof step, no input to run:", replay)
            return res.finish()
        obs = model_run(block)
        if probe_ids(obs):
            n_p, n_r, n_w = run_probes(res, b, core.split_cases(block))
            print("replay verdict (out-of-domain probe): %d rejected, %d accepted silently with a wrong effect" % (n_r, n_w))
            return res.finish()
        impl, crashes = impl_run(b, block, shards=1)
        fails = failures(obs, impl, crashes)
        routines = {cid: routine_of(t) for cid, t in core.split_cases(block)}
        bad = unexplained(fails, routines)
        for cid, items in fails.items():
            for _fb, _ml, _il, rec in items:
                kf = core.match_known(PID, dict(rec, routine=routines.get(cid, "")))
                if kf:
                    res.known_finding(kf)
        print(impl, end="")
        print("replay verdict:", bad if bad else ("agrees (no violation)" if not fails else "only known findings: %s" % sorted(fails)))
        if bad:
            res.violation(os.path.relpath(replay, core.VERIF), str(bad[0]))
        return res.finish()

    quick = tier == "quick"
    count = 10000 if quick else 400000
    maxn = 9 if quick else 32
    progs, obss = [], []
    import glob
    for f in sorted(glob.glob(os.path.join(core.VERIF, "corpus", PID, "*.prog"))):
        block = "".join(l for l in open(f) if not l.startswith("#"))
        if not b["syev"] and routine_of(block) == "syev":
            continue
        progs.append(block)
        obss.append(model_run(block, "corpus"))
    n_corpus = sum(len(core.split_cases(p)) for p in progs)
    p, o, dist = generate(seed, count, maxn, b["syev"])
    progs.append(p)
    obss.append(o)
    prog_text, obs_text = "".join(progs), "".join(obss)
    pids = probe_ids(obs_text)
    all_blocks = core.split_cases(prog_text)
    probe_blocks = [(c_, t_) for c_, t_ in all_blocks if c_ in pids]
    prog_text = "".join(t_ for c_, t_ in all_blocks if c_ not in pids)
    obs_text = "\n".join(l for l in obs_text.splitlines() if len(l.split()) >= 2 and l.split()[1] not in pids) + "\n"
    impl_text, crashes = impl_run(b, prog_text)
    open(os.path.join(workdir(), "impl_c.txt"), "w").write(impl_text)      # kept for diagnosis only
    n_bad, n_known = report(res, b, prog_text, obs_text, impl_text, crashes)
    n_probes, n_probe_rej, n_probe_wrong = run_probes(res, b, probe_blocks)
    n_san = 0
    if not quick:
        n_san, n_bad_san = sanitizer_pass(res, b, "".join(t_ for _c, t_ in core.split_cases(prog_text)[:30000]), obs_text)
        n_bad += n_bad_san

    ok_x, n_x, log_x = coq_crosscheck(p, o, 40 if quick else 600)
    if not ok_x:
        path = core.write_replay(PID, "", {"property": PID, "found-by": "crosscheck:extracted-model-vs-vm_compute", "log": log_x})
        res.violation(path, "extracted model disagrees with vm_compute", no_input=True)
    if not coq["ok"] and n_bad == 0:
        path = core.write_replay(PID, "", {"property": PID, "found-by": "proof:Properties_%s.v" % PID, "log": coq["log"][-3000:],
                                           "obligations": coq["obligations"], "discharged": coq["discharged"]})
        res.violation(path, "proof obligations no longer check", no_input=True)

    blocks = core.split_cases(prog_text)
    keys = {}
    for cid, blk in blocks:
        if case_size(blk) >= 2:
            keys[hashlib.sha256(case_key(blk).encode()).hexdigest()] = 1
    impl_cmp, mons = split_obs(impl_text)
    obs_by = core.by_case(obs_text)
    samples = []
    seen_r = set()
    for cid, blk in blocks:
        r = routine_of(blk)
        if r not in seen_r and case_size(blk) >= 3:
            seen_r.add(r)
            samples.append({"case": blk, "model_and_library_lines": obs_by.get(cid, [])})
    res.coverage.update({
        "evaluations": len(blocks) + n_probes,
        "distinct_nontrivial": len(keys),
        "rule": "random adaptor calls: routine in {potrf 40, geqrf 20, gesvd 25, syev 20 (only when syev.hpp compiles)}; every matrix "
                "operand is an nr x nc block at (r0,c0) of a row-major root (35%% contiguous, else padded by 0..2 rows / 0..3 columns on "
                "each side), transposed with probability 1/2 for potrf and syev (column-major view); sizes 1..%d weighted to 1..4 "
                "(potrf: 4%% n = 0), rectangular for geqrf/gesvd; both fillings; potrf inputs A = L D L^T with D > 0 (SPD) or D[k] = -1 "
                "(first non-positive leading minor k, 40%%); vectors contiguous or at an offset in a longer root; API forms: geqrf with "
                "logging allocator / default, gesvd 5-argument / 4-argument / by-value, syev with / without workspace.  A case is "
                "non-trivial when its largest dimension is >= 2; distinct = by hash of the case text without id and value seed" % maxn,
        "samples": samples,
        "generator_distribution": dist,
        "observation_lines_compared": len(impl_cmp.splitlines()),
        "monitor_lines": len(mons),
        "monitor_failures_matching_known_findings": n_known,
        "corpus_cases": n_corpus,
        "gesvd_cases_where_formula_of_test_svd_cpp_UU_S_VVT_fails": sum(1 for l in impl_text.splitlines() if l.startswith("N ") and " fails " in l),
        "gesvd_cases_where_formula_of_test_svd_cpp_UU_S_VVT_holds": sum(1 for l in impl_text.splitlines() if l.startswith("N ") and " holds " in l),
        "out_of_domain_probes": n_probes,
        "out_of_domain_probes_rejected_by_assertion_or_exception": n_probe_rej,
        "out_of_domain_probes_accepted_silently_with_wrong_effect": n_probe_wrong,
        "disagreeing_cases": n_bad,
        "crosscheck_vm_compute_cases": n_x,
        "sanitizer_cases": n_san,
        "syev_header_compiles": bool(b["syev"]),
        "not_exercised": ["getrf/getrs (do not compile at the pinned commit; not claimed)",
                          "complex element types (zpotrf etc.)", "potrf(hermitic_t) and onrm wrappers",
                          "dsyev info > 0 (non-convergence cannot be provoked)",
                          "strided (non-unit inner stride) views: outside the domain; probed only for geqrf (must be rejected)"]
                         + ([] if b["syev"] else ["syev (header does not compile: reported as a violation)"]),
    })
    res.coverage["trusted_base"] = res.coverage.get("trusted_base", []) + [
        "LAPACK routine contracts (dpotrf, dgeqrf/dorgqr, dgesvd, dsyev) are premises of the *_factorization theorems, not proved",
        "harness/c14_interpose.cpp (symbol interposition + dlopen of libopenblas/liblapack), logging allocator",
    ]
    res.assumptions = ["no 64-bit / 32-bit (LAPACK int) overflow in sizes and leading dimensions",
                       "operands of one call do not alias", "floating-point accuracy is measured (residual <= %g*n*eps*max(1,|A|)), not proved" % 200.0,
                       "OpenBLAS / reference LAPACK as installed implement the documented contracts",
                       "g++ 12 / libstdc++ as installed"]
    return res.finish()

"""C02 -- iterators and flat element ranges.  Proof: coq/Properties/Properties_C02.v.
Tie: h_iters (random iterator walks on views produced by view programs) vs the extracted model."""
import re

from . import core, progcheck

PID = "C02"
I_RE = re.compile(r"^I (\S+) (\d+) k=(\S) r=(\d) pos=(-?\d+) cmp=(\S+) ce=(\d) d=(\S+) x=(\S+)$")


def monitor(impl_text, obs_text):
    """Direct monitors on the library's own output: *(it) is the element/sub-view that indexing with the
    pos-th valid index gives (M line, computed without iterators); const and mutable iterators to one
    position compare equal; comparisons are consistent with the difference; it - it == 0."""
    bad = []
    mline = {}
    for line in impl_text.splitlines():
        if line.startswith("M "):
            p = line.split()
            mline[(p[1], p[2][2:])] = p[3:]
    for line in impl_text.splitlines():
        m = I_RE.match(line)
        if not m:
            continue
        cid, _n, kind, r, pos, cmp_, ce, d, _x = m.groups()
        pos = int(pos)
        if ce != "1":
            bad.append((cid, "const-and-mutable-iterator-differ", line))
        ref = mline.get((cid, kind))
        if d != "-" and ref is not None and pos < len(ref) and ref[pos] != d:
            bad.append((cid, "deref-is-not-the-indexed-element", line))
        for s, c in enumerate(cmp_.split(",")):
            bits, diff = c.split(":")
            diff = int(diff)
            want = "%d%d%d%d%d%d" % (diff == 0, diff < 0, diff <= 0, diff > 0, diff >= 0, diff != 0)
            if bits != want:
                bad.append((cid, "comparison-inconsistent-with-difference", line))
            if s == int(r) and diff != 0:
                bad.append((cid, "it-minus-itself-nonzero", line))
    return bad


def record(block, found_by, ml, il):
    kind = "e" if (" k=e " in (ml or "") or " k=e " in (il or "")) else "a"
    return {"iterator": kind}


FAMILY = progcheck.Family(PID, "iters", "iters-run", "h_iters", ["h_iters.cpp"], monitor=monitor, record=record)


def run(tier, seed, replay=None):
    res = core.Result(PID, tier, seed, level="proof")
    fam = FAMILY
    coq = fam.prepare(res)
    if coq is None:
        return res.finish()
    if replay:
        fam.replay(res, replay)
        return res.finish()
    count = 3000 if tier == "quick" else 60000
    extra = ["--maxops", "4" if tier == "quick" else "7", "--maxsteps", "12" if tier == "quick" else "25"]
    prog_c = fam.corpus()
    obs_c = fam.model_run(prog_c) if prog_c else ""
    prog_g, obs_g, dist = fam.generate(seed, count, extra=extra, prefix="i")
    prog_text, obs_text = prog_c + prog_g, obs_c + obs_g
    impl_text, crashes = fam.impl_run(prog_text)
    n_failing = fam.classify(res, prog_text, obs_text, impl_text, crashes)
    fam.proof_verdict(res, coq, n_failing)
    res.coverage.update({
        "evaluations": len(core.split_cases(prog_text)),
        "distinct_nontrivial": progcheck.distinct_nontrivial(prog_text, min_lines=6),
        "rule": "view programs as for C01 (root rank 1..4, extents 0..7, up to %s view operations) followed by one walk over "
                "begin()/end() and one over elements(): three iterator registers, up to %s steps drawn from ++ -- += -= + - "
                "copy-assign copy-construct =end =begin with every move inside [begin,end]; after each step position, all six "
                "comparisons and differences against the three registers, const==mutable, address of *it and of it[k]; "
                "non-trivial = at least 6 program lines; distinct by hash of root+operations+walk" % (extra[1], extra[3]),
        "samples": progcheck.samples(prog_text, n=2, min_lines=8),
        "generator_distribution": dist,
        "observation_lines_compared": obs_text.count("\n"),
        "iterator_steps": obs_text.count("\nI "),
        "corpus_cases": len(core.split_cases(prog_c)),
        "disagreeing_cases": n_failing,
        "not_exercised": ["flat iteration over views with a non-empty leading and an empty inner extent unless --zero-inner",
                          "cursors beyond what C01 compares (home()[i]... is C01's fourth access path)"],
    })
    res.assumptions = ["no 64-bit overflow in index arithmetic", "g++ 12 / libstdc++ as installed",
                       "iterators are observed through a mutable subarray rebuilt from the view's public layout() and base()"]
    return res.finish()

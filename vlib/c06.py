"""C06 -- reextent keeps the common part; clear, reshape and assign do what they say.
Proof: coq/Properties/Properties_C06.v.  Tie: h_life vs the extracted machine on histories dominated by reextent (three
overloads), clear, = {}, reshape, assign(first,last), = {nested list}, assign(extensions, value); old and new
extensions drawn independently (growing, shrinking, mixed, to/from empty, zero inner extents, index bases)."""
from . import core, lifecommon as lc

PID = "C06"


def plan(tier):
    q = tier == "quick"
    n = 6000 if q else 60000
    mo = 16 if q else 50
    return [
        {"kind": "c06", "cfg": lc.cfg(d=2, t=1), "count": n, "maxops": mo},
        {"kind": "c06", "cfg": lc.cfg(d=1, t=1), "count": n // 2, "maxops": mo},
        {"kind": "c06", "cfg": lc.cfg(d=3, t=1), "count": n // 2, "maxops": mo},
        {"kind": "c06", "cfg": lc.cfg(d=4, t=1), "count": n // 6, "maxops": mo},
        {"kind": "c06", "cfg": lc.cfg(d=2, t=0), "count": n // 2, "maxops": mo},
        {"kind": "c06", "cfg": lc.cfg(d=3, t=0), "count": n // 4, "maxops": mo},
        # element kinds that separate the traits the code branches on (value-initialisation of new elements):
        # 2 = not trivially default constructible but trivially destructible, 3 = trivial default constructor, not is_trivial
        {"kind": "c06", "cfg": lc.cfg(d=2, t=2), "count": n // 3, "maxops": mo},
        {"kind": "c06", "cfg": lc.cfg(d=3, t=2), "count": n // 6, "maxops": mo},
        {"kind": "c06", "cfg": lc.cfg(d=2, t=3), "count": n // 4, "maxops": mo},
    ]


def extra_checks(res, _exes):
    """array::assign(extensions, value) must compile (it did not at the pinned commit)."""
    ok, log = lc.assign_fill_compiles()
    if ok:
        return 0
    rec = {"harness": "life_assign_fill_probe", "kind": "does-not-compile", "op": "assign_fill"}
    kf = core.match_known(PID, rec)
    if kf:
        res.known_finding(kf)
        return 1
    path = core.write_replay(PID, open(core.os.path.join(core.VERIF, "harness", "life_assign_fill_probe.cpp")).read(), {
        "property": PID, "found-by": "build:harness/life_assign_fill_probe.cpp does not compile against " + core.INCLUDE,
        "log": log[-2500:], "note": "array::assign(extensions, value) cannot be instantiated: the different-extents branch "
                                    "assigns the layout through an inaccessible base class"})
    res.violation(path, "array::assign(extensions, value) does not compile")
    return 1


def run(tier, seed, replay=None):
    if replay:
        res = core.Result(PID, tier, seed, level="proof")
        lc.replay(res, PID, replay)
        return res.finish()
    res, _exes = lc.run_family(
        PID, tier, seed, plan(tier),
        rule="random fault-free histories dominated by reextent(x), reextent(x, v), std::move(a).reextent(x), clear, = {}, "
             "reshape, assign(first,last), = {nested list} (same shape, same outer size with other inner extents, other), "
             "assign(extensions, value), interleaved with the other mutating operations; new extensions are the old ones, "
             "the old ones +-2 per dimension (and shifted by +-1 when index bases are drawn), or independent; extents 0..5 per "
             "dimension incl. zero inner extents next to non-zero outer ones; extensions and every element compared after "
             "every call; block identity compared for the same-extensions no-op; element kinds: tracked class, int, "
             "struct{int v = 0;} (not trivially default constructible, trivially destructible: new elements must read 0) and a "
             "type with a trivial default constructor and user-provided copy (not is_trivial: new elements keep the 0xCD paint); "
             "non-trivial = at least 4 operations",
        not_exercised=["rank 0", "reextent of arrays larger than 40 elements"],
        assumptions=["reshape is called with the same element count (its assertion)"],
        extra_checks=extra_checks)
    return res.finish()

"""C01 -- view algebra.  Proof: coq/Properties/Properties_C01.v.  Tie: h_views vs the extracted model."""
import glob
import os

from . import core, viewprog, vmcheck

PID = "C01"


def classify_and_report(res, exe, prog_text, obs_text, impl_text, crashes, pid=PID, check_cursor=True, max_report=4,
                        known_fields=None):
    """Common tail of the view-program checks: diff + monitors + crashes -> shrunk replays."""
    blocks = dict(core.split_cases(prog_text))
    failing = {}
    for cid, ml, il in core.diff_cases(obs_text, impl_text):
        failing.setdefault(cid, ("correspondence", ml, il))
    for cid, what, line in viewprog.monitors(impl_text, viewprog.nroots(obs_text), check_cursor=check_cursor):
        failing.setdefault(cid, ("monitor:" + what, "", line))
    for cid, rc, err in crashes:
        tail = (err.strip().splitlines() or [""])[-1]
        failing[cid] = ("crash", "", "exit/signal %s: %s" % (rc, tail))
    n_reported = 0
    for cid in sorted(failing, key=lambda c: len(blocks.get(c, ""))):
        found_by, ml, il = failing[cid]
        block = blocks.get(cid)
        if block is None:
            continue
        record = {"harness": "h_views", "found_by": found_by.split(":")[0]}
        if known_fields:
            record.update(known_fields(block, found_by, ml, il))
        kf = core.match_known(pid, record)
        if kf:
            res.known_finding(kf)
            continue
        if n_reported >= max_report:
            continue
        n_reported += 1
        small = viewprog.shrink(exe, block) if found_by != "crash" or True else block
        r = viewprog.case_fails(exe, small)
        if not r:
            small, r = block, (found_by, ml, il)
        path = core.write_replay(pid, small, {
            "property": pid, "tier": res.tier, "seed": res.seed, "found-by": r[0],
            "model-said": r[1], "implementation-said": r[2],
            "note": "model = proved equal to the composed documented index maps (Properties_%s.v); "
                    "replay: ./check %s --replay <this file>" % (pid, pid)})
        res.violation(path, "%s: model %r impl %r" % (r[0], r[1], r[2]))
    return len(failing)


def prepare(res, pid, harness="h_views", sources=("h_views.cpp",), flags=(), libs=()):
    """Coq build + audit + driver + harness. Returns (coq, exe) or None after reporting a
    no-failing-input-found violation."""
    coq = core.coq_check_property(pid)
    core.proof_coverage(res, coq)
    ok_d, log_d = core.ensure_driver()
    ok_h, exe, log_h = core.build_harness(harness, list(sources), flags=flags, libs=libs)
    problems = []
    if not ok_d:
        problems.append(("build:model-extraction-or-driver", log_d))
    if not ok_h:
        problems.append(("build:harness-%s-does-not-compile-against-%s" % (harness, core.INCLUDE), log_h))
    if problems:
        for step, log in problems:
            path = core.write_replay(pid, "", {"property": pid, "found-by": step, "log": log[-3000:]})
            res.violation(path, step, no_input=True)
        return None
    if res.tier == "thorough" and coq["ok"]:
        core.coqchk_property(res, pid)
    return coq, exe


def proof_verdict(res, pid, coq, n_failing):
    """A proof obligation that no longer closes and no failing input found -> still a violation."""
    if not coq["ok"] and n_failing == 0:
        path = core.write_replay(pid, "", {"property": pid, "found-by": "proof:Properties_%s.v" % pid,
                                           "log": coq["log"][-3000:],
                                           "obligations": coq["obligations"], "discharged": coq["discharged"]})
        res.violation(path, "proof obligations no longer check", no_input=True)


def run(tier, seed, replay=None):
    res = core.Result(PID, tier, seed, level="proof")
    if not replay:
        from . import receivers
        res.coverage["receiver_probe_operations"] = len(receivers.C01_OPS)
        res.coverage["receiver_probe_failing"] = [op for op, _ in receivers.report(res, PID, receivers.C01_OPS, "const arrays, const-qualified and temporary views")]
    prep = prepare(res, PID)
    if prep is None:
        return res.finish()
    coq, exe = prep
    if replay:
        block = "".join(l for l in open(replay) if not l.startswith("#"))
        r = viewprog.case_fails(exe, block)
        print("replay verdict:", r if r else "agrees (no violation)")
        if r:
            res.violation(os.path.relpath(replay, core.VERIF), str(r))
        return res.finish()
    count = 4000 if tier == "quick" else 80000
    progs, obss, dist = [], [], {}
    # corpus first
    for f in sorted(glob.glob(os.path.join(core.VERIF, "corpus", PID, "*.prog"))):
        block = "".join(l for l in open(f) if not l.startswith("#"))
        progs.append(block)
        obss.append(viewprog.model_run(PID, block))
    n_corpus = sum(len(core.split_cases(p)) for p in progs)
    maxops = 6 if tier == "quick" else 10
    p, o, dist = viewprog.generate(PID, seed, count, extra=["--maxops", str(maxops)])
    progs.append(p)
    obss.append(o)
    n_exh = 0
    if tier == "thorough":
        # exhaustive sub-space: every root of rank <= 3 with extents 0..3, every operation sequence of length <= 2 with all
        # in-domain arguments (the driver enumerates it from the extracted dom_op)
        d = viewprog.workdir(PID)
        px, ox = os.path.join(d, "prog_x.txt"), os.path.join(d, "obs_x.txt")
        rc, out, err = core.sh([os.path.join(core.BIN, "driver"), "views-exhaustive", "--maxrank", "3", "--maxext", "3", "--maxlen", "2",
                                "--prog", px, "--obs", ox], timeout=1800)
        if rc == 0:
            progs.append(open(px).read())
            obss.append(open(ox).read())
            n_exh = len(core.split_cases(progs[-1]))
    prog_text, obs_text = "".join(progs), "".join(obss)
    impl_text, crashes = core.run_harness(exe, prog_text)
    n_failing = classify_and_report(res, exe, prog_text, obs_text, impl_text, crashes)
    proof_verdict(res, PID, coq, n_failing)
    n_vm, vm_bad = vmcheck.run(p, o, 40 if tier == "quick" else 600)
    if vm_bad:
        path = core.write_replay(PID, "", {"property": PID, "found-by": "correspondence:extracted-model-vs-vm_compute",
                                           "log": "\n".join(vm_bad[:10])})
        res.violation(path, "extracted model disagrees with vm_compute", no_input=True)
    n_cases = len(core.split_cases(prog_text))
    samples = [b for _c, b in core.split_cases(p)[:400] if b.count("\nop ") >= 3][:2]
    res.coverage.update({
        "evaluations": n_cases,
        "distinct_nontrivial": viewprog.distinct_nontrivial(prog_text),
        "rule": "random view programs: root rank 1..5 with extents 0..7 (15%% forced 0/1 extents), 0..%d operations drawn "
                "among those whose documented domain (dom_op of the model) holds, probes = all valid index tuples when "
                "<= 12 else both corners + 6 random; a case is non-trivial when it has >= 2 operations; distinct = "
                "by hash of root + operation lines" % maxops,
        "samples": samples,
        "generator_distribution": dist,
        "observation_lines_compared": obs_text.count("\n"),
        "address_probes": obs_text.count("\nP "),
        "corpus_cases": n_corpus,
        "exhaustive_subspace_programs": n_exh,
        "exhaustive_subspace": "rank <= 3, extents 0..3, all operation sequences of length <= 2 with all in-domain arguments "
                               "(thorough tier only; exhaustive for that sub-space, the rest is sampled)" if n_exh else "not run in this tier",
        "cases_reevaluated_inside_coq_by_vm_compute": n_vm,
        "disagreeing_cases": n_failing,
        "not_exercised": ["taked() for D > 1 (does not compile at the pinned commit)", "broadcasted() (no size; lemma only)",
                          "call syntax with more than 3 arguments other than full index tuples"],
    })
    res.assumptions = ["no 64-bit overflow in index arithmetic", "g++ 12 / libstdc++ as installed",
                       "empty roots are array_ref over a 1-element buffer (null-base assertion belongs to C20)"]
    return res.finish()

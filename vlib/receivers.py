"""Compile probe shared by C01 and C19: does every named view operation compile on every kind of receiver (const
arrays, const-qualified views, temporary views, mutable ones)?  harness/c01_receiver_probe.cpp is compiled with
-fsyntax-only once per operation, in parallel, against core.INCLUDE.  Returns [(operation, first error line)]."""
import os
from concurrent.futures import ThreadPoolExecutor

from . import core

C01_OPS = [("sliced(1,3)", False), ("sliced(0,4,2)", False), ("strided(2)", False), ("dropped(1)", False), ("taked(2)", False),
           ("rotated()", False), ("unrotated()", False), ("reversed()", False), ("partitioned(2)", False), ("chunked(2)", False),
           ("halved()", False), ("range({1,3})", False), ("transposed()", True), ("diagonal()", True), ("flatted()", True)]
C19_OPS = [("reindexed(3)", False), ("blocked(1,3)", False), ("stenciled({1,3})", False), ("reindexed(3,4)", True),
           ("stenciled({1,3},{0,2})", True)]
SRC = os.path.join(core.VERIF, "harness", "c01_receiver_probe.cpp")


def _one(item):
    op, ge2 = item
    cmd = ["g++", "-std=c++17", "-fsyntax-only", "-I" + core.INCLUDE, "-DPROBE_OP=" + op] + (["-DONLY_RANK_GE_2"] if ge2 else []) + [SRC]
    rc, out, err = core.sh(cmd, timeout=600)
    if rc == 0:
        return None
    errs = [l for l in (out + err).splitlines() if "error" in l]
    return op, (errs[0] if errs else "compile failed")[:400]


def failing(ops):
    with ThreadPoolExecutor(max_workers=8) as ex:
        return [r for r in ex.map(_one, ops) if r]


def report(res, pid, ops, what):
    """one VIOLATION (or KNOWN-FINDING) per operation that does not compile on some receiver; returns the failures"""
    bad = failing(ops)
    for op, msg in bad:
        name = op.split("(")[0]
        kf = core.match_known(pid, {"harness": "receiver_probe", "found_by": "api-gap", "operation": name})
        if kf:
            res.known_finding(kf)
            continue
        path = core.write_replay(pid, "// compile with: g++ -std=c++17 -fsyntax-only -I<repo>/include '-DPROBE_OP=%s' harness/c01_receiver_probe.cpp\n" % op
                                 + open(SRC).read(),
                                 {"property": pid, "found-by": "build:%s does not compile on some receiver kind (%s)" % (name, what),
                                  "compiler-said": msg})
        res.violation(path, "%s does not compile on every receiver kind: %s" % (name, msg[-200:]))
    return bad

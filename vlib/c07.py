"""C07 -- equality and ordering.  Proof: coq/Properties/Properties_C07.v.
Tie: h_compare (three views of equal rank with independent layouts, all relational operators on views, on
owning copies and mixed) vs the extracted model."""
import re

from . import core, progcheck, rank0

PID = "C07"
C_RE = re.compile(r"^C (\S+) (\w)(\w) view=(\S+) array=(\S+) mixed=(\S+)$")


def empties(text):
    """case id -> set of operand names with a zero extent (owning copies of those collapse: only ==/!= consistency
    is required of them, the property says)"""
    d = {}
    for line in text.splitlines():
        if line.startswith("V "):
            p = line.split()
            sizes = p[3][6:].split(",")
            if "0" in sizes:
                d.setdefault(p[1], set()).add(p[2])
    return d


def normalise(text, emp):
    out = []
    for line in text.splitlines():
        m = C_RE.match(line)
        if m:
            cid, p, q, v, a, mx = m.groups()
            e = emp.get(cid, set())
            if p in e or q in e:
                line = "C %s %s%s view=* array=* mixed=*" % (cid, p, q)
        out.append(line)
    return "\n".join(out) + "\n"


def monitor(impl_text, obs_text):
    """On the library's own output: != is the negation of ==; <= is == or <; > is < with operands swapped;
    at most one of a<b, a==b, b<a (exactly one for non-empty operands); owning copies and mixed comparisons
    give the same answers as the views (non-empty operands); irreflexivity; transitivity over a, b, c."""
    bad = []
    emp = empties(impl_text)
    res = {}
    for line in impl_text.splitlines():
        m = C_RE.match(line)
        if not m:
            continue
        cid, p, q, v, a, mx = m.groups()
        res.setdefault(cid, {})[p + q] = (v, a, mx)
        e0 = emp.get(cid, set())
        some_empty = p in e0 or q in e0
        for name, bits in (("view", v), ("array", a)):
            eq, ne, lt, le, gt = [c == "1" for c in bits[:5]]
            if ne == eq:
                bad.append((cid, "ne-is-not-the-negation-of-eq(%s)" % name, line))
            if some_empty:
                continue          # for empty operands only ==/!= consistency is required (property text)
            if le != (eq or lt):
                bad.append((cid, "le-is-not-eq-or-lt(%s)" % name, line))
            if len(bits) > 5 and bits[5] in "01" and (bits[5] == "1") != (gt or eq):
                bad.append((cid, "ge-is-not-gt-or-eq(%s)" % name, line))
        for k in range(0, len(mx) - 1, 2):
            if mx[k] == mx[k + 1]:
                bad.append((cid, "ne-is-not-the-negation-of-eq(mixed %d: array / double / const-pointer view / cref)" % (k // 2), line))
        e = emp.get(cid, set())
        if p not in e and q not in e and (a != v[:5] or mx[:8] != v[:2] * (len(mx[:8]) // 2)):
            bad.append((cid, "ownership-kind-changes-the-answer", line))
        if p not in e and q not in e and len(mx) >= 12 and mx[8:12] != "0101":
            bad.append((cid, "equal-to-an-operand-whose-elements-are-not-representable (b + 0.5 in double)", line))
    for cid, r in res.items():
        e = emp.get(cid, set())
        for p, q in (("a", "b"), ("a", "c"), ("b", "c")):
            if p + q not in r or q + p not in r or p in e or q in e:
                continue
            v1, v2 = r[p + q][0], r[q + p][0]
            lt, eq, gt_ = v1[2] == "1", v1[0] == "1", v2[2] == "1"
            if (v1[4] == "1") != gt_:
                bad.append((cid, "gt-is-not-lt-swapped", "%s%s %s / %s" % (p, q, v1, v2)))
            if (v1[0] == "1") != (v2[0] == "1"):
                bad.append((cid, "eq-not-symmetric", "%s%s %s / %s" % (p, q, v1, v2)))
            n = lt + eq + gt_
            if n > 1 or (n != 1 and p not in e and q not in e):
                bad.append((cid, "trichotomy", "%s%s %s / %s" % (p, q, v1, v2)))
        if "aa" in r and "a" not in e and (r["aa"][0][2] == "1" or r["aa"][0][0] != "1"):
            bad.append((cid, "irreflexivity", r["aa"][0]))
        if all(k in r for k in ("ab", "bc", "ac")) and not e:
            if r["ab"][0][2] == "1" and r["bc"][0][2] == "1" and r["ac"][0][2] != "1":
                bad.append((cid, "lt-not-transitive", "%s %s %s" % (r["ab"][0], r["bc"][0], r["ac"][0])))
            if not e and r["ab"][0][0] == "1" and r["bc"][0][0] == "1" and r["ac"][0][0] != "1":
                bad.append((cid, "eq-not-transitive", "%s %s %s" % (r["ab"][0], r["bc"][0], r["ac"][0])))
    return bad


# --------------------------------------------------------------------------------------------
# element types whose == is not the identity on storage (NaN, element_transformed through function pointers):
# harness/c07_elemeq.cpp vs Model/CompareBy.v eq_flat_by, evaluated inside Coq (vm_compute)
# --------------------------------------------------------------------------------------------
E_RE = re.compile(r"^E (\d+) (\S+) \| ([^|]*) \| ([^|]*) \|([^|]*)\|([^|]*)\| ([01]) ([01])$")


def _coq_exts(txt):
    return "[" + "; ".join("(%s, %s)" % tuple(p.split(":")) for p in txt.strip().split(",") if p) + "]"


def _coq_list(txt):
    return "[" + "; ".join(("(%s)" % t) if t.startswith("-") else t for t in txt.split()) + "]"


def elemeq_is_replay(path):
    try:
        return "found-by: elemeq" in open(path).read()
    except OSError:
        return False


def elemeq(res, tier, seed):
    """Returns the coverage record; reports violations itself."""
    import os
    ok, exe, log = core.build_harness("c07_elemeq", ["c07_elemeq.cpp"])
    src = open(os.path.join(core.VERIF, "harness", "c07_elemeq.cpp")).read()
    if not ok:
        first = [l for l in log.splitlines() if "error" in l][:1]
        path = core.write_replay(PID, src, {"property": PID, "found-by": "elemeq build: ==/!= between same-type views of double / element_transformed arrays does not compile",
                                            "compiler-said": first[0] if first else ""})
        res.violation(path, "c07_elemeq.cpp does not compile against the tree (%s)" % (first[0][-160:] if first else "see replay"))
        return {"built": False}
    seeds = [seed] if tier == "quick" else [seed + k for k in range(12)]
    total, kinds, nan_cases, same_base_unequal, failing = 0, {}, 0, 0, 0
    for sd in seeds:
        rc, out, err = core.sh([exe, str(sd)], timeout=300)
        lines = [l for l in out.splitlines() if l.startswith("E ")]
        cases = []
        for l in lines:
            m = E_RE.match(l)
            if not m:
                rc = rc or 99
                continue
            cases.append((int(m.group(1)), m.group(2), m.group(3), m.group(4), m.group(5), m.group(6), m.group(7), m.group(8), l))
        if rc != 0 or not cases:
            path = core.write_replay(PID, "\n".join(lines[-3:]) + "\n" + err[-1500:] + "\n",
                                     {"property": PID, "found-by": "elemeq run: the comparison program stops (exit %d) after the last line below" % rc,
                                      "seed": sd, "how-to-replay": "./check C07 --replay <this file> (re-runs harness/c07_elemeq.cpp with the seed)"})
            res.violation(path, "c07_elemeq stops with exit %d (assertion / crash) on comparisons inside the documented domain: %s" % (rc, err.strip()[-200:]))
            failing += 1
            continue
        total += len(cases)
        for c in cases:
            k = c[1].split(":", 1)[1] if ":" in c[1] else c[1]
            kinds[k] = kinds.get(k, 0) + 1
            if "999" in c[4].split() or "999" in c[5].split():
                nan_cases += 1
        body = ";\n  ".join("(%d, (%s, %s, %s, %s, %s, %s))" % (c[0], _coq_exts(c[2]), _coq_exts(c[3]), _coq_list(c[4]), _coq_list(c[5]),
                                                                "true" if c[6] == "1" else "false", "true" if c[7] == "1" else "false") for c in cases)
        vtxt = ("From Coq Require Import ZArith List Bool.\nFrom BM Require Import Model.Layout Model.CompareBy.\nImport ListNotations.\nLocal Open Scope Z_scope.\n"
                "Definition cases : list (Z * (list range * list range * list Z * list Z * bool * bool)) :=\n  [" + body + "].\n"
                "Definition bad (c : Z * (list range * list range * list Z * list Z * bool * bool)) : bool :=\n"
                "  let '(_, (xa, xb, fa, fb, oeq, one)) := c in let m := eq_flat_by (nan_eqb 999) xa xb fa fb in\n"
                "  negb (Bool.eqb m oeq) || negb (Bool.eqb (negb m) one).\n"
                "Eval vm_compute in (map fst (filter bad cases)).\n")
        d = os.path.join(core.BUILD, "c07_elemeq")
        os.makedirs(d, exist_ok=True)
        vp = os.path.join(d, "cases_%d.v" % sd)
        open(vp, "w").write(vtxt)
        rc2, out2, err2 = core.sh(["coqc", "-Q", core.COQ, "BM", vp], timeout=900, cwd=d)
        flat = " ".join(out2.split())
        m = re.search(r"= \[(.*?)\] : list Z", flat)
        if rc2 != 0 or not m:
            path = core.write_replay(PID, vtxt[:4000], {"property": PID, "found-by": "elemeq: the model side (Model/CompareBy.v eq_flat_by under vm_compute) does not evaluate",
                                                       "coqc-said": (out2 + err2)[-600:]})
            res.violation(path, "Model/CompareBy.v could not be evaluated on the comparison cases", no_input=True)
            failing += 1
            continue
        ids = [int(t.replace("%Z", "")) for t in m.group(1).replace(";", " ").split()]
        if ids:
            failing += len(ids)
            byid = {c[0]: c for c in cases}
            shown = [byid[i][8] for i in ids[:40]]
            path = core.write_replay(PID, "\n".join(shown) + "\n",
                                     {"property": PID, "found-by": "elemeq: library's == / != differ from Model/CompareBy.v eq_flat_by (element-by-element comparison with the element type's own ==; 999 = NaN)",
                                      "seed": sd, "disagreeing-comparisons": len(ids),
                                      "line-format": "E id what | extensions of a | extensions of b | elements of a | elements of b | observed a==b, a!=b",
                                      "how-to-replay": "./check C07 --replay <this file> (re-runs harness/c07_elemeq.cpp with the seed and the Coq evaluation)"})
            res.violation(path, "%d comparisons between views whose element == is not the identity on storage (NaN / element_transformed) are wrong, first: %s" % (len(ids), shown[0][:200]))
    return {"built": True, "seeds": seeds, "comparisons": total, "comparisons_with_a_nan": nan_cases, "by_operand_pair_kind": kinds, "disagreeing": failing,
            "rule": "double arrays of rank 1..3 (sizes 0..4, 1..3 x 1..3, 2x2x2) with no NaN and with one NaN at every position; each compared with itself as array, "
                    "view, const view, transposed / rotated / sliced / strided / reversed view, row, column, diagonal, elements() range, with views of the SAME storage "
                    "that share the base pointer and the extensions but not the strides (A() vs A.transposed() of square arrays, row 0 vs column 0), and with an owning "
                    "copy; and pairs of element_transformed views of one int array (rank 1, 2; rows; transposed; from const and mutable arrays) through function pointers of "
                    "one static type (16 pairs of 4 functions): same base pointer, same layout, same type, different elements.  Expected answers: Model/CompareBy.v "
                    "eq_flat_by (nan_eqb 999) evaluated by vm_compute on the extensions and element codes the harness printed"}


class Fam(progcheck.Family):
    def impl_run(self, prog_text, shards=None):
        out, crashes = super().impl_run(prog_text, shards)
        self.raw = out
        return normalise(out, empties(out)), crashes

    def model_run(self, prog_text):
        out = super().model_run(prog_text)
        return normalise(out, empties(out))


FAMILY = Fam(PID, "compare", "compare-run", "h_compare", ["h_compare.cpp"], body_prefixes=("xop ",))
# (xshare / xroot / xdata lines are structural: the shrinker only drops xop lines)
FAMILY.monitor = lambda impl, obs: monitor(getattr(FAMILY, "raw", impl), obs)


def ge_probe():
    """does `a() >= b()` compile for 2-D arrays?"""
    import os
    rc, out, err = core.sh(["g++", "-std=c++17", "-fsyntax-only", "-I" + core.INCLUDE,
                            os.path.join(core.VERIF, "harness", "c07_ge_probe.cpp")], timeout=300)
    return rc == 0


def rank0_probe():
    """do == / != compile between rank-0 arrays?  (the property's quantifier starts at dimensionality 0)"""
    import os
    rc, out, err = core.sh(["g++", "-std=c++17", "-fsyntax-only", "-I" + core.INCLUDE,
                            os.path.join(core.VERIF, "harness", "c07_rank0_probe.cpp")], timeout=300)
    return rc == 0, (out + err)


def configure(fam):
    """compile-time switches of h_compare for the tree under test (used by C19 too); no reporting"""
    import os
    has_ge = ge_probe()
    has_rank0, _log = rank0_probe()
    flags = (["-DC07_HAS_RANK0"] if has_rank0 else []) + (["-DC07_HAS_GE"] if has_ge else [])
    if has_ge:
        os.environ["C07_HAS_GE"] = "1"
    fam.flags = tuple(flags)
    return has_ge, has_rank0


def run(tier, seed, replay=None):
    import os
    res = core.Result(PID, tier, seed, level="proof")
    if replay and rank0.is_rank0_replay(replay):
        rank0.replay(res, PID, replay)
        return res.finish()
    if replay and elemeq_is_replay(replay):
        m = re.search(r"^# seed: (\d+)", open(replay).read(), re.M)
        core.coq_make(["Model/CompareBy.vo"])
        print("replay verdict:", elemeq(res, "quick", int(m.group(1)) if m else seed))
        return res.finish()
    fam = FAMILY
    has_ge = ge_probe()
    has_rank0, rank0_log = rank0_probe()
    flags = []
    if has_rank0:
        flags.append("-DC07_HAS_RANK0")
    else:
        kf = core.match_known(PID, {"harness": "h_compare", "found_by": "api-gap", "operator": "eq", "rank": "0"})
        if kf:
            res.known_finding(kf)
        else:
            first = [l for l in rank0_log.splitlines() if "error" in l][:1]
            path = core.write_replay(PID, open(os.path.join(core.VERIF, "harness", "c07_rank0_probe.cpp")).read(),
                                     {"property": PID, "found-by": "build:== between rank-0 arrays does not compile",
                                      "compiler-said": first[0] if first else ""})
            res.violation(path, "array<T,0> == array<T,0> does not compile (%s)" % (first[0][-160:] if first else "see replay"))
    if has_ge:
        flags.append("-DC07_HAS_GE")
        os.environ["C07_HAS_GE"] = "1"
    fam.flags = tuple(flags)
    if not has_ge:
        kf = core.match_known(PID, {"harness": "h_compare", "found_by": "api-gap", "operator": "ge", "rank": ">=2"})
        if kf:
            res.known_finding(kf)
        else:
            path = core.write_replay(PID, open(os.path.join(core.VERIF, "harness", "c07_ge_probe.cpp")).read(),
                                     {"property": PID, "found-by": "build:operator>= missing for rank >= 2"})
            res.violation(path, "operator>= does not compile for rank >= 2")
    coq = fam.prepare(res)
    if coq is None:
        return res.finish()
    if replay:
        fam.replay(res, replay)
        return res.finish()
    count = 4000 if tier == "quick" else 80000
    prog_c = fam.corpus()
    obs_c = fam.model_run(prog_c) if prog_c else ""
    prog_g, obs_g, dist = fam.generate(seed, count, prefix="c", extra=(["--has-ge"] if has_ge else []) + (["--rank0"] if has_rank0 else []) + ["--alias"])
    obs_g = normalise(obs_g, empties(obs_g))
    prog_text, obs_text = prog_c + prog_g, obs_c + obs_g
    impl_text, crashes = fam.impl_run(prog_text)
    n_failing = fam.classify(res, prog_text, obs_text, impl_text, crashes)
    fam.proof_verdict(res, coq, n_failing)
    res.coverage.update({
        "evaluations": len(core.split_cases(prog_text)),
        "distinct_nontrivial": progcheck.distinct_nontrivial(prog_text, min_lines=6, prefixes=("xroot", "xop ", "xdata")),
        "rule": "three logical arrays a, b, c of equal rank 1..4 (and rank 0 -- scalars held by array_ref<int,0>, array<int,0>, array<double,0>, const and cref kinds -- in 4% of the cases) over the alphabet {0,1,2}: b's extents equal a's (55%) or differ "
                "by one in one dimension, contents copied on the common index tuples then changed in at most one place (so equal "
                "operands and equal prefixes are common), c likewise from b or a; each realised as a view over its own padded / "
                "rotated / stride-2 root filled with junk elsewhere; all of == != < <= > (>= for rank 1) on the views, on owning "
                "copies and == != mixed, for the pairs ab ba ac ca bc cb aa; for operands with a zero extent the owning copies "
                "collapse and only ==/!= consistency is checked (property text); non-trivial = at least 6 program lines",
        "samples": progcheck.samples(prog_text, n=1, min_lines=8),
        "generator_distribution": dist,
        "observation_lines_compared": obs_text.count("\n"),
        "corpus_cases": len(core.split_cases(prog_c)),
        "disagreeing_cases": n_failing,
        "not_exercised": ["rank >= 5", "fancy pointers (C11)"],
    })
    res.coverage["element_equality_not_identity"] = elemeq(res, tier, seed)
    res.assumptions = ["no 64-bit overflow", "g++ 12 / libstdc++ as installed", "element order is that of int"]
    rank0.run_family(res, tier, seed, PID)     # dimensionality 0: compile probes + h_rank0 (coverage under "rank0")
    return res.finish()

"""C18 -- MPI messages built from a view denote exactly its elements in canonical order.
Proof: coq/Properties/Properties_C18.v (Model/Mpi*.v, Proofs/Mpi*.v, Proofs/C18Main.v).
Tie: harness/h_mpi_c18.cpp + harness/pmpi_c18.cpp (PMPI layer) under a singleton MPI_Init, against
the extracted model (coq/Extract/ExtractC18.v, ocaml/c18_*.ml)."""
import glob
import hashlib
import json
import os
import re
import tempfile

from . import core

PID = "C18"
HARNESS = "h_mpi_c18"
MPI_ENV = {
    "OMPI_ALLOW_RUN_AS_ROOT": "1",
    "OMPI_ALLOW_RUN_AS_ROOT_CONFIRM": "1",
    "OMPI_MCA_btl": "self",                  # singleton: no network transports to probe
    "OMPI_MCA_rmaps_base_oversubscribe": "1",
    "OMPI_MCA_mpi_yield_when_idle": "1",
}
ELEM_SIZE = {"int": 4, "float": 4, "double": 8}
DRIVER = os.path.join(core.BIN, "driver_c18")


def workdir():
    d = os.path.join(core.BUILD, "work", PID)
    os.makedirs(d, exist_ok=True)
    return d


# ------------------------------------------------------------------------------------------------
# model side
# ------------------------------------------------------------------------------------------------
def generate(seed, count, maxops, prefix="m"):
    d = workdir()
    prog, obs = os.path.join(d, "prog_%s.txt" % prefix), os.path.join(d, "obs_%s.txt" % prefix)
    rc, out, err = core.sh([DRIVER, "gen", "--seed", str(seed), "--count", str(count), "--prog", prog, "--obs", obs,
                            "--maxops", str(maxops), "--prefix", prefix], timeout=1500)
    if rc != 0:
        raise RuntimeError("driver_c18 gen failed: " + err[-2000:])
    try:
        dist = json.loads(out.strip().splitlines()[-1])
    except Exception:
        dist = {}
    return open(prog).read(), open(obs).read(), dist


def model_run(prog_text):
    d = workdir()
    fd, p = tempfile.mkstemp(dir=d, suffix=".prog")
    os.write(fd, prog_text.encode())
    os.close(fd)
    o = p + ".obs"
    rc, out, err = core.sh([DRIVER, "run", "--prog", p, "--obs", o], timeout=300)
    txt = open(o).read() if os.path.exists(o) else ""
    for f in (p, o):
        try:
            os.remove(f)
        except OSError:
            pass
    if rc != 0:
        raise RuntimeError("driver_c18 run failed: " + err[-2000:])
    return txt


# ------------------------------------------------------------------------------------------------
# direct property monitors on the implementation's own output (independent of the model)
# ------------------------------------------------------------------------------------------------
def ints(tok):
    return [] if tok == "-" else [int(x) for x in tok.split(",")]


def case_header(block):
    h = {"elem": "int", "smode": "message", "rmode": "message"}
    for ln in block.splitlines():
        w = ln.split()
        if len(w) == 2 and w[0] in h:
            h[w[0]] = w[1]
    return h


EV_RE = re.compile(r"^(\w+)\(([^)]*)\)$")


def ledger_check(events):
    """The ledger of Model/MpiLedger.v re-run on the real PMPI trace: every created handle is fresh, every
    constructor argument is predefined or live, communication only with committed types, free only of
    live handles, nothing live at the end.  Returns None or a description of the first problem."""
    if events == "-":
        return "no datatype events at all"
    live, seen = {}, set()
    for e in events.split(";"):
        m = EV_RE.match(e)
        if not m:
            return "unparsable event %r" % e
        kind, args = m.group(1), m.group(2).split(",")
        if kind == "other":
            return "datatype constructor outside the modelled set: %s" % e
        a = [int(x) for x in args]
        if kind in ("hv", "vc", "rs", "dp"):
            new = a[0]
            old = a[4] if kind in ("hv", "vc") else a[1]
            if new in seen or new <= 0:
                return "handle %d created twice" % new
            if old != 0 and old not in live:
                return "%s: constructor argument %d is neither predefined nor live" % (e, old)
            seen.add(new)
            live[new] = False
        elif kind == "cm":
            if a[0] not in live:
                return "commit of a handle that is not live: %s" % e
            live[a[0]] = True
        elif kind == "fr":
            if a[0] not in live:
                return "free of a handle that is not live (double free / never created / null): %s" % e
            del live[a[0]]
        elif kind == "us":
            if a[0] != 0 and not live.get(a[0], False):
                return "communication with a datatype that is not live and committed: %s" % e
        else:
            return "unknown event %r" % e
    if live:
        return "leaked datatype handle(s) %s" % sorted(live)
    return None


def monitors(impl_text, blocks, notes=None):
    """-> list of (case id, what, detail); observations that are outside the statement go to `notes`"""
    bad = []
    for cid, lines in core.by_case(impl_text).items():
        if cid not in blocks:
            continue
        try:
            _monitor_case(cid, lines, blocks[cid], bad, notes)
        except (ValueError, IndexError, KeyError) as ex:
            # a mutated library can make MPI_Unpack scribble over the heap, including the output buffer
            bad.append((cid, "harness-output-corrupted", repr(ex)[:200]))
    return bad


def _monitor_case(cid, lines, block, bad, notes):
    hd = case_header(block)
    esz = ELEM_SIZE.get(hd["elem"], 4)
    d = {}
    for ln in lines:
        w = ln.split()
        if w[0] in ("F", "I", "T", "C", "X", "L") and len(w) >= 4:
            d[(w[0], w[2])] = w[3:]
        elif w[0] == "K":
            d["K"] = w[3:]
        elif w[0] == "V":
            d["V"] = w[3:]
        elif w[0] == "U":
            d["U"] = w[2:]
        elif w[0] == "G":
            d["G"] = w[2:]
        elif w[0] == "Z":
            bad.append((cid, "harness-unsupported", ln))
    need = [("F", "s"), ("I", "s"), ("F", "r"), ("I", "r"), "K", "V", "U", "G", ("L", "s"), ("L", "r")]
    if any(k not in d for k in need):
        return  # incomplete output is reported by the diff / crash path
    fs, i_s, fr, ir = ints(d[("F", "s")][0]), ints(d[("I", "s")][0]), ints(d[("F", "r")][0]), ints(d[("I", "r")][0])
    k = ints(d["K"][0])
    pos = int(d["K"][1].split("=")[1])
    v = ints(d["V"][0])
    u = ints(d["U"][0])
    # elements() agrees with indexing (roots hold value == address)
    if fs != i_s:
        bad.append((cid, "elements-differ-from-indexing", "F=%s I=%s" % (fs[:12], i_s[:12])))
    # MPI_Pack of (buffer, count, datatype) == the elements() sequence: no more, no fewer, in order
    if hd["smode"] != "data" and k != fs:
        bad.append((cid, "packed-differs-from-elements", "packed=%s elements=%s" % (k[:16], fs[:16])))
    if hd["smode"] == "data" and k != fs and notes is not None:
        # outside the statement of C18 (message(elements())): recorded, see notes/REPORT_C18.md section 6
        notes.append((cid, "data-iterator-stride-ignored", "packed=%s elements=%s" % (k[:8], fs[:8])))
    if pos != len(k) * esz or pos != (len(fs) * esz if hd["smode"] != "data" else pos):
        bad.append((cid, "packed-byte-count", "pos=%d elements=%d size=%d" % (pos, len(fs), esz)))
    # receive side: k-th packed element is now the k-th element of the receive view
    if v != k:
        bad.append((cid, "unpacked-kth-element-differs", "received=%s packed=%s" % (v[:16], k[:16])))
    if len(set(ir)) != len(ir):
        bad.append((cid, "receive-view-addresses-overlap", str(ir[:16])))
    if fr != [-a - 1 for a in ir]:
        bad.append((cid, "receive-elements-differ-from-indexing", "F=%s I=%s" % (fr[:12], ir[:12])))
    # nothing outside the receive view's footprint changed
    where = {a: j for j, a in enumerate(ir)}
    if len(k) == len(ir):
        for a, val in enumerate(u):
            exp = k[where[a]] if a in where else -a - 1
            if val != exp:
                bad.append((cid, "receive-root-cell-wrong" if a in where else "write-outside-receive-view",
                            "address %d holds %d expected %d" % (a, val, exp)))
                break
    else:
        bad.append((cid, "element-count-mismatch", "packed %d receive view %d" % (len(k), len(ir))))
    if d["G"] != ["send=1", "recv=1"]:
        bad.append((cid, "guard-zone-overwritten", " ".join(d["G"])))
    for side in ("s", "r"):
        prob = ledger_check(d[("L", side)][0])
        if prob:
            bad.append((cid, "datatype-ledger", "side %s: %s" % (side, prob)))


# ------------------------------------------------------------------------------------------------
# one case: does it (still) fail?  shrinking
# ------------------------------------------------------------------------------------------------
def impl_run(exe, prog_text):
    return core.run_harness(exe, prog_text, env=MPI_ENV, shards=1, timeout=45)


def case_fails(exe, block):
    mtxt = model_run(block)
    if re.search(r"^X \S+ (out-of-domain|count-mismatch)", mtxt, re.M):
        return None
    itxt, crashes = impl_run(exe, block)
    if crashes:
        tail = (crashes[0][2].strip().splitlines() or [""])[-1]
        return ("crash", "", "signal/exit %s: %s" % (crashes[0][1], tail))
    dd = core.diff_cases(mtxt, itxt)
    if dd:
        return ("correspondence", dd[0][1], dd[0][2])
    blocks = dict(core.split_cases(block))
    mon = monitors(itxt, blocks)
    if mon:
        return ("monitor:" + mon[0][1], "", mon[0][2])
    return False


def shrink(exe, block, budget=40):
    """Greedy: simplify modes and element type, then drop view operations (a candidate whose two views no
    longer have the same number of elements is rejected by the model run)."""
    lines = block.strip().splitlines()
    tries = 0

    def attempt(cand):
        nonlocal tries
        tries += 1
        return case_fails(exe, "\n".join(cand) + "\n")

    for key, val in (("elem", "int"), ("rmode", "message"), ("smode", "message")):
        cand = [("%s %s" % (key, val)) if ln.startswith(key + " ") else ln for ln in lines]
        if cand != lines and tries < budget and attempt(cand):
            lines = cand
    changed = True
    while changed and tries < budget:
        changed = False
        for k in range(len(lines) - 1, -1, -1):
            if lines[k].startswith(("sop ", "rop ")):
                cand = lines[:k] + lines[k + 1:]
                if tries >= budget:
                    break
                if attempt(cand):
                    lines, changed = cand, True
                    break
    return "\n".join(lines) + "\n"


def nontrivial(block):
    """both views have >= 2 elements is not visible in the text; the textual rule: at least one view
    operation on each side, or a mode other than plain message."""
    ops_s = block.count("\nsop ")
    ops_r = block.count("\nrop ")
    return ops_s >= 1 and ops_r >= 1


def distinct_nontrivial(prog_text):
    seen = set()
    for _cid, block in core.split_cases(prog_text):
        if nontrivial(block):
            body = "\n".join(block.splitlines()[1:])
            seen.add(hashlib.sha256(body.encode()).hexdigest())
    return len(seen)


# ------------------------------------------------------------------------------------------------
# thorough tier: the extracted model + OCaml number conversion against vm_compute inside coqc
# ------------------------------------------------------------------------------------------------
MODE_COQ = {"message": "MMessage", "skeleton": "MSkeleton", "move": "MMove", "release": "MRelease",
            "subarray": "MSubarray", "aux": "MAux", "data": "MData"}


def coq_op(words):
    k = words[0]
    a = words[1:]
    z = lambda s: "(%s)" % s
    if k == "index":
        return "OIndex %s" % z(a[0])
    if k == "sliced":
        return "OSliced %s %s" % (z(a[0]), z(a[1]))
    if k == "sliceds":
        return "OSlicedS %s %s %s" % (z(a[0]), z(a[1]), z(a[2]))
    if k in ("strided", "dropped", "taked", "partitioned", "chunked"):
        return "O%s %s" % (k.capitalize(), z(a[0]))
    if k in ("rotated", "unrotated", "transposed", "reversed", "diagonal", "halved", "flatted"):
        return "O" + k.capitalize()
    if k == "paren":
        args, rest = [], a[1:]
        while rest:
            if rest[0] == "i":
                args.append("PIdx %s" % z(rest[1]))
                rest = rest[2:]
            elif rest[0] == "r":
                args.append("PRange %s %s" % (z(rest[1]), z(rest[2])))
                rest = rest[3:]
            else:
                args.append("PAll")
                rest = rest[1:]
        return "OParen [%s]" % "; ".join(args)
    raise ValueError("op " + k)


def vm_crosscheck(prog_text, obs_text, limit=80):
    """Re-evaluates the send side of the first `limit` small cases with vm_compute in coqc and compares the
    packed element addresses, the elements() addresses and the ledger verdict with the extracted run.
    Returns (n_checked, list of disagreements)."""
    obs = core.by_case(obs_text)
    items = []
    for cid, block in core.split_cases(prog_text):
        if len(items) >= limit:
            break
        hd = case_header(block)
        exts, ops = None, []
        for ln in block.splitlines():
            w = ln.split()
            if w and w[0] == "sroot":
                exts = [int(x) for x in w[3::2]]
            elif w and w[0] == "sop":
                ops.append(coq_op(w[1:]))
        lines = {l.split()[0] + l.split()[2]: l.split() for l in obs.get(cid, []) if len(l.split()) >= 4 and l.split()[0] in "FIK"}
        if exts is None or "Ks" not in lines or len(ints(lines["Ks"][3])) > 64:
            continue
        items.append((cid, hd, exts, ops, lines))
    if not items:
        return 0, []
    path = os.path.join(core.BUILD, "cases_C18.v")
    with open(path, "w") as f:
        f.write("From Coq Require Import ZArith List.\nFrom BM Require Import Model.Layout Model.View Model.MpiTypes "
                "Model.MpiSkeleton Model.MpiLedger Model.MpiRun.\nImport ListNotations.\nLocal Open Scope Z_scope.\n"
                "Definition run (m : mode) (exts : list Z) (ops : list op) (S : Z) :=\n"
                "  match run_ops ops (root_view (map (fun n => (0, n)) exts)) with\n"
                "  | Some v => (map (fun b => Z.quot b S) (msg_byte_addrs m v S), flat_addrs v, index_addrs v,\n"
                "               ledger_balanced (trace_of m (lay v) S))\n"
                "  | None => ([], [], [], false) end.\n")
        for cid, hd, exts, ops, _ in items:
            f.write("Eval vm_compute in (run %s [%s] [%s] %d).\n" % (
                MODE_COQ[hd["smode"]], "; ".join(str(e) for e in exts), "; ".join(ops), ELEM_SIZE[hd["elem"]]))
    rc, out, err = core.sh(["coqc", "-Q", core.COQ, "BM", path], cwd=core.BUILD, timeout=900)
    if rc != 0:
        return 0, [("<coqc>", "vm_compute file does not compile", (out + err)[-800:])]
    chunks = [c for c in re.split(r"^\s*= ", out, flags=re.M)[1:]]
    bad = []
    if len(chunks) != len(items):
        return 0, [("<coqc>", "expected %d results" % len(items), "got %d" % len(chunks))]
    for (cid, hd, exts, ops, lines), chunk in zip(items, chunks):
        body = chunk.split("\n     : ")[0]
        lists = [[int(x) for x in g.replace("\n", " ").split(";") if x.strip()] for g in re.findall(r"\[([^\]]*)\]", body)]
        verdict = body.strip().rstrip(")").strip().endswith("true")
        if len(lists) != 3:
            bad.append((cid, "unparsable vm_compute result", body[:200]))
            continue
        exp = [ints(lines["Ks"][3]), ints(lines["Fs"][3]), ints(lines["Is"][3])]
        if lists != exp or not verdict:
            bad.append((cid, "extracted model %s" % exp, "vm_compute %s balanced=%s" % (lists, verdict)))
    return len(items), bad


# ------------------------------------------------------------------------------------------------
def prepare(res):
    coq = core.coq_check_property(PID)
    core.proof_coverage(res, coq)
    res.coverage["trusted_base"] = [t.replace("g++ -std=c++17 -O1", "mpicxx (g++ 12) -std=c++17 -O1") for t in res.coverage["trusted_base"]] + [
        "MPI-3.1 section 4.1/4.2 semantics of vector/hvector/resized/dup type maps, extents, messages, pack/unpack: "
        "DEFINITIONS in coq/Model/MpiTypes.v (trusted reading of the standard), compared on every run with Open MPI 4.1.4 "
        "(MPI_Pack bytes, MPI_Type_get_extent/true_extent/size, get_envelope/get_contents)",
        "PMPI profiling layer harness/pmpi_c18.cpp (logs create/commit/free/pack/unpack, renumbers handles in creation order)",
    ]
    ok_d, log_d = core.ensure_driver_for("c18", "ExtractC18.v", ["c18_util.ml", "c18_gen.ml", "c18_driver.ml"],
                                         "driver_c18", model_base="modelc18")
    ok_h, exe, log_h = core.build_harness(HARNESS, ["h_mpi_c18.cpp", "pmpi_c18.cpp"], flags=["-DBM_MAXD=5"], cxx="mpicxx")
    problems = []
    if not ok_d:
        problems.append(("build:model-extraction-or-driver_c18", log_d))
    if not ok_h:
        problems.append(("build:harness-%s-does-not-compile-against-%s" % (HARNESS, core.INCLUDE), log_h))
    for step, log in problems:
        path = core.write_replay(PID, "", {"property": PID, "found-by": step, "log": log[-3000:]})
        res.violation(path, step, no_input=True)
    if problems:
        return None
    return coq, exe


def report(res, exe, prog_text, obs_text, impl_text, crashes, max_report=4):
    blocks = dict(core.split_cases(prog_text))
    failing = {}
    for cid, ml, il in core.diff_cases(obs_text, impl_text):
        failing.setdefault(cid, ("correspondence", ml, il))
    notes = []
    for cid, what, detail in monitors(impl_text, blocks, notes):
        failing.setdefault(cid, ("monitor:" + what, "", detail))
    res.coverage["data_iterator_stride_ignored_cases"] = len(notes)
    if notes:
        res.coverage["data_iterator_stride_ignored_sample"] = "%s: %s" % (notes[0][0], notes[0][2])
        kf = core.match_known(PID, {"harness": HARNESS, "found_by": "monitor:data-iterator-stride-ignored", "smode": "data"})
        if kf:
            res.known_finding(kf)
    for cid, rc, err in crashes:
        tail = (err.strip().splitlines() or [""])[-1]
        failing[cid] = ("crash", "", "exit/signal %s: %s" % (rc, tail))
    n_reported = 0
    for cid in sorted(failing, key=lambda c: len(blocks.get(c, ""))):
        found_by, ml, il = failing[cid]
        block = blocks.get(cid)
        if block is None:
            continue
        hd = case_header(block)
        record = {"harness": HARNESS, "found_by": found_by, "smode": hd["smode"], "rmode": hd["rmode"],
                  "observable": (ml or il).split(" ")[0] if (ml or il) else ""}
        kf = core.match_known(PID, record)
        if kf:
            res.known_finding(kf)
            continue
        if n_reported >= max_report:
            continue
        n_reported += 1
        small = shrink(exe, block)
        r = case_fails(exe, small)
        if not r:
            small, r = block, (found_by, ml, il)
        path = core.write_replay(PID, small, {
            "property": PID, "tier": res.tier, "seed": res.seed, "found-by": r[0],
            "model-said": r[1], "implementation-said": r[2],
            "note": "model = proved to denote the view's elements in canonical order (Properties_C18.v); "
                    "replay: ./check C18 --replay <this file>"})
        res.violation(path, "%s: model %r impl %r" % (r[0], r[1], r[2]))
    return len(failing)


def thorough_extras(res, prog_text, obs_text):
    """(a) vm_compute inside coqc against the extracted run; (b) the same cases on a harness built with
    -fsanitize=address,undefined (first 4000 cases)."""
    n_bad = 0
    n_vm, bad = vm_crosscheck(prog_text, obs_text)
    res.coverage["vm_compute_crosschecked_cases"] = n_vm
    for cid, a, b in bad[:2]:
        path = core.write_replay(PID, dict(core.split_cases(prog_text)).get(cid, ""),
                                 {"property": PID, "found-by": "extraction-vs-vm_compute", "extracted": a, "vm_compute": b})
        res.violation(path, "extracted model and vm_compute disagree", no_input=True)
        n_bad += 1
    ok, exe_san, log = core.build_harness(HARNESS, ["h_mpi_c18.cpp", "pmpi_c18.cpp"],
                                          flags=["-DBM_MAXD=5", "-g", "-fsanitize=address,undefined",
                                                 "-fno-sanitize-recover=all"], cxx="mpicxx", tag="-san")
    if not ok:
        res.coverage["sanitizer_pass"] = "sanitizer build failed: " + log[-300:]
        return n_bad
    cases = core.split_cases(prog_text)[:4000]
    sub = "".join(b for _c, b in cases)
    env = dict(MPI_ENV, ASAN_OPTIONS="detect_leaks=0:abort_on_error=0:exitcode=99", UBSAN_OPTIONS="print_stacktrace=0")
    itxt, crashes = core.run_harness(exe_san, sub, env=env, timeout=1500)
    ids = set(c for c, _b in cases)
    mobs = "".join(l + "\n" for l in obs_text.splitlines() if len(l.split()) >= 2 and l.split()[1] in ids)
    dd = core.diff_cases(mobs, itxt)
    res.coverage["sanitizer_pass"] = "%d cases under ASan+UBSan, %d crashes, %d differences" % (len(cases), len(crashes), len(dd))
    blocks = dict(cases)
    for cid, rc, err in crashes[:2]:
        tail = [l for l in err.splitlines() if "ERROR" in l or "runtime error" in l][:1] or [err.strip().splitlines()[-1:] or ""]
        path = core.write_replay(PID, blocks.get(cid, ""), {"property": PID, "found-by": "sanitizer", "log": str(tail)})
        res.violation(path, "sanitizer: %s" % tail)
        n_bad += 1
    for cid, ml, il in dd[:2]:
        if any(cid == c for c, _r, _e in crashes):
            continue
        path = core.write_replay(PID, blocks.get(cid, ""), {"property": PID, "found-by": "correspondence(sanitizer build)",
                                                            "model-said": ml, "implementation-said": il})
        res.violation(path, "sanitizer build: model %r impl %r" % (ml, il))
        n_bad += 1
    return n_bad


def run(tier, seed, replay=None):
    res = core.Result(PID, tier, seed, level="proof")
    prep = prepare(res)
    if prep is None:
        return res.finish()
    coq, exe = prep
    if replay:
        block = "".join(l for l in open(replay) if not l.startswith("#"))
        if not block.strip():
            print("replay names a build/proof step, not an input; re-running the steps")
            if not coq["ok"]:
                res.violation(os.path.relpath(replay, core.VERIF), "proof obligations do not check", no_input=True)
            return res.finish()
        r = case_fails(exe, block)
        print("replay verdict:", r if r else "agrees (no violation)")
        if r:
            res.violation(os.path.relpath(replay, core.VERIF), str(r))
        return res.finish()
    # quick: one chunk; thorough: several chunks with derived seeds (bounded memory, same total budget)
    chunks = [(seed, 4000, "m")] if tier == "quick" else [(seed + 7919 * c, 25000, "m" if c == 0 else "t%d_" % c) for c in range(6)]
    maxops = 5 if tier == "quick" else 8
    n_failing = n_cases = n_distinct_seen = obs_lines = mon_lines = n_corpus = 0
    distinct, dist, samples = set(), {}, []
    res.coverage["data_iterator_stride_ignored_cases"] = 0
    for ci, (cseed, count, prefix) in enumerate(chunks):
        progs, obss = [], []
        if ci == 0:
            for f in sorted(glob.glob(os.path.join(core.VERIF, "corpus", PID, "*.prog"))):
                block = "".join(l for l in open(f) if not l.startswith("#"))
                progs.append(block)
                obss.append(model_run(block))
            n_corpus = sum(len(core.split_cases(p)) for p in progs)
        p, o, d = generate(cseed, count, maxops, prefix=prefix)
        progs.append(p)
        obss.append(o)
        for k, val in d.items():
            dist[k] = dist.get(k, 0) + val
        prog_text, obs_text = "".join(progs), "".join(obss)
        impl_text, crashes = core.run_harness(exe, prog_text, env=MPI_ENV, timeout=240 if tier == "quick" else 1500)
        noted = res.coverage.get("data_iterator_stride_ignored_cases", 0)
        n_failing += report(res, exe, prog_text, obs_text, impl_text, crashes, max_report=4 if ci == 0 else 1)
        res.coverage["data_iterator_stride_ignored_cases"] += noted
        if tier == "thorough" and ci == 0:
            n_failing += thorough_extras(res, prog_text, obs_text)
        cases = core.split_cases(prog_text)
        n_cases += len(cases)
        for _cid, block in cases:
            if nontrivial(block):
                distinct.add(hashlib.sha256("\n".join(block.splitlines()[1:]).encode()).digest()[:10])
        if ci == 0:
            samples = [b for _c, b in cases[n_corpus:n_corpus + 300] if nontrivial(b)][:3]
        obs_lines += obs_text.count("\n")
        mon_lines += sum(1 for ln in impl_text.splitlines() if ln[:2] in ("K ", "V ", "U ", "G ", "L "))
        if n_failing and ci >= 1:
            break
    if not coq["ok"] and n_failing == 0:
        path = core.write_replay(PID, "", {"property": PID, "found-by": "proof:Properties_%s.v" % PID,
                                           "log": coq["log"][-3000:], "obligations": coq["obligations"],
                                           "discharged": coq["discharged"]})
        res.violation(path, "proof obligations no longer check", no_input=True)
    res.coverage.update({
        "evaluations": n_cases,
        "distinct_nontrivial": len(distinct),
        "rule": "each case = (send view, receive view, element type int/float/double, how each side obtains its "
                "(buffer,count,datatype) from mpi.hpp: message(elements()), skeleton<T>(layout), moved skeleton, released "
                "datatype, create_subarray, create_subarray_aux, data(iterator)). One view is a random view program (root rank "
                "1..4, extents 0..7 with 15%% forced 0/1 extents, 0..%d operations drawn among those whose documented "
                "domain dom_op holds on the model view); the other is generated to have the same number of elements: a "
                "padded / strided sub-block of a root whose block sizes are a random factorisation of that number, then "
                "count-preserving operations (rotated, transposed, reversed, partitioned, chunked, halved, flatted); 20%% of "
                "the pairs are two free programs whose counts happen to agree; 3%% end in an empty inner dimension. A case "
                "is non-trivial when both sides have at least one view operation; distinct = by hash of the case text "
                "without its id" % maxops,
        "samples": samples,
        "generator_distribution": dist,
        "observation_lines_compared": obs_lines,
        "monitor_lines_checked": mon_lines,
        "chunks": [{"seed": cs, "cases": cn} for cs, cn, _p in chunks],
        "corpus_cases": n_corpus,
        "disagreeing_cases": n_failing,
        "observables_compared": ["datatype tree (MPI_Type_get_envelope/get_contents)", "count()", "MPI_Type_get_extent lb/extent",
                                 "MPI_Type_size", "MPI_Type_get_true_extent", "elements() sequence", "addresses by chained brackets",
                                 "MPI_Pack output and byte count", "PMPI create/commit/use/free trace",
                                 "whole receive root after MPI_Unpack", "receive view elements() after MPI_Unpack", "guard zones"],
        "not_exercised": ["two-process MPI_Send/MPI_Recv (the singleton uses MPI_Pack/MPI_Unpack, which MPI-3.1 4.2 defines on the "
                          "same message)", "non-zero index bases (C19)", "element types without a mapped MPI datatype",
                          "data(iterator) for rank > 1"],
    })
    res.assumptions = ["no 64-bit / int overflow in stride*size, count (mpi.hpp casts sizes to int)",
                       "Open MPI 4.1.4 as installed; singleton MPI_Init; MPI_Pack on one architecture stores entries contiguously",
                       "roots are array_ref over guarded buffers (non-null base also when empty)",
                       "zero-based views as in C01 (offset_ = 0): mpi.hpp reads stride() and size() only"]
    return res.finish()

"""Shared orchestration for the checks: build (Coq, extraction, OCaml driver, C++ harnesses),
sharded harness runs with crash isolation, line diff, evidence, known findings, replay files.
Only the Python standard library is used."""
import concurrent.futures as cf
import hashlib
import json
import os
import re
import shutil
import subprocess
import sys
import time

VERIF = os.path.dirname(os.path.dirname(os.path.abspath(__file__)))
REPO = os.environ.get("BM_REPO", "/repo")
INCLUDE = os.path.join(REPO, "include")
BUILD = os.path.join(VERIF, "build")
BIN = os.path.join(BUILD, "bin")
COQ = os.path.join(VERIF, "coq")
EVID = os.path.join(VERIF, "evidence")
REPLAYS = os.path.join(EVID, "replays")
NCPU = min(16, os.cpu_count() or 4)

for d in (BUILD, BIN, EVID, REPLAYS):
    os.makedirs(d, exist_ok=True)


def seed_from_env(default=20260926):
    try:
        return int(os.environ.get("VERIF_SEED", default))
    except ValueError:
        return default


def sh(cmd, timeout=1800, cwd=None, env=None, stdin_path=None, stdout_path=None):
    """Run a command; returns (rc, stdout, stderr). rc < 0 means killed by a signal; 124 = timeout."""
    e = dict(os.environ)
    if env:
        e.update(env)
    fin = open(stdin_path, "rb") if stdin_path else None
    fout = open(stdout_path, "wb") if stdout_path else subprocess.PIPE
    try:
        p = subprocess.run(cmd, cwd=cwd, env=e, stdin=fin, stdout=fout, stderr=subprocess.PIPE,
                           timeout=timeout, shell=isinstance(cmd, str))
        out = "" if stdout_path else p.stdout.decode("utf-8", "replace")
        return p.returncode, out, p.stderr.decode("utf-8", "replace")
    except subprocess.TimeoutExpired as ex:
        return 124, "", "timeout after %ss: %s" % (timeout, cmd)
    finally:
        if fin:
            fin.close()
        if stdout_path:
            fout.close()


# --------------------------------------------------------------------------------------------
# Coq
# --------------------------------------------------------------------------------------------
FORBIDDEN = re.compile(r"\b(Admitted|admit|Axiom|Axioms|Parameter|Parameters|Conjecture|Conjectures|"
                       r"Unset\s+Guard|Unset\s+Positivity|Unset\s+Universe|bypass_check|type-in-type|impredicative-set|"
                       r"Admit\s+Obligations)\b")


def coq_sources():
    out = []
    for root, _dirs, files in os.walk(COQ):
        for f in sorted(files):
            if f.endswith(".v"):
                out.append(os.path.relpath(os.path.join(root, f), COQ))
    return sorted(out)


def strip_coq_comments(text):
    res, depth, i = [], 0, 0
    while i < len(text):
        if text.startswith("(*", i):
            depth += 1
            i += 2
        elif text.startswith("*)", i) and depth > 0:
            depth -= 1
            i += 2
        else:
            if depth == 0:
                res.append(text[i])
            i += 1
    return "".join(res)


def coq_audit():
    """No Admitted/admit/Axiom/Parameter/..., no top-level Variable/Hypothesis, no kernel switches."""
    problems = []
    for rel in coq_sources():
        text = strip_coq_comments(open(os.path.join(COQ, rel)).read())
        for m in FORBIDDEN.finditer(text):
            problems.append("%s: forbidden token %r" % (rel, m.group(0)))
        depth = 0
        for line in text.splitlines():
            s = line.strip()
            if re.match(r"^(Section|Module)\b", s) and not re.match(r"^Module\s+\w+\s*:=", s):
                depth += 1
            elif re.match(r"^End\b", s):
                depth = max(0, depth - 1)
            elif depth == 0 and re.match(r"^(Variable|Variables|Hypothesis|Hypotheses|Context)\b", s):
                problems.append("%s: top-level %s" % (rel, s.split()[0]))
    return problems


def write_coqproject():
    srcs = [s for s in coq_sources() if not s.startswith("Extract/")]
    text = "-Q . BM\n" + "\n".join(srcs) + "\n"
    path = os.path.join(COQ, "_CoqProject")
    old = open(path).read() if os.path.exists(path) else None
    if old != text:
        open(path, "w").write(text)
        sh(["coq_makefile", "-f", "_CoqProject", "-o", "Makefile.coq"], cwd=COQ)
    elif not os.path.exists(os.path.join(COQ, "Makefile.coq")):
        sh(["coq_makefile", "-f", "_CoqProject", "-o", "Makefile.coq"], cwd=COQ)


def coq_make(targets=None, timeout=3000):
    """Full .vo build (never -vos/-vok). Returns (ok, log)."""
    write_coqproject()
    cmd = ["make", "-f", "Makefile.coq", "-k", "-j%d" % NCPU] + (targets or [])
    rc, out, err = sh(cmd, cwd=COQ, timeout=timeout)
    return rc == 0, out + err


def coq_deps(rel):
    """Transitive closure of the project files a .v file depends on (via coqdep)."""
    rc, out, _ = sh(["coqdep", "-Q", ".", "BM"] + coq_sources(), cwd=COQ)
    deps = {}
    for line in out.splitlines():
        if ":" not in line:
            continue
        lhs, rhs = line.split(":", 1)
        tgt = [t for t in lhs.split() if t.endswith(".vo")]
        if not tgt:
            continue
        src = tgt[0][:-1]
        deps[src] = [d[:-1] for d in rhs.split() if d.endswith(".vo")]
    seen, todo = set(), [rel]
    while todo:
        f = todo.pop()
        f = os.path.normpath(f)
        if f in seen:
            continue
        seen.add(f)
        todo.extend(deps.get(f, []))
    return sorted(seen)


PROOF_START = re.compile(r"^\s*(Lemma|Theorem|Corollary|Proposition|Fact|Remark|Example|Instance|Definition|Fixpoint|Program\s+\w+)\b")


def count_qed(rel):
    text = strip_coq_comments(open(os.path.join(COQ, rel)).read())
    return len(re.findall(r"\bQed\s*\.", text)) + len(re.findall(r"\bDefined\s*\.", text))


def coq_check_property(pid):
    """make the property file's closure, re-compile the property file itself to capture Print Assumptions.
    Returns dict(ok, obligations, discharged, assumptions, log, files)."""
    rel = "Properties/Properties_%s.v" % pid
    res = {"ok": False, "obligations": 0, "discharged": 0, "assumptions": [], "log": "", "files": []}
    if not os.path.exists(os.path.join(COQ, rel)):
        res["log"] = "missing " + rel
        return res
    problems = coq_audit()
    if problems:
        res["log"] = "audit: " + "; ".join(problems)
        return res
    ok, log = coq_make([rel + "o"])
    files = coq_deps(rel)
    res["files"] = files
    obligations = sum(count_qed(f) for f in files)
    discharged = 0
    for f in files:
        vo = os.path.join(COQ, f + "o")
        src = os.path.join(COQ, f)
        if os.path.exists(vo) and os.path.getmtime(vo) >= os.path.getmtime(src):
            discharged += count_qed(f)
    res["obligations"], res["discharged"] = obligations, discharged
    if not ok:
        res["log"] = log[-4000:]
        return res
    # Print Assumptions output of the property file
    rc, out, err = sh(["coqc", "-Q", ".", "BM", rel], cwd=COQ, timeout=900)
    res["log"] = (out + err)[-4000:]
    if rc != 0:
        return res
    blocks = []
    cur = None
    for line in out.splitlines():
        if line.startswith("Closed under the global context"):
            blocks.append("closed")
            cur = None
        elif line.startswith("Axioms:"):
            cur = []
            blocks.append(cur)
        elif cur is not None and line.strip():
            if re.match(r"^\S", line):
                cur.append(line.split(":")[0].strip())
    axioms = sorted({a for b in blocks if b != "closed" for a in b})
    res["assumptions"] = ["Closed under the global context"] if not axioms else axioms
    res["n_print_assumptions"] = len(blocks)
    res["ok"] = discharged == obligations and len(blocks) > 0
    return res


# --------------------------------------------------------------------------------------------
# extraction + OCaml driver
# --------------------------------------------------------------------------------------------
def newest_mtime(paths):
    m = 0.0
    for p in paths:
        if os.path.isdir(p):
            for root, _d, files in os.walk(p):
                for f in files:
                    m = max(m, os.path.getmtime(os.path.join(root, f)))
        elif os.path.exists(p):
            m = max(m, os.path.getmtime(p))
    return m


def ensure_driver_for(tag, extract_v, mls, exe_name, model_base="model"):
    """Generic form: extract coq/Extract/<extract_v> (which must say `Extraction "<model_base>.ml" ...`,
    ExtrOcamlBasic only) into build/extract/<tag>/ and compile ocaml/<mls...> against it into
    build/bin/<exe_name>.  Returns (ok, log).  Rebuilt when any Model/, Extract/ or ocaml/ file is newer."""
    drv = os.path.join(BIN, exe_name)
    srcs = [os.path.join(COQ, "Model"), os.path.join(COQ, "Extract", extract_v)] + \
           [os.path.join(VERIF, "ocaml", f) for f in mls]
    if os.path.exists(drv) and os.path.getmtime(drv) >= newest_mtime(srcs):
        return True, "driver up to date"
    ok, log = coq_make([s + "o" for s in coq_sources() if s.startswith("Model/")])
    if not ok:
        return False, log[-3000:]
    ex = os.path.join(BUILD, "extract", tag)
    os.makedirs(ex, exist_ok=True)
    rc, out, err = sh(["coqc", "-Q", COQ, "BM", os.path.join(COQ, "Extract", extract_v)], cwd=ex, timeout=600)
    if rc != 0:
        return False, (out + err)[-3000:]
    names = []
    for f in mls:
        shutil.copy(os.path.join(VERIF, "ocaml", f), os.path.join(ex, f))
        names.append(f)
    rc, out, err = sh(["ocamlfind", "ocamlopt", "-w", "-a", "-inline", "50",
                       model_base + ".mli", model_base + ".ml"] + names + ["-o", drv], cwd=ex, timeout=600)
    if rc != 0:
        return False, (out + err)[-3000:]
    return True, "driver rebuilt"


def ensure_driver():
    """The view-family driver (views, iterators, assignment, comparison, lifecycle)."""
    order = ["zu.ml", "views.ml", "iters.ml", "assign.ml", "compare.ml", "life.ml", "driver.ml"]
    mls = [f for f in order if os.path.exists(os.path.join(VERIF, "ocaml", f))]
    return ensure_driver_for("main", "Extract.v", mls, "driver")


# --------------------------------------------------------------------------------------------
# C++ harnesses, built from /repo's current working tree on every run (cached by content hash)
# --------------------------------------------------------------------------------------------
def tree_hash(paths):
    h = hashlib.sha256()
    for p in paths:
        if os.path.isdir(p):
            for root, dirs, files in os.walk(p):
                dirs.sort()
                for f in sorted(files):
                    fp = os.path.join(root, f)
                    h.update(fp.encode())
                    with open(fp, "rb") as fh:
                        h.update(fh.read())
        elif os.path.exists(p):
            h.update(p.encode())
            with open(p, "rb") as fh:
                h.update(fh.read())
    return h.hexdigest()[:20]


_include_hash = None


def include_hash():
    global _include_hash
    if _include_hash is None:
        _include_hash = tree_hash([INCLUDE])
    return _include_hash


def build_harness(name, sources, flags=(), libs=(), cxx="g++", timeout=900, tag=""):
    """Compile harness/<sources> against REPO/include. Returns (ok, exe_path, log)."""
    srcs = [os.path.join(VERIF, "harness", s) for s in sources]
    key = hashlib.sha256((include_hash() + tree_hash(srcs + [os.path.join(VERIF, "harness", "common")])
                          + " ".join(flags) + " ".join(libs) + cxx).encode()).hexdigest()[:16]
    exe = os.path.join(BIN, "%s%s-%s" % (name, tag, key))
    if os.path.exists(exe):
        return True, exe, "cached"
    # remove stale builds of the same harness
    for f in os.listdir(BIN):
        if f.startswith(name + tag + "-"):
            try:
                os.remove(os.path.join(BIN, f))
            except OSError:
                pass
    cmd = [cxx, "-std=c++17", "-O1", "-g0", "-I" + INCLUDE, "-I" + os.path.join(VERIF, "harness")] + list(flags) \
        + srcs + ["-o", exe] + list(libs)
    rc, out, err = sh(cmd, timeout=timeout)
    if rc != 0:
        return False, exe, (out + err)[-6000:]
    return True, exe, "built"


# --------------------------------------------------------------------------------------------
# running a harness over many cases with crash isolation
# --------------------------------------------------------------------------------------------
def split_cases(text):
    """Program text -> list of (id, block_text). A block starts with 'case <id>' and ends with 'end'."""
    cases, cur, cid = [], [], None
    for line in text.splitlines():
        if line.startswith("case "):
            cur, cid = [line], line.split()[1]
        elif cid is not None:
            cur.append(line)
            if line.strip() == "end":
                cases.append((cid, "\n".join(cur) + "\n"))
                cid, cur = None, []
    return cases


def _run_shard(exe, blocks, env, timeout, args):
    """Run the harness on a list of case blocks; on a crash, record it and continue after the crasher."""
    outputs, crashes = [], []
    todo = list(blocks)
    while todo:
        inp = "".join(b for _, b in todo).encode()
        e = dict(os.environ)
        e.update(env or {})
        try:
            p = subprocess.run([exe] + list(args), input=inp, stdout=subprocess.PIPE, stderr=subprocess.PIPE,
                               timeout=timeout, env=e)
            rc, out, err = p.returncode, p.stdout.decode("utf-8", "replace"), p.stderr.decode("utf-8", "replace")
        except subprocess.TimeoutExpired as ex:
            rc, out, err = 124, (ex.stdout or b"").decode("utf-8", "replace"), "timeout"
        if rc == 0:
            outputs.append(out)
            break
        # find the last completed case
        done = set(m.group(1) for m in re.finditer(r"^E (\S+)", out, re.M))
        k = 0
        while k < len(todo) and todo[k][0] in done:
            k += 1
        # keep complete cases' output only
        kept = []
        cur_id = None
        for line in out.splitlines():
            parts = line.split()
            if len(parts) >= 2:
                cur_id = parts[1]
            if cur_id in done:
                kept.append(line)
        outputs.append("\n".join(kept) + ("\n" if kept else ""))
        if k >= len(todo):
            crashes.append(("<after-last-case>", rc, err[-1500:]))
            break
        crashes.append((todo[k][0], rc, err[-1500:]))
        todo = todo[k + 1:]
    return "".join(outputs), crashes


def run_harness(exe, prog_text, env=None, timeout=600, args=(), shards=None):
    blocks = split_cases(prog_text)
    n = shards or NCPU
    n = max(1, min(n, len(blocks)))
    parts = [blocks[k::n] for k in range(n)]
    outs, crashes = [], []
    with cf.ThreadPoolExecutor(max_workers=n) as ex:
        for out, cr in ex.map(lambda b: _run_shard(exe, b, env, timeout, args), parts):
            outs.append(out)
            crashes.extend(cr)
    return "".join(outs), crashes


def by_case(text):
    """observation text -> {case id: [lines]} (second token of every line is the case id)."""
    d = {}
    for line in text.splitlines():
        parts = line.split()
        if len(parts) >= 2:
            d.setdefault(parts[1], []).append(line)
    return d


def diff_cases(model_text, impl_text):
    """Returns list of (case id, first differing model line, impl line)."""
    m, i = by_case(model_text), by_case(impl_text)
    bad = []
    for cid, ml in m.items():
        il = i.get(cid)
        if il is None:
            bad.append((cid, ml[0] if ml else "", "<no output>"))
            continue
        if ml != il:
            for a, b in zip(ml, il):
                if a != b:
                    bad.append((cid, a, b))
                    break
            else:
                bad.append((cid, "<%d lines>" % len(ml), "<%d lines>" % len(il)))
    return bad


# --------------------------------------------------------------------------------------------
# known findings, replays, evidence
# --------------------------------------------------------------------------------------------
def load_known():
    p = os.path.join(VERIF, "known_findings.json")
    if not os.path.exists(p):
        return {"findings": [], "fixed": []}
    return json.load(open(p))


def match_known(pid, record):
    """record: dict of structured fields of a violation. A finding matches if ALL of its 'match' fields agree."""
    for f in load_known().get("findings", []):
        if f.get("property") != pid or f.get("status", "open") != "open":
            continue
        m = f.get("match", {})
        if m and all(str(record.get(k)) == str(v) for k, v in m.items()):
            return f
    return None


def write_replay(pid, body, header):
    h = hashlib.sha256(body.encode()).hexdigest()[:12]
    path = os.path.join(REPLAYS, "%s-%s.prog" % (pid, h))
    with open(path, "w") as f:
        for k, v in header.items():
            for j, line in enumerate(str(v).splitlines() or [""]):
                f.write("# %s%s: %s\n" % (k, "" if j == 0 else "+", line))
        f.write(body)
    return os.path.relpath(path, VERIF)


class Result:
    """Collects what a check run did; prints the VIOLATION / KNOWN-FINDING lines; writes the evidence."""

    def __init__(self, pid, tier, seed, level="proof"):
        self.pid, self.tier, self.seed, self.level = pid, tier, seed, level
        self.t0 = time.time()
        self.violations = []     # (replay path, text)
        self.known = {}          # finding id -> text
        self.coverage = {}
        self.assumptions = []

    def violation(self, replay, text, no_input=False):
        self.violations.append((replay, text))
        print("VIOLATION property=%s replay=%s%s" % (self.pid, replay, " no-failing-input-found" if no_input else ""))
        sys.stdout.flush()

    def known_finding(self, finding, detail=""):
        if finding["id"] not in self.known:
            self.known[finding["id"]] = finding["what"]
            print("KNOWN-FINDING: property=%s %s [%s]" % (self.pid, finding["what"], finding["id"]))
            sys.stdout.flush()

    def finish(self):
        cov = dict(self.coverage)
        cov.setdefault("known_findings_seen", sorted(self.known))
        ev = {
            "property_id": self.pid,
            "tier": self.tier,
            "seed": int(self.seed),
            "level": self.level,
            "coverage": cov,
            "assumptions": self.assumptions,
            "wall_s": round(time.time() - self.t0, 2),
            "violations": len(self.violations),
        }
        with open(os.path.join(EVID, "%s.json" % self.pid), "w") as f:
            json.dump(ev, f, indent=1, sort_keys=True)
            f.write("\n")
        return 1 if self.violations else 0


def coqchk_property(res, pid, timeout=3000):
    """thorough tier: re-check the compiled property file and everything it depends on with the independent checker
    coqchk, and record the axioms it lists (`-o`).  Returns True when coqchk accepts and lists no axiom outside the
    allow-list of DESIGN section 6 (none are expected)."""
    rc, out, err = sh(["coqchk", "-o", "-silent", "-Q", ".", "BM", "BM.Properties.Properties_%s" % pid], cwd=COQ, timeout=timeout)
    txt = out + err
    m = re.search(r"\* Axioms:(.*?)\n\s*\n\* Constants", txt, re.S)
    axioms = " ".join(m.group(1).split()) if m else "<not parsed>"
    res.coverage["coqchk"] = {"rc": rc, "axioms": axioms,
                              "type_in_type": "<none>" if "type-in-type: <none>" in txt else "see log",
                              "unsafe_fixpoints": "<none>" if "unsafe (co)fixpoints: <none>" in txt else "see log",
                              "assumed_positivity": "<none>" if "positivity is assumed: <none>" in txt else "see log"}
    ok = rc == 0 and axioms == "<none>"
    if not ok:
        path = write_replay(pid, "", {"property": pid, "found-by": "proof:coqchk", "log": txt[-3000:]})
        res.violation(path, "coqchk does not accept the development or lists axioms", no_input=True)
    return ok


def proof_coverage(res, coq):
    """Fill the proof-level coverage keys from coq_check_property's result."""
    res.coverage.update({
        "obligations": coq["obligations"],
        "discharged": coq["discharged"],
        "checker_cmd": "make -f Makefile.coq (coqc 8.16.1, full .vo build) in /verif/coq; then coqc Properties/Properties_%s.v "
                       "for Print Assumptions" % res.pid,
        "trusted_base": [
            "Coq 8.16.1 kernel (coqc); vm_compute used in closed-term Examples and finite sweeps; no native_compute",
            "Print Assumptions: " + ", ".join(coq["assumptions"] or ["<none captured>"]),
            "extraction: ExtrOcamlBasic only (no Extract Constant / extra Extract Inductive); ocaml/*.ml driver (hand-written)",
            "correspondence check: harness/*.cpp compiled against %s with g++ -std=c++17 -O1 (assertions enabled), "
            "vlib/*.py diff" % INCLUDE,
        ],
        "coq_files": coq["files"],
    })

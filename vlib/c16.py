"""C16 -- const-ness propagates.  Proof: coq/Properties/Properties_C16.v (const automaton, all path lengths; the alphabet holds the
access / view-forming operations, the projections and casts, the conversions between handle kinds, view construction, decay).
Tie: every (state, operation) row of the automaton is a compiled probe against core.INCLUDE (gen/const_probes.py),
compared with the extracted model; independently of the model the property's own quantifier is enumerated (every
access path of depth <= 2 / <= 3 from the twelve kinds of root, D = 1..3) and monitored; run-time witnesses
(harness/h_const_witness.cpp) show that what compiles really writes."""
import glob
import hashlib
import json
import os
import random
import re
import time

from . import core
from . import c16_probe as P

PID = "C16"
gen = P.gen
DRIVER = os.path.join(core.BIN, "driver_c16")

# ---------------------------------------------------------------------------------------------------
# the property's predicates, restated here on the probe vocabulary (independent of the Coq model)
# ---------------------------------------------------------------------------------------------------
def pconst(pf):
    """the reference of a pointer family is not a mutable one"""
    return pf in ("1", "TmC", "TcC", "TmV", "TcV", "S1")


def ro(st):
    """read-only typed expression: const array / const-qualified view, const_subarray, const_iterator,
    anything over a pointer to const or over a transform_ptr whose reference is const / a value, reference to const element"""
    k, d, c, cat = st.split(".")
    tc = (c == "c")
    pre, ci, pf = gen.parse_kind(k)
    if pre in ("Arr", "SArr", "ArrS", "Elem"):
        return tc
    if pre in ("ARef", "Sub", "ER"):
        return pconst(pf) or tc
    if pre == "CSub":
        return True
    if pre in ("It", "SP"):
        return ci == "1" or pconst(pf)
    if pre in ("EI", "Cu", "Pt"):
        return pconst(pf)
    raise ValueError(st)


def assignable_kind(k, cat):
    """element lvalue, view, array or element range over a pointer that yields lvalues (a move_ptr view hands out int&&)"""
    if k == "Elem":
        return cat == "L"
    if k in gen.VIEW_KINDS + gen.RANGE_KINDS:
        return gen.pf_of(k) != "M"
    return False


MUTATORS = gen.MUTATOR_NAMES
STEP_OPS = gen.ACCESS_NAMES + gen.LANG_NAMES            # the operations paths are built from
INTENDED_CONST = set(gen.CONST_MAKING) | {"Broadcasted"}  # operations meant to give a read-only result
OWNING = ("Arr", "SArr", "ArrS")
# A prvalue and an xvalue of the same type are one state (category R), but constructing a T from a prvalue T is no constructor call
# (guaranteed elision), so `T(prvalue T)` is well-formed where `T(xvalue T)` is not: the view-construction ops are composed only
# as the single step on a root.  transform_ptr kinds are functor-agnostic, the conversion targets carry the canonical functor of
# their family (&S::b; LV for the value families): no conversion step after a projection with another functor.
NONCANON_FUNCTOR_OPS = {"ETransLR", "ETransLC"}
# the library's named ways out of const-ness (its const_cast): never reported, counted
ESCAPES = {"ConstCast", "MutableBase"}
# the property's own path alphabet {indexing, call syntax, begin/end/cbegin, dereference, elements(), home(), front/back,
# the view-forming operations} (+ the language-level steps that make the roots "held by auto&& / auto const&").  The const
# clause (nothing writable from const) is monitored on EVERY operation of the vocabulary; the mutable clause ("the same paths
# from a non-const array or a forwarded view yield modifiable references") is asserted only inside this alphabet.
ALPHABET = {"Index", "Call0", "Call1", "CallAll", "CallRng", "CallRngIdx", "CallIdxRng", "Begin", "End", "CBegin", "CEnd",
            "Deref", "Elements", "Home", "Front", "Back",
            "Sliced", "SlicedS", "Strided", "Taked", "Dropped", "Rotated", "Unrotated", "Transposed", "Tilde", "Reversed",
            "Diagonal", "Partitioned", "Chunked", "Halved", "Flatted", "Reindexed", "Blocked", "Range", "Stenciled", "Broadcasted",
            "Move", "BindRef", "BindCRef"}

# the sites of the current tree where a read-only receiver still hands out something mutable: (receiver kind, op, D) -> site.
# An independent restatement of the Coq predicate `hole`; every site is a known finding with its own match field.
# (iter-index, csub-elements, origin, csub-addressof, sptr-base were repaired by 0cc5cd0, c42ae62, 0310609, 49fc935, f94579a:
# a violation there is an ordinary VIOLATION again.)
def site_of(kind, op, d=None):
    pre, ci, pf = gen.parse_kind(kind)
    if pre == "It" and ci == "1" and op == "Base" and not pconst(pf):
        return "iter-base"
    if pre == "Pt" and op == "Base" and pf in ("TmC", "TmV"):
        return "tptr-base"
    if pre == "SP" and ci == "1" and op in gen.CONV_NAMES and op[3] == "0":
        return "sptr-conv"
    if op in gen.CONV_NAMES and op[4] == "m" and pf == "TmC" and pre in ("Pt", "EI", "SP", "It"):
        return "tptr-conv"
    if op == "StaticCast" and kind in gen.VIEW_KINDS:
        return "static-cast-deprecated"
    if op == "MemberCast" and kind in gen.S_VIEW_KINDS and d == 1:
        return "member-cast-1d"
    if kind == "CSubS0" and op in ("ETransMP", "ETransLR", "MemberCast"):
        return "csub-projection"
    return "row:%s.%s" % (kind, op)


def canon(st):
    """table row used for a state whose D is above 3 (class D >= 3): same kind/const/category at D = 3"""
    k, d, c, cat = st.split(".")
    d = int(d)
    if k in gen.DIM0_KINDS:
        return st, 0
    if d > 3:
        return "%s.3.%s.%s" % (k, c, cat), d - 3
    return st, 0


def step_observed(obs, st, op):
    """outcome text of one step from state st per the observed single-step table, with D above 3 mapped to 3."""
    base, off = canon(st)
    out = obs.get((base, op))
    if out is None:
        return None
    pre = "To:Copy:" if out.startswith("To:Copy:") else "To:"
    if off and (is_state(out) or pre == "To:Copy:"):
        k, d, c, cat = out[len(pre):].split(".")
        if k not in gen.DIM0_KINDS and not (k.startswith("ARef") and op in ("Elements", "CElements")):
            out = "%s%s.%d.%s.%s" % (pre, k, int(d) + off, c, cat)
    return out


def writable_state(obs, st):
    return any(step_observed(obs, st, m) == "Mut" for m in MUTATORS)


def is_state(out):
    return out is not None and out.startswith("To:") and out[3:] not in ("Val", "Other", "Void") and not out.startswith("To:Copy:")


# ---------------------------------------------------------------------------------------------------
# model side
# ---------------------------------------------------------------------------------------------------
def model_rows(maxd=3, maxd_new=None):
    rc, out, err = core.sh([DRIVER, "rows", "--maxd", str(maxd), "--maxdnew", str(maxd_new or maxd)], timeout=120)
    if rc != 0:
        raise RuntimeError("driver_c16 rows: " + err[-500:])
    rows = {}
    for line in out.splitlines():
        p = line.split()
        if len(p) == 4 and p[0] == "R":
            rows[(p[1], p[2])] = p[3]
    return rows


def model_eval(items):
    """items: list of (id, root state text, [ops]) -> dict id -> dict of the fields of the driver's Q line"""
    inp = "".join("%s %s %s\n" % (i, st, ",".join(ops) if ops else "-") for i, st, ops in items)
    d = os.path.join(core.BUILD, "work", PID)
    os.makedirs(d, exist_ok=True)
    f = os.path.join(d, "model_in.txt")
    open(f, "w").write(inp)
    rc, out, err = core.sh([DRIVER, "run"], stdin_path=f, timeout=300)
    if rc != 0:
        raise RuntimeError("driver_c16 run: " + err[-500:])
    return parse_q(out)


def parse_q(out):
    res = {}
    for line in out.splitlines():
        p = line.split()
        if len(p) >= 4 and p[0] == "Q":
            has_ops = "=" not in p[3]
            d = {"root": p[2], "ops": p[3].split(",") if has_ops else []}
            for kv in (p[4:] if has_ops else p[3:]):
                k, _, v = kv.partition("=")
                d[k] = v
            res[p[1]] = d
    return res


# ---------------------------------------------------------------------------------------------------
# path enumeration on the observed table
# ---------------------------------------------------------------------------------------------------
def root_states(maxd_new=3):
    out = []
    for name, _const in gen.ROOTS:
        for d in (1, 2, 3):
            if name not in gen.OLD_ROOTS and d > maxd_new:
                continue
            out.append((name, d, gen.ROOT_STATE[name] % d))
    return out


def enumerate_paths(obs, depth, full_last=True, cap=None, rng=None, maxd_new=3, step_ops=None, only_len=None):
    """All op sequences of length 1..depth over STEP_OPS from the 18 roots whose proper prefixes are well-formed
    per the observed table.  The last step is any operation not observed Hard (full_last) or only the well-formed
    ones.  Returns list of (pid, root name, D, steps[(op, kind, d)], predicted outcome text, [states along])."""
    paths = []
    n_hard = n_out = 0
    for rname, d0, st0 in root_states(maxd_new):
        frontier = [([], [st0])]
        for level in range(1, depth + 1):
            nxt = []
            for ops, sts in frontier:
                cur = sts[-1]
                k, d, _c, _cat = cur.split(".")
                noncanon = any(o in NONCANON_FUNCTOR_OPS for o, _k, _d in ops)
                for op in (step_ops or STEP_OPS):
                    if op in gen.VCONV_NAMES and level > 1:
                        continue      # construction of a view from a view: on a named (bound) expression only, see VCONV note
                    if noncanon and (op in gen.CONV_NAMES or op in gen.CMP_NAMES or op in gen.VCONV_NAMES):
                        continue      # the conversion targets are the types with the canonical functor of each family
                    out = step_observed(obs, cur, op)
                    if out is None:
                        continue
                    if out in ("Hard", "NoDef"):
                        n_hard += 1
                        continue
                    last = (level == depth)
                    wf = is_state(out)
                    if not wf and not (full_last or level < depth) and out != "To:Val":
                        continue
                    steps = ops + [(op, k, int(d))]
                    if wf and int(out[3:].split(".")[1]) > gen.MAXD_CANON:
                        continue
                    if wf and (canon(out[3:])[0], "BindRef") not in obs:      # the result is a state outside the tied table (quick: D = 3 of the projection families)
                        n_out += 1
                        continue
                    if only_len is None or len(steps) == only_len:
                        paths.append((rname, d0, steps, out, sts + ([out[3:]] if wf else [])))
                    if wf and not last and op not in gen.VCONV_NAMES:
                        nxt.append((steps, sts + [out[3:]]))
            frontier = nxt
    if cap and len(paths) > cap:
        rng = rng or random.Random(0)
        keep = [p for p in paths if len(p[2]) < depth]
        rest = [p for p in paths if len(p[2]) == depth]
        rng.shuffle(rest)
        paths = keep + rest[:max(0, cap - len(keep))]
    out = []
    for i, (rname, d0, steps, pred, sts) in enumerate(paths):
        out.append(("p%d" % i, rname, d0, steps, pred, sts))
    return out, n_hard


def path_text(rname, d0, steps):
    return "%s %d %s" % (rname, d0, ",".join(op for op, _k, _d in steps))


def culprit(sts, steps, want_ro_to_mut=True):
    """first step at which a read-only expression yields a non-read-only one (or the converse): (index, kind, op, D)"""
    for i, (op, k, d) in enumerate(steps):
        if i + 1 >= len(sts):
            break
        a, b = ro(sts[i]), ro(sts[i + 1])
        if want_ro_to_mut and a and not b:
            return i, k, op, d
        if (not want_ro_to_mut) and (not a) and b:
            return i, k, op, d
    return None


# ---------------------------------------------------------------------------------------------------
# witnesses: id -> (root state pattern, ops, site when it is a const-path write)
# ---------------------------------------------------------------------------------------------------
WITNESS = {
    "const.iter_index": ("Arr.%d.c.L", ["Begin", "Index", "Elements", "Index"], None),
    "const.iter_call": ("Arr.%d.c.L", ["Begin", "Call1", "Elements", "Index"], None),
    "const.iter_base": ("Arr.%d.c.L", ["Begin", "Base", "Deref"], "iter-base"),
    "const.view_iter_index": ("Sub0.%d.c.L", ["Begin", "Index", "Elements", "Index"], None),
    "const.csub_elements_it": ("Arr.%d.c.L", ["Call0", "Elements", "Begin", "Deref"], None),
    "const.csub_elements_idx": ("Arr.%d.c.L", ["Call0", "Elements", "Index"], None),
    "const.csub_elements_assign": ("Arr.%d.c.L", ["Call0", "Elements"], None),
    "const.csub_origin": ("Arr.%d.c.L", ["Call0", "Origin", "Deref"], None),
    "const.view_origin": ("Sub0.%d.c.L", ["Origin", "Deref"], None),
    "const.view_elements": ("Sub0.%d.c.L", ["Elements", "Begin", "Deref"], None),
    "const.csub_addrof": ("Arr.%d.c.L", ["Call0", "AddrOf", "Deref", "Elements", "Index"], None),
    "const.csub_addressof": ("Arr.%d.c.L", ["Call0", "AddressOf", "Deref", "Elements", "Index"], None),
    "const.view_addrof_base": ("Sub0.%d.c.L", ["AddrOf", "Base", "Deref"], None),
    "const.iter_arrow_base": ("Arr.%d.c.L", ["Begin", "Arrow", "Base", "Deref"], None),
    "const.ctl_view_addrof": ("Sub0.%d.c.L", ["AddrOf", "Deref"], None),
    "mut.addrof": ("Sub0.%d.m.L", ["AddrOf", "Deref", "Elements", "Index"], None),
    "const.view_call0_elements": ("Sub0.%d.c.L", ["Call0", "Elements", "Begin", "Deref"], None),
    "const.index_elements": ("Arr.%d.c.L", ["Index", "Elements", "Index"], None),
    "const.cbegin_elements": ("Sub0.%d.m.L", ["CBegin", "Deref", "Elements", "Index"], None),
    "const.ctl_elements": ("Arr.%d.c.L", ["Elements", "Begin", "Deref"], None),
    "const.ctl_home": ("Arr.%d.c.L", ["Home", "Deref"], None),
    "const.ctl_base": ("Arr.%d.c.L", ["Base", "Deref"], None),
    "const.ctl_data_elements": ("Arr.%d.c.L", ["DataElements", "Deref"], None),
    "const.ctl_origin_array": ("Arr.%d.c.L", ["Origin", "Deref"], None),
    "const.ctl_fill": ("Arr.%d.c.L", ["Call0"], None),
    "const.ctl_assign_view": ("Sub0.%d.c.L", [], None),
    "const.ctl_celements": ("Sub0.%d.m.L", ["Elements", "CBegin"], None),
    "const.ctl_index": ("Arr.%d.c.L", ["Index"], None),
    "const.ctl_index_home": ("Arr.%d.c.L", ["Index", "Home", "Deref"], None),
    "const.ctl_call": ("Arr.%d.c.L", ["Call1"], None),
    "const.ctl_call_all": ("Arr.%d.c.L", ["CallAll"], None),
    "const.ctl_cbegin": ("Sub0.%d.m.L", ["CBegin", "Deref"], None),
    "mut.iter_index": ("Arr.%d.m.L", ["Begin", "Index", "Elements", "Index"], None),
    "mut.iter_base": ("Arr.%d.m.L", ["Begin", "Base", "Deref"], None),
    "mut.view_iter_index": ("Sub0.%d.m.L", ["Begin", "Index", "Elements", "Index"], None),
    "mut.sub_elements_it": ("Arr.%d.m.L", ["Call0", "Elements", "Begin", "Deref"], None),
    "mut.sub_elements_idx": ("Arr.%d.m.L", ["Call0", "Elements", "Index"], None),
    "mut.sub_origin": ("Arr.%d.m.L", ["Call0", "Origin", "Deref"], None),
    "mut.view_elements": ("Sub0.%d.m.L", ["Elements", "Begin", "Deref"], None),
    "mut.elements": ("Arr.%d.m.L", ["Elements", "Begin", "Deref"], None),
    "mut.home": ("Arr.%d.m.L", ["Home", "Deref"], None),
    "mut.base": ("Arr.%d.m.L", ["Base", "Deref"], None),
    "mut.data_elements": ("Arr.%d.m.L", ["DataElements", "Deref"], None),
    "mut.origin_array": ("Arr.%d.m.L", ["Origin", "Deref"], None),
    "mut.index": ("Arr.%d.m.L", ["Index"], None),
    "mut.call": ("Arr.%d.m.L", ["Call1"], None),
    "mut.fill": ("Arr.%d.m.L", ["Call0"], None),
    # ---- follow-up 2: projections (a projection view held by auto&& / auto const&), casts, conversions between handle kinds
    "const.proj_elements_idx": ("SubTmR.%d.c.L", ["Elements", "Index"], None),
    "const.proj_elements_it": ("SubTmR.%d.c.L", ["Elements", "Begin", "Deref"], None),
    "const.proj_home": ("SubTmR.%d.c.L", ["Home", "Deref"], None),
    "const.proj_base": ("SubTmR.%d.c.L", ["Base", "Deref"], None),
    "const.proj_call0_elements": ("SubTmR.%d.c.L", ["Call0", "Elements", "Index"], None),
    "const.proj_lambda_elements": ("SubTmR.%d.c.L", ["Elements", "Index"], None),
    "const.proj_lambda_home": ("SubTmR.%d.c.L", ["Home", "Deref"], None),
    "const.proj_index": ("SubTmR.%d.c.L", lambda d: ["Index"] if d == 1 else ["Index", "Elements", "Index"], None),
    "const.proj_begin": ("SubTmR.%d.c.L", lambda d: ["Begin", "Deref"] if d == 1 else ["Begin", "Deref", "Elements", "Index"], None),
    "const.proj_front": ("SubTmR.%d.c.L", lambda d: ["Front"] if d == 1 else ["Front", "Elements", "Index"], None),
    "const.proj_sliced": ("SubTmR.%d.c.L", ["Sliced", "Index"], None),
    "const.proj_rotated": ("SubTmR.%d.c.L", ["Rotated", "Elements", "Index"], None),
    "const.proj_arrow": ("SubTmR.%d.c.L", ["Begin", "Arrow", "Base", "Deref"], None),
    "const.etrans_array": ("ArrS.%d.c.L", ["ETransMP", "Elements", "Index"], None),
    "const.csub_etrans": ("ArrS.%d.c.L", ["Call0", "ETransMP", "Elements", "Index"], "csub-projection"),
    "const.member_cast_1d": ("ArrS.%d.c.L", ["MemberCast", "Index"], "member-cast-1d"),
    "const.ctl_member_cast": ("ArrS.%d.c.L", ["MemberCast", "Elements", "Index"], None),
    "const.csub_member_cast": ("ArrS.%d.c.L", ["Call0", "MemberCast", "Elements", "Index"], "csub-projection"),
    "const.ctl_reinterpret_n": ("ArrS.%d.c.L", ["ReinterpretN", "Elements", "Index"], None),
    "const.tptr_conv": ("SubTmR.%d.c.L", ["Base", "CvI0m", "Deref"], "tptr-conv"),
    "const.tptr_base": ("SubTmR.%d.c.L", ["Base", "Base"], "tptr-base"),
    "mut.proj_elements_idx": ("SubTmR.%d.m.L", ["Elements", "Index"], None),
    "mut.proj_home": ("SubTmR.%d.m.L", ["Home", "Deref"], None),
    "mut.proj_lambda_elements": ("SubTmR.%d.m.L", ["Elements", "Index"], None),
    "mut.member_cast": ("ArrS.%d.m.L", ["MemberCast", "Elements", "Index"], None),
    "mut.reinterpret_n": ("ArrS.%d.m.L", ["ReinterpretN", "Elements", "Index"], None),
    "const.ctl_iter_conv_implicit": ("Arr.%d.c.L", lambda d: ["Begin", "CvI0m", "Deref"] + ([] if d == 1 else ["Elements", "Index"]), None),
    "const.ctl_iter_conv_explicit": ("Arr.%d.c.L", lambda d: ["Begin", "CvE0m", "Deref"] + ([] if d == 1 else ["Elements", "Index"]), None),
    "const.ctl_iter_conv_assign": ("Arr.%d.c.L", ["Begin", "CvA0m", "Deref", "Elements", "Index"], None),
    "mut.iter_conv": ("Arr.%d.m.L", lambda d: ["Begin", "CvI0m", "Deref"] + ([] if d == 1 else ["Elements", "Index"]), None),
    "const.sptr_conv": ("Arr.%d.c.L", ["Call0", "AddrOf", "CvI0m", "Deref", "Elements", "Index"], "sptr-conv"),
    "const.ctl_eiter_conv": ("Arr.%d.c.L", ["Call0", "Elements", "Begin", "CvI0m", "Deref"], None),
    "const.static_cast": ("Arr.%d.c.L", ["StaticCast", "Elements", "Index"], "static-cast-deprecated"),
    "const.ctl_reinterpret": ("Arr.%d.c.L", ["Reinterpret", "Elements", "Index"], None),
    "const.escape_mutable_base": ("Arr.%d.c.L", ["MutableBase", "Deref"], "escape"),
    "const.escape_const_array_cast": ("Arr.%d.c.L", ["ConstCast", "Elements", "Index"], "escape"),
    "const.ctl_moved_view": ("SubM.%d.c.L", ["Elements", "Index"], None),
    "const.ctl_apply": ("Arr.%d.c.L", ["Apply"], None),
    "const.ctl_elements_at": ("Arr.%d.c.L", ["ElementsAt"], None),
    "mut.static_cast": ("Arr.%d.m.L", ["StaticCast", "Elements", "Index"], None),
    "mut.reinterpret": ("Arr.%d.m.L", ["Reinterpret", "Elements", "Index"], None),
}


def witness_ops(spec, d):
    return spec[1](d) if callable(spec[1]) else spec[1]
# witnesses whose model path ends before the element (the write in the harness is through a mutator / deeper step
# whose acceptance is the model's `writable` of the last state, or, for the controls ending in a view, its negation)
T_EXPECT = {
    "view_assign": {"rebound": "0", "resized": "0", "copied": "1", "source_intact": "1"},
    "array_ref_assign": {"rebound": "0", "resized": "0", "copied": "1"},
    "array_assign": {"resized": "1"},
}
TRAIT_KIND = {"sub_copy": "Sub0", "csub_copy": "CSub0", "aref_copy": "ARef0", "erange_copy": "ER0", "array_copy": "Arr",
              "iter_copy": "It00", "cursor_copy": "Cu0"}


def run_witness(exe):
    rc, out, err = core.sh([exe], timeout=120)
    W, T = {}, {}
    for line in out.splitlines():
        p = line.split()
        if len(p) >= 3 and p[0] in ("W", "T"):
            d = dict(kv.split("=") for kv in p[2:])
            (W if p[0] == "W" else T)[p[1]] = d
    return rc, W, T, err


# ---------------------------------------------------------------------------------------------------
# reporting
# ---------------------------------------------------------------------------------------------------
class Reporter:
    """collects the violations of a run; those that match a known finding print KNOWN-FINDING at once, the others are
    printed at the end (flush), the direct property failures on the library first, then the model/library disagreements"""

    def __init__(self, res):
        self.res = res
        self.n_known = 0
        self.n_viol = 0
        self.pending = []
        self.known_sites = {}

    def report(self, record, body, header, text):
        """record: structured fields of the violation; body: replay lines"""
        kf = core.match_known(PID, record)
        if kf:
            self.n_known += 1
            self.known_sites[kf["id"]] = self.known_sites.get(kf["id"], 0) + 1
            self.res.known_finding(kf)
            return False
        self.n_viol += 1
        prio = {"const": 0, "rebind": 0, "witness": 1, "mutable": 1, "table": 2, "composition": 3}.get(record.get("clause"), 4)
        if record.get("found_by") == "correspondence":
            prio = max(prio, 2)
        self.pending.append((prio, len(self.pending), record, body, header, text))
        return True

    def flush(self, limit=12):
        seen = set()
        for prio, _n, record, body, header, text in sorted(self.pending, key=lambda x: (x[0], x[1])):
            key = (record.get("clause"), record.get("site"), record.get("found_by"))
            if key in seen or len(seen) >= limit:
                continue
            seen.add(key)
            hdr = {"property": PID, "tier": self.res.tier, "seed": self.res.seed}
            hdr.update(header)
            hdr["record"] = json.dumps(record, sort_keys=True)
            hdr["violations-in-this-run-beyond-known-findings"] = self.n_viol
            hdr["note"] = "replay: ./check C16 --replay <this file>"
            # the file name is a hash of the body: keep reports of the same input by different detectors apart
            path = core.write_replay(PID, "# detector: %s / %s\n" % (record.get("found_by"), record.get("clause")) + body, hdr)
            self.res.violation(path, text)
        self.pending = []


def row_tu_text(st, op):
    return gen.single_row_tu(gen.State.parse(st), op)


# ---------------------------------------------------------------------------------------------------
# the checks
# ---------------------------------------------------------------------------------------------------
def check_rows(rep, mrows, rows, tier, stats):
    """the exhaustive tie: every applicable (state, op) row, model vs library"""
    predicted = set(k for k, v in mrows.items() if v in ("Hard", "NoDef"))
    log = {}
    t0 = time.time()
    obs, diag = P.observe_rows(rows, predicted_hard=predicted, log=log, predicted_kind={k: v for k, v in mrows.items() if k in predicted})
    stats["rows_wall_s"] = round(time.time() - t0, 1)
    stats["row_shards"] = log.get("shards")
    stats["rows_compiled_alone"] = log.get("singles")
    stats["rows_must_fail_batched"] = log.get("must_fail_rows_batched")
    stats["rows_unexpectedly_breaking_a_shard"] = log.get("unexpected_broken")
    n_bad = 0
    for st, op in rows:
        key = (str(st), op)
        m, o = mrows.get(key), obs.get(key)
        if m == "NA":
            continue
        if m != o:
            n_bad += 1
            rep.report({"clause": "table", "site": "row:%s.%s" % (st.kind, op), "found_by": "correspondence",
                        "state": str(st), "op": op, "model": m, "library": o},
                       "row %s %s\n" % (st, op),
                       {"found-by": "correspondence (const automaton row)", "model-said": m, "implementation-said": o,
                        "diagnostic": diag.get(key, ""), "probe": row_tu_text(str(st), op)},
                       "row %s %s: model %s library %s" % (st, op, m, o))
    na_rows = [k for k, v in mrows.items() if v == "NA"]
    probed = set((str(st), op) for st, op in rows)
    for k in na_rows:
        if k in probed:
            n_bad += 1
    stats["row_mismatches"] = n_bad
    return obs


def monitor_rows(rep, obs, stats):
    """property monitors on the library's own single-step table (independent of the model)"""
    n_holes = n_wr = n_gap = n_escape = 0
    for (st, op), out in sorted(obs.items()):
        k = st.split(".")[0]
        d = int(st.split(".")[1])
        if out == "Mut" and ro(st):
            n_wr += 1
            rep.report({"clause": "const", "site": "mutator:%s.%s" % (k, op), "found_by": "monitor"},
                       "row %s %s\n" % (st, op), {"found-by": "monitor: a read-only expression accepts a mutator",
                                                   "implementation-said": out, "probe": row_tu_text(st, op)},
                       "read-only %s accepts %s" % (st, op))
        if is_state(out):
            s2 = out[3:]
            if ro(st) and not ro(s2) and op in ESCAPES:
                n_escape += 1
            elif ro(st) and not ro(s2):
                n_holes += 1
                rep.report({"clause": "const", "site": site_of(k, op, d), "found_by": "monitor"},
                           "row %s %s\n" % (st, op),
                           {"found-by": "monitor: a read-only expression yields a mutable one", "implementation-said": out,
                            "probe": row_tu_text(st, op)},
                           "read-only %s --%s--> mutable %s" % (st, op, s2))
            if (not ro(st)) and ro(s2) and op not in INTENDED_CONST and op in STEP_OPS and op in ALPHABET \
                    and not (k in OWNING and st.endswith(".R")) and not (k == "EI0" and op == "Base"):
                n_gap += 1
                rep.report({"clause": "mutable", "site": "gap:%s" % op, "found_by": "monitor"},
                           "row %s %s\n" % (st, op),
                           {"found-by": "monitor: a mutable expression yields a read-only one through an operation not meant to",
                            "implementation-said": out, "probe": row_tu_text(st, op)},
                           "mutable %s --%s--> read-only %s" % (st, op, s2))
    for st in sorted(set(s for s, _ in obs)):
        k, d, c, cat = st.split(".")
        if not ro(st) and assignable_kind(k, cat) and not writable_state(obs, st):
            rep.report({"clause": "mutable", "site": "nowrite:%s" % k, "found_by": "monitor"}, "state %s\n" % st,
                       {"found-by": "monitor: a mutable element lvalue / view / range accepts no mutator"}, "mutable %s accepts no mutator" % st)
    stats["monitor_hole_rows"] = n_holes
    stats["monitor_escape_rows_const_array_cast_mutable_base"] = n_escape
    stats["monitor_writable_readonly_rows"] = n_wr
    stats["monitor_gap_rows"] = n_gap


def check_paths(rep, obs, tier, seed, stats, maxd_new=3):
    # every op sequence of length <= 2 over the whole alphabet; thorough: also every sequence of length 3 over the access /
    # view-forming / language operations of the first version of the alphabet (the property's own path alphabet is inside it)
    depth = 2 if tier == "quick" else 3
    rng = random.Random(seed)
    paths, n_hard = enumerate_paths(obs, 2, full_last=True, cap=None, rng=rng, maxd_new=maxd_new)
    if depth == 3:
        more, n_hard3 = enumerate_paths(obs, 3, full_last=True, cap=None, rng=rng, maxd_new=maxd_new,
                                        step_ops=gen.OLD_ACCESS_NAMES + gen.LANG_NAMES, only_len=3)
        base = len(paths)
        paths += [("p%d" % (base + i), r, d, st, pred, sts) for i, (_pid, r, d, st, pred, sts) in enumerate(more)]
        n_hard += n_hard3
    t0 = time.time()
    got = P.observe_paths([(pid, r, d, steps) for pid, r, d, steps, _pred, _sts in paths])
    stats["paths_wall_s"] = round(time.time() - t0, 1)
    n_wf = n_const_viol = n_mut_viol = n_comp = n_escaped = 0
    per_root = {}
    nontrivial = set()
    samples = []
    const_names = set(n for n, c in gen.ROOTS if c)
    for pid, rname, d0, steps, pred, sts in paths:
        lib = got.get(pid)
        ops = [op for op, _k, _d in steps]
        txt = path_text(rname, d0, steps)
        if lib is None:
            lib = "<no output>"
        if lib != pred:
            n_comp += 1
            rep.report({"clause": "composition", "site": "path:" + txt, "found_by": "paths"}, "path " + txt + "\n",
                       {"found-by": "direct enumeration: the composed expression differs from the chain of single steps",
                        "single-steps-said": pred, "implementation-said": lib,
                        "expression": gen.path_expr(steps, "std::declval<c16roots::T_%s_%d>()" % (rname, d0))},
                       "path %s: steps say %s, expression is %s" % (txt, pred, lib))
            continue
        if not is_state(lib):
            continue
        n_wf += 1
        per_root[rname] = per_root.get(rname, 0) + 1
        if len(steps) >= 2:
            nontrivial.add(txt)
        final = lib[3:]
        fk, fd, fc, fcat = final.split(".")
        wr = writable_state(obs, final)
        if len(samples) < 6 and len(steps) == depth and (pid.endswith("7") or wr):
            samples.append({"root": rname, "D": d0, "ops": ops, "expression": gen.path_expr(steps, "ROOT"), "result": lib, "writable": wr})
        if rname in const_names:
            if wr:
                n_const_viol += 1
                cu = culprit(sts, steps, True)
                if cu and cu[2] in ESCAPES:
                    n_escaped += 1
                    continue
                site = site_of(cu[1], cu[2], cu[3]) if cu else "path:" + txt
                rep.report({"clause": "const", "site": site, "found_by": "paths"}, "path " + txt + "\n",
                           {"found-by": "direct enumeration from a const root: the result is writable",
                            "implementation-said": lib, "expression": gen.path_expr(steps, "ROOT"),
                            "first-offending-step": "%s.%s" % (cu[1], cu[2]) if cu else "?"},
                           "const root path %s is writable (%s)" % (txt, lib))
        else:
            keeps = all(op not in INTENDED_CONST and op in ALPHABET for op in ops)
            via_owning_rvalue = any(s.split(".")[0] in OWNING and s.endswith(".R") for s in sts[:-1])
            assignable = assignable_kind(fk, fcat)
            if keeps and assignable and not wr and not via_owning_rvalue:
                n_mut_viol += 1
                cu = culprit(sts, steps, False)
                site = ("gap:%s" % cu[2]) if cu else "path:" + txt
                rep.report({"clause": "mutable", "site": site, "found_by": "paths"}, "path " + txt + "\n",
                           {"found-by": "direct enumeration from a mutable root: the result is not writable",
                            "implementation-said": lib, "expression": gen.path_expr(steps, "ROOT"),
                            "first-offending-step": "%s.%s" % (cu[1], cu[2]) if cu else "?"},
                           "mutable root path %s is not writable (%s)" % (txt, lib))
    stats.update({"paths_depth": depth, "paths_compiled": len(paths), "paths_well_formed": n_wf,
                  "paths_skipped_hard_prefix_or_step": n_hard, "paths_composition_mismatches": n_comp,
                  "paths_const_root_writable": n_const_viol, "paths_const_root_writable_through_named_escape": n_escaped,
                  "paths_mutable_root_not_writable": n_mut_viol,
                  "paths_well_formed_per_root": per_root})
    return len(paths), len(nontrivial), samples


def check_random_paths(rep, obs, tier, seed, stats):
    """longer paths drawn by the driver from the model (all choices from the seed): model's final state and
    writability vs the library's composed expression"""
    count = 1500 if tier == "quick" else 12000
    rc, out, err = core.sh([DRIVER, "paths", "--seed", str(seed), "--count", str(count), "--minlen", "3",
                            "--maxlen", "6" if tier == "quick" else "8"], timeout=300)
    if rc != 0:
        raise RuntimeError("driver_c16 paths: " + err[-500:])
    q = parse_q(out)
    dist = {}
    for line in out.splitlines():
        if line.startswith("DIST "):
            dist = json.loads(line[5:])
    name_of_state = {v: k for k, v in gen.ROOT_STATE.items()}
    items, seen = [], set()
    for qid, d in q.items():
        k, dd, c, cat = d["root"].split(".")
        rname = name_of_state.get("%s.%%d.%s.%s" % (k, c, cat))
        if rname is None or not d["ops"]:
            continue
        # receiver kinds along the path come from the model's own run (needed for CallAll only)
        st, steps, ok = d["root"], [], True
        for op in d["ops"]:
            kk, ddd, _c, _cat = st.split(".")
            steps.append((op, kk, int(ddd)))
            nxt = step_observed(obs, st, op)
            if not is_state(nxt):
                ok = False
                break
            st = nxt[3:]
            if int(st.split(".")[1]) > gen.MAXD_CANON:
                ok = False
                break
        if len(steps) != len(d["ops"]):
            continue
        if is_state(d["final"]) and (canon(d["final"][3:])[0], "BindRef") not in obs:
            continue      # the path ends in a state outside the tied table (quick: D = 3 of the projection families)
        key = (rname, dd, tuple(d["ops"]))
        if key in seen:
            continue
        seen.add(key)
        items.append((qid, rname, int(dd), steps, d))
    got = P.observe_paths([(qid, r, dd, steps) for qid, r, dd, steps, _d in items])
    n_bad = 0
    for qid, rname, dd, steps, d in items:
        lib = got.get(qid, "<no output>")
        if lib != d["final"]:
            n_bad += 1
            txt = path_text(rname, dd, steps)
            rep.report({"clause": "composition", "site": "path:" + txt, "found_by": "random-paths"}, "path " + txt + "\n",
                       {"found-by": "correspondence on a generated path (model run_path vs composed expression)",
                        "model-said": d["final"], "implementation-said": lib, "expression": gen.path_expr(steps, "ROOT")},
                       "generated path %s: model %s library %s" % (txt, d["final"], lib))
            continue
        if is_state(lib):
            wr = writable_state(obs, lib[3:])
            if (d["writable"] == "1") != wr:
                n_bad += 1
                txt = path_text(rname, dd, steps)
                rep.report({"clause": "composition", "site": "writable:" + txt, "found_by": "random-paths"}, "path " + txt + "\n",
                           {"found-by": "correspondence on a generated path: writability of the final state",
                            "model-said": d["writable"], "implementation-said": str(wr)}, "generated path %s writability" % txt)
            # the theorems, evaluated on the library's own answer
            if d["ro0"] == "1" and d["clean"] == "1" and wr:
                n_bad += 1
                rep.report({"clause": "const", "site": "theorem:" + path_text(rname, dd, steps), "found_by": "random-paths"},
                           "path " + path_text(rname, dd, steps) + "\n", {"found-by": "C16_const_propagates_partial instance fails on the library"},
                           "clean path from a read-only root is writable on the library")
    stats.update({"random_paths_generated": len(q), "random_paths_distinct_compiled": len(items), "random_paths_disagreeing": n_bad,
                  "random_paths_distribution": dist})
    return len(items), [{"root": d["root"], "ops": d["ops"], "model_final": d["final"], "library": got.get(qid)} for qid, _r, _dd, _s, d in items[:3]]


def check_witnesses(rep, exe, mrows, stats):
    rc, W, T, err = run_witness(exe)
    if rc != 0 or not W:
        rep.report({"clause": "witness", "site": "harness-crash", "found_by": "witness"}, "witness all\n",
                   {"found-by": "h_const_witness exited with %s" % rc, "log": err[-800:]}, "witness harness failed")
        return 0
    items = []
    for wid in W:
        tag, _, name = wid.partition(".")
        spec = WITNESS.get(name)
        if spec:
            items.append((wid, spec[0] % int(tag[1:]), witness_ops(spec, int(tag[1:]))))
    model = model_eval(items)
    n_written = n_escape = 0
    for wid, w in sorted(W.items()):
        tag, _, name = wid.partition(".")
        spec = WITNESS.get(name)
        accepted = (w["compiled"] == "1")
        modified = (w["modified"] == "1")
        if accepted != modified:
            rep.report({"clause": "witness", "site": "accepted-but-no-effect:" + name, "found_by": "witness"}, "witness %s\n" % wid,
                       {"found-by": "run-time witness: accepted=%s modified=%s" % (accepted, modified)}, "witness %s inconsistent" % wid)
        if name.startswith("const.") and accepted and spec and spec[2] == "escape":
            n_escape += 1          # const_array_cast() / mutable_base(): the library's named ways out
        elif name.startswith("const.") and accepted:
            n_written += 1
            rep.report({"clause": "const", "site": (spec[2] if spec and spec[2] else "witness:" + name), "found_by": "witness"},
                       "witness %s\n" % wid,
                       {"found-by": "run-time witness: a write through a const access path compiled and changed the array",
                        "implementation-said": "compiled=1 modified=%s" % w["modified"]},
                       "const access path %s writes" % wid)
        if name.startswith("mut.") and not (accepted and modified):
            rep.report({"clause": "mutable", "site": "witness:" + name, "found_by": "witness"}, "witness %s\n" % wid,
                       {"found-by": "run-time witness: a write through a mutable path was rejected or had no effect"},
                       "mutable path %s does not write" % wid)
        # correspondence with the model: the model path must be well formed exactly when it says so, and the model's
        # verdict on the last state must agree with what the harness saw
        m = model.get(wid)
        if m and spec:
            full = (int(m["steps"]) == len(witness_ops(spec, int(tag[1:]))))
            ends_elem = m["final"].startswith("To:Elem")
            model_accepts = full and (m["writable"] == "1") if (ends_elem or name.endswith("_assign") or name.endswith("fill") or name == "const.ctl_assign_view") else None
            if model_accepts is not None and model_accepts != accepted:
                rep.report({"clause": "table", "site": "witness-model:" + name, "found_by": "correspondence"}, "witness %s\n" % wid,
                           {"found-by": "correspondence: model verdict on the witness path vs the run", "model-said": json.dumps(m),
                            "implementation-said": json.dumps(w)}, "witness %s: model %s run %s" % (wid, model_accepts, accepted))
    # reference types
    kinds = {}
    rc2, out2, _ = core.sh([DRIVER, "kinds"], timeout=60)
    for line in out2.splitlines():
        p = line.split()
        if p and p[0] == "K":
            kinds[p[1]] = dict(kv.split("=") for kv in p[2:])
    for tid, t in sorted(T.items()):
        tag, _, name = tid.partition(".")
        if name in T_EXPECT:
            for k, v in T_EXPECT[name].items():
                if t.get(k) != v:
                    rep.report({"clause": "rebind", "site": "%s:%s" % (name, k), "found_by": "witness"}, "witness %s\n" % tid,
                               {"found-by": "run-time check of reference-type assignment", "expected": "%s=%s" % (k, v),
                                "implementation-said": json.dumps(t)}, "%s: %s=%s expected %s" % (tid, k, t.get(k), v))
            if name == "view_assign":
                for kind in ("Sub0", "CSub0"):
                    if kinds.get(kind, {}).get("rebind") != t.get("rebound") or kinds.get(kind, {}).get("resize") != t.get("resized"):
                        rep.report({"clause": "rebind", "site": "model:" + kind, "found_by": "correspondence"}, "witness %s\n" % tid,
                                   {"found-by": "correspondence rebindable/resizable", "model-said": json.dumps(kinds.get(kind)),
                                    "implementation-said": json.dumps(t)}, "rebind model mismatch")
        if name == "traits":
            for key, kind in TRAIT_KIND.items():
                if t.get(key) != kinds.get(kind, {}).get("copy"):
                    rep.report({"clause": "rebind", "site": "copy:" + kind, "found_by": "correspondence"}, "witness %s\n" % tid,
                               {"found-by": "correspondence copy_constructible", "model-said": json.dumps(kinds.get(kind)),
                                "implementation-said": "%s=%s" % (key, t.get(key))}, "copy-constructibility of %s" % kind)
            for key in ("sub_copy", "csub_copy", "aref_copy", "aref_move", "csub_copy_assign"):
                if t.get(key) != "0":
                    rep.report({"clause": "rebind", "site": "trait:" + key, "found_by": "witness"}, "witness %s\n" % tid,
                               {"found-by": "monitor: a reference type is copyable / rebindable", "implementation-said": json.dumps(t)},
                               "%s %s=1" % (tid, key))
    stats.update({"witness_cases": len(W), "witness_const_writes_observed": n_written,
                  "witness_const_writes_through_named_escape": n_escape, "reference_type_cases": len(T)})
    return len(W) + len(T)


# ---------------------------------------------------------------------------------------------------
def prepare(res):
    """Coq build + audit, model driver, probe header, witness harness.  A failure of the model side is fatal for the run
    (reported as no-failing-input-found); a witness harness or probe header that no longer compiles against the library is
    remembered and reported at the end only if the other checks find no concrete failing input."""
    coq = core.coq_check_property(PID)
    core.proof_coverage(res, coq)
    ok_d, log_d = core.ensure_driver_for("c16", "ExtractC16.v", ["c16_driver.ml"], "driver_c16", model_base="modelc16")
    if not ok_d:
        path = core.write_replay(PID, "", {"property": PID, "found-by": "build:model-extraction-or-driver", "log": log_d[-3000:]})
        res.violation(path, "build:model-extraction-or-driver", no_input=True)
        return None
    ok_p, log_p = P.ensure_pch(P.workdir())
    if not ok_p:
        path = core.write_replay(PID, "", {"property": PID, "found-by": "build:probe-header-does-not-compile-against-%s" % core.INCLUDE,
                                           "log": log_p[-3000:]})
        res.violation(path, "build:probe-header", no_input=True)
        return None
    ok_h, exe, log_h = core.build_harness("h_const_witness", ["h_const_witness.cpp"], flags=("-w",))
    deferred = []
    if not ok_h:
        deferred.append(("build:harness-h_const_witness-does-not-compile-against-%s" % core.INCLUDE, log_h))
        exe = None
    return coq, exe, deferred


def eval_path_lines(rep, obs, pl, found_by, verbose=True):
    """path lines `path <root> <D> <op,op,...>`: compile each as one composed expression (all in one batch) and apply the two clauses"""
    items = []
    for j, l in enumerate(pl):
        _p, rname, d0, ops = l.split()
        st = gen.ROOT_STATE[rname] % int(d0)
        steps, sts = [], [st]
        for op in ops.split(","):
            k, d, _c, _cat = st.split(".")
            steps.append((op, k, int(d)))
            nxt = step_observed(obs, st, op)
            if not is_state(nxt):
                break
            st = nxt[3:]
            sts.append(st)
        items.append(("r%d" % j, l, rname, int(d0), ops, steps, sts))
    got = P.observe_paths([(pid, rname, d0, steps) for pid, _l, rname, d0, _ops, steps, _sts in items]) if items else {}
    n = 0
    for pid, l, rname, d0, ops, steps, sts in items:
        lib = got.get(pid)
        wr = is_state(lib) and writable_state(obs, lib[3:])
        n += 1
        if verbose:
            print("replay %s: expression %s -> %s writable=%s" % (l, gen.path_expr(steps, "ROOT"), lib, wr))
        is_const = dict(gen.ROOTS)[rname]
        hdr = {"found-by": found_by, "implementation-said": lib, "expression": gen.path_expr(steps, "ROOT")}
        if is_const and (wr or (is_state(lib) and not ro(lib[3:]))):
            cu = culprit(sts + ([lib[3:]] if is_state(lib) and len(sts) == len(steps) else []), steps, True)
            if not (cu and cu[2] in ESCAPES):
                rep.report({"clause": "const", "site": site_of(cu[1], cu[2], cu[3]) if cu else "path:" + l, "found_by": "paths"}, l + "\n",
                           hdr, "const root path %s is writable" % l)
        fk, _fd, _fc, fcat = (lib[3:].split(".") if is_state(lib) else ("", "", "", ""))
        assignable = is_state(lib) and assignable_kind(fk, fcat)
        if (not is_const) and assignable and not wr and all(o not in INTENDED_CONST and o in ALPHABET for o in ops.split(",")):
            cu = culprit(sts, steps, False)
            rep.report({"clause": "mutable", "site": ("gap:%s" % cu[2]) if cu else "path:" + l, "found_by": "paths"}, l + "\n",
                       hdr, "mutable root path %s is not writable" % l)
    return n


def do_replay(res, rep, replay, exe, mrows):
    lines = [l.strip() for l in open(replay) if l.strip() and not l.startswith("#")]
    stats = {}
    rows = [(gen.State.parse(l.split()[1]), l.split()[2]) for l in lines if l.startswith("row ")]
    if rows:
        obs = check_rows(rep, mrows, rows, res.tier, stats)
        monitor_rows(rep, obs, stats)
        for k, v in sorted(obs.items()):
            print("replay row %s %s: library %s, model %s" % (k[0], k[1], v, mrows.get(k)))
    pl = [l for l in lines if l.startswith("path ")]
    if pl:
        obs = check_rows(rep, mrows, gen.all_rows(maxd=3, maxd_new=3), res.tier, stats)
        eval_path_lines(rep, obs, pl, "replay")
    if any(l.startswith("witness ") for l in lines):
        if exe:
            check_witnesses(rep, exe, mrows, stats)
        else:
            res.violation(os.path.relpath(replay, core.VERIF), "witness harness does not compile", no_input=True)
    rep.flush()
    print("replay verdict:", "violation" if res.violations else "no violation (known findings: %d)" % rep.n_known)


def run(tier, seed, replay=None):
    res = core.Result(PID, tier, seed, level="proof")
    t_start = time.time()
    prep = prepare(res)
    t_prep = time.time() - t_start
    if prep is None:
        return res.finish()
    coq, exe, deferred = prep
    rep = Reporter(res)
    maxd = 3 if tier == "quick" else 4      # thorough also ties D = 4 (class D >= 3 of the model) row by row
    maxd_new = 2 if tier == "quick" else 3  # the kinds over the pointer families of the projections (classes D = 1, D = 2; thorough: D >= 3 too)
    mrows = model_rows(maxd, maxd_new)
    if replay:
        do_replay(res, rep, replay, exe, model_rows(maxd, 3))
        return res.finish()
    stats = {"table_max_D": maxd, "table_max_D_projection_families": maxd_new, "prepare_wall_s": round(t_prep, 1)}
    rows = gen.all_rows(maxd=maxd, maxd_new=maxd_new)
    obs = check_rows(rep, mrows, rows, tier, stats)
    monitor_rows(rep, obs, stats)
    t0 = time.time()
    n_w = check_witnesses(rep, exe, mrows, stats) if exe else 0
    stats["witness_wall_s"] = round(time.time() - t0, 1)
    corpus_lines = []
    for f in sorted(glob.glob(os.path.join(core.VERIF, "corpus", PID, "*.prog"))):
        corpus_lines += [l.strip() for l in open(f) if l.startswith("path ")]
    stats["corpus_paths"] = eval_path_lines(rep, obs, sorted(set(corpus_lines)), "corpus (past findings, re-run first)", verbose=False)
    n_paths, n_nontrivial, path_samples = check_paths(rep, obs, tier, seed, stats, maxd_new)
    t0 = time.time()
    n_rand, rand_samples = check_random_paths(rep, obs, tier, seed, stats)
    stats["random_paths_wall_s"] = round(time.time() - t0, 1)
    stats["total_wall_s"] = round(time.time() - t_start, 1)
    rep.flush()
    if not res.violations:
        for step, log in deferred:
            path = core.write_replay(PID, "witness all\n", {"property": PID, "found-by": step, "log": log[-3000:]})
            res.violation(path, step, no_input=True)
    if not coq["ok"] and not res.violations:
        path = core.write_replay(PID, "", {"property": PID, "found-by": "proof:Properties_%s.v" % PID, "log": coq["log"][-3000:],
                                           "obligations": coq["obligations"], "discharged": coq["discharged"]})
        res.violation(path, "proof obligations no longer check", no_input=True)
    outcomes = {}
    for v in obs.values():
        key = v.split(":")[0] if not v.startswith("To:") else "To"
        outcomes[key] = outcomes.get(key, 0) + 1
    row_samples = [{"state": k[0], "op": k[1], "library": obs[k], "model": mrows.get(k)}
                   for k in [("Arr.2.c.L", "Begin"), ("It10.2.m.R", "Index"), ("CSub0.2.m.R", "Elements"), ("Sub0.3.c.L", "Taked"),
                             ("SubTmR.2.c.L", "Index"), ("CSubTmR.1.m.R", "Index"), ("It10.2.m.R", "CvI0m"), ("SP10.2.m.R", "CvI0m"),
                             ("ArrS.2.c.L", "ETransMP"), ("PtTmC.0.m.R", "CvE0m")] if k in obs]
    res.coverage.update({
        "evaluations": len(obs) + n_paths + n_rand + n_w,
        "distinct_nontrivial": n_nontrivial + n_rand,
        "exhaustive": True,
        "rule": "(1) EVERY row (state, op) of the const automaton: 93 kinds -- the 25 over int* / int const* for D=1..%d, the 68 over the "
                "pointer families of the projections (transform_ptr over S* / S const* with reference int&, int const&, int; move_ptr; the "
                "struct-element sources) for D=1..%d; 0 for pointers/element refs -- x {mutable,const} x {lvalue,rvalue} x 99 operations "
                "(46 access / view-forming, 12 projections and casts, 5 other element-access members, 12 handle conversions "
                "{implicit,explicit,assignment} x {iterator,const_iterator} x {mutable,const pointer}, 2 comparisons, 12 view constructions, "
                "3 decays, 3 language steps, 4 mutators) minus the NA rows = %d compiled probes, each compared with the extracted model's row "
                "(exhaustive, not sampled); rows the model or the run finds ill-formed beyond SFINAE are compiled as must-fail functions "
                "(an error at the row's own line, else alone) and must fail (Hard) or must fail to link (NoDef). (2) every op sequence of "
                "length <= 2 over the %d access / conversion / language operations from the 12 kinds of root (array, array const, "
                "static_array, array_ref, view by auto&& / auto const&; struct array, struct array const, projection view and element_moved "
                "view by auto&& / auto const&) x D=1..3 whose prefixes are well-formed%s, as ONE composed C++ expression each; non-trivial = "
                "length >= 2, distinct by (root, D, op sequence). (3) %s generated paths of length 3..%d from the model (driver_c16 paths, "
                "every choice from the seed, language-level steps down-weighted), distinct by (root, D, ops), all counted non-trivial. "
                "(4) run-time write attempts and reference-type checks of h_const_witness (projection views, casts, conversions included)."
                % (maxd, maxd_new, len(obs), len(STEP_OPS),
                   "" if tier == "quick" else ", and every sequence of length 3 over the 49 operations of the first alphabet",
                   stats.get("random_paths_generated"), 6 if tier == "quick" else 8),
        "samples": row_samples + path_samples + rand_samples,
        "generator_distribution": stats.pop("random_paths_distribution", {}),
        "table_rows_compared": len(obs),
        "table_outcomes_observed": outcomes,
        "known_finding_hits": rep.known_sites,
        "violations_beyond_known": rep.n_viol,
        "stats": stats,
        "not_exercised": ["operator[](tuple) (deprecated BMA compatibility, 1-D), free-function forms (begin(x), data(x), ...: they forward to the "
                          "members), tiled, assign(it), array_ptr (explicit from array*: its constructor from array const* is accepted and does "
                          "not instantiate), mbase() const& (returns element_ptr& from a const object: never instantiates)",
                          "results outside the fragment are absorbing (To:Other): move() / move_subarray, element_moved of a view over int const*, "
                          "static_array_cast<T const>() (element type int const), struct elements themselves, projections of projections",
                          "functors other than the four of the probes (&S::b, S& -> int&, S const& -> int const&, S const& -> int); the "
                          "transform_ptr kinds are functor-agnostic, their canonical receiver types carry &S::b (value families: the value "
                          "functor); conversions after another functor and in the value families have no rows",
                          "element types other than int and struct {int a; int b;}, non-default layouts: assumed not to change overload resolution",
                          "quick ties the projection families at D = 1, 2 (classes D = 1 and D = 2 of the model), thorough at D = 1..3; D >= 4 rows "
                          "are tied only through the uniformity of the class templates in D (classes 0|1|2|>=3 of the model)"],
    })
    res.assumptions = ["g++ 12 / libstdc++ as installed; -std=c++17", "element type int (struct S for the projection sources), default layout",
                       "a prvalue and an xvalue of the same type are one state: view construction T(prvalue T) (guaranteed elision) is composed "
                       "only as the single step on a root",
                       "the type and value category of an expression determine overload resolution on it (C++ language rule); "
                       "checked on every enumerated path by comparing the composed expression with the chain of single steps",
                       "rows for D above 3 behave like D = 3 (the library specialises only D = 0 and D = 1)"]
    return res.finish()

"""C20 -- which generated family or probe reaches which assertion site.

Every BOOST_MULTI_ASSERT / assert of array_ref.hpp, array.hpp and detail/layout.hpp (plus detail/operators.hpp) is listed
from the header text of the tree under test (core.INCLUDE).  Two measurements, both on the real library:

 (i)  REACHED ON VALID CALLS: the unchanged harness sources are compiled once more with --coverage (assertions enabled)
      and run on the same generated valid programs as the quick tier; gcov's execution count of the assertion's line is
      the number of times the assertion was evaluated (and held: no run may abort);
 (ii) FIRED ON VIOLATING CALLS: the death tests and the violating probes of h_asserts print the file:line of the
      assertion that stopped them (L lines).

Used by  python3 -m vlib.c20_sites [--seed S]   (prints the table of notes/REPORT_C20.txt) and by the thorough tier of
./check C20 (vlib/c20.py: evidence keys assertion_sites_*).  Sites are identified by file + normalised expression +
occurrence number, not by line number, so an unrelated edit above a site does not change its name."""
import collections
import concurrent.futures as cf
import glob
import gzip
import json
import os
import re
import shutil
import sys

from . import core

HEADERS = ["array_ref.hpp", "array.hpp", "detail/layout.hpp", "detail/operators.hpp"]
SITE_RE = re.compile(r"\b(BOOST_MULTI_ASSERT|assert)\s*\(")


def _strip_line_comment(line):
    k = line.find("//")
    return line if k < 0 else line[:k]


def _expr_at(text, start):
    """text[start] is the '(' after the macro name: returns the balanced argument."""
    depth, k = 0, start
    while k < len(text):
        c = text[k]
        if c == "(":
            depth += 1
        elif c == ")":
            depth -= 1
            if depth == 0:
                return text[start + 1:k]
        k += 1
    return text[start + 1:]


def _enclosing(lines, n):
    """A short name for the function that holds line n (0-based): nearest preceding line that looks like a signature."""
    sig = re.compile(r"(operator\s*[^\s(]+|~?\b[A-Za-z_][A-Za-z_0-9]*)\s*\(")
    for k in range(n, max(n - 40, -1), -1):
        l = _strip_line_comment(lines[k])
        if k != n and (";" in l and "{" not in l):
            continue
        if "{" in l or k == n:
            head = l.split("{")[0] if k != n else l.split("BOOST_MULTI_ASSERT")[0].split("assert(")[0]
            cands = [m.group(1) for m in sig.finditer(head)
                     if m.group(1) not in ("if", "for", "while", "switch", "return", "sizeof", "decltype", "static_cast", "noexcept",
                                           "enable_if_t", "declval", "assert", "BOOST_MULTI_ASSERT", "is_nothrow_copy_assignable_v")]
            if cands:
                return re.sub(r"\s+", "", cands[0])
    return "?"


def list_sites(include=None):
    """[{file, line, macro, expr, fn, key}] for every live (not commented-out) assertion."""
    include = include or core.INCLUDE
    out = []
    for h in HEADERS:
        path = os.path.join(include, "boost", "multi", h)
        if not os.path.exists(path):
            continue
        lines = open(path, errors="replace").read().splitlines()
        seen = collections.Counter()
        for n, raw in enumerate(lines):
            l = _strip_line_comment(raw)
            if l.strip().startswith("#"):
                continue
            for m in SITE_RE.finditer(l):
                if m.group(1) == "assert" and l[:m.start()].rstrip().endswith("BOOST_MULTI_ASSERT(Expr)"):
                    continue
                expr = re.sub(r"\s+", " ", _expr_at(l, m.end() - 1)).strip()
                fn = _enclosing(lines, n)
                base = "%s|%s|%s" % (h, fn, expr)
                seen[base] += 1
                out.append({"file": h, "line": n + 1, "macro": m.group(1), "expr": expr, "fn": fn, "key": "%s#%d" % (base, seen[base])})
    return out


# ---------------------------------------------------------------------------------------------------------------------
# (i) coverage build
# ---------------------------------------------------------------------------------------------------------------------
def _cov_dir():
    d = os.path.join(core.BUILD, "work", "C20", "cov")
    os.makedirs(d, exist_ok=True)
    return d


def cov_build(name, sources, flags=()):
    """g++ --coverage -O0 in its own directory (the .gcno/.gcda files live there).  Returns (ok, exe, dir, log)."""
    d = os.path.join(_cov_dir(), name)
    shutil.rmtree(d, ignore_errors=True)
    os.makedirs(d)
    exe = os.path.join(d, name)
    srcs = [os.path.join(core.VERIF, "harness", s) for s in sources]
    cmd = ["g++", "-std=c++17", "-O0", "-g0", "--coverage", "-DC20_COVERAGE", "-I" + core.INCLUDE, "-I" + os.path.join(core.VERIF, "harness")] \
        + list(flags) + srcs + ["-o", exe]
    rc, out, err = core.sh(cmd, timeout=900, cwd=d)
    return rc == 0, exe, d, (out + err)[-3000:]


def cov_counts(d):
    """{header: {line: count}} from the .gcda files under d."""
    counts = {h: collections.Counter() for h in HEADERS}
    gcdas = glob.glob(os.path.join(d, "*.gcda"))
    if not gcdas:
        return counts
    rc, out, err = core.sh(["gcov", "--json-format", "--stdout"] + [os.path.basename(g) for g in gcdas], timeout=600, cwd=d)
    for chunk in out.splitlines():
        chunk = chunk.strip()
        if not chunk.startswith("{"):
            continue
        try:
            j = json.loads(chunk)
        except ValueError:
            continue
        for f in j.get("files", []):
            for h in HEADERS:
                if f["file"].endswith("boost/multi/" + h):
                    for ln in f.get("lines", []):
                        counts[h][ln["line_number"]] += ln.get("count", 0)
    return counts


def measure(seed=None, quick=True, log=print):
    """Returns (sites, reached, fired, problems): reached[key] = {family: count}, fired[key] = {source: count}."""
    from . import c20, c07
    seed = core.seed_from_env() if seed is None else seed
    sites = list_sites()
    by_line = {(s["file"], s["line"]): s for s in sites}
    reached = {s["key"]: collections.Counter() for s in sites}
    fired = {s["key"]: collections.Counter() for s in sites}
    problems = []
    core.ensure_driver()
    core.ensure_driver_for("c20", "ExtractC20.v", ["zu.ml", "views.ml", "assign.ml", "c20_gen.ml"], c20.DRIVER_C20, model_base="model")
    has_ge = c07.ge_probe()
    fams = c20.make_families(has_ge)
    life = c20.LifeFamily()
    life.lc.ensure_driver()
    deaths = c20.DeathFamily()
    counts_n = {"views": 600, "views-rebased": 400, "iters": 400, "iters-rebased": 200, "assign": 400, "assign-rebased": 200, "compare": 400}
    extras = {"views": ["--maxops", "6"], "views-rebased": ["--maxops", "6"], "iters": ["--maxops", "4", "--maxsteps", "10"],
              "iters-rebased": ["--maxops", "3", "--maxsteps", "10"], "assign": ["--maxops", "4", "--maxrank", "3"],
              "assign-rebased": ["--maxops", "4", "--maxrank", "3"], "compare": []}
    # ---- builds (one per distinct harness source) ----
    builds = {}
    todo = {}
    for fam in fams:
        todo.setdefault(fam.harness, (fam.sources, tuple(fam.extra_flags)))
    todo["h_asserts"] = (["h_asserts.cpp"], ())
    life_cfgs = life.lcfgs
    extra_life = [] if life.lc.assign_fill_compiles()[0] else ["-DLIFE_NO_ASSIGN_FILL"]
    for c in life_cfgs:
        todo["h_life_" + life.lc.cfg_key(c)] = (["h_life.cpp"], tuple(life.lc.cfg_flags(c) + extra_life))
    with cf.ThreadPoolExecutor(max_workers=min(core.NCPU, len(todo))) as ex:
        for name, r in zip(todo.keys(), ex.map(lambda kv: cov_build(kv[0], kv[1][0], kv[1][1]), todo.items())):
            builds[name] = r
            if not r[0]:
                problems.append("coverage build of %s failed: %s" % (name, r[3][-400:]))

    def run(exe, text, shards=8):
        out, crashes = core.run_harness(exe, text, shards=shards, timeout=600)
        return out, crashes

    def add_counts(name, fam_name, before):
        now = cov_counts(builds[name][2])
        for h in HEADERS:
            for ln, c in now[h].items():
                dlt = c - before[h].get(ln, 0)
                s = by_line.get((h, ln))
                if s is not None and dlt > 0:
                    reached[s["key"]][fam_name] += dlt
        return now

    # ---- valid programs, family by family (counter deltas attribute the executions) ----
    state = {}
    for k, fam in enumerate(fams):
        b = builds.get(fam.harness)
        if not b or not b[0]:
            continue
        prog, _obs, _d = fam.generate(seed + 11 * k, counts_n[fam.name], extra=extras[fam.name] + fam.gen_extra, prefix="cv" + str(k))
        _out, crashes = run(b[1], prog)
        if crashes:
            problems.append("%s: %d valid programs did not finish in the coverage build" % (fam.name, len(crashes)))
        state[fam.harness] = add_counts(fam.harness, fam.name, state.get(fam.harness, {h: {} for h in HEADERS}))
        log("  %-16s %d programs" % (fam.name, len(core.split_cases(prog))))
    for k, c in enumerate(life_cfgs):
        name = "h_life_" + life.lc.cfg_key(c)
        b = builds.get(name)
        if not b or not b[0]:
            continue
        prog = life.lc.generate("c06", c, seed + 31 * k, 300, 16, "cl6%d_" % k) + life.lc.generate("c04", c, seed + 31 * k + 7, 200, 16, "cl4%d_" % k)
        _out, crashes = run(b[1], prog)
        if crashes:
            problems.append("life %s: %d histories did not finish in the coverage build" % (name, len(crashes)))
        add_counts(name, "life", {h: {} for h in HEADERS})
        log("  %-16s %d histories" % (name, len(core.split_cases(prog))))
    # ---- h_asserts: death programs (their valid controls count as reached; the L lines as fired) and probes ----
    b = builds.get("h_asserts")
    if b and b[0]:
        prog_d, obs_d, _dd = deaths.generate(seed + 101, 330, extra=["--maxops", "4", "--asg-pct", "45"], prefix="cd")
        prog_r, obs_r, _dr = deaths.generate(seed + 102, 110, extra=["--maxops", "4", "--asg-pct", "0", "--rebased"], prefix="cr")
        out, _cr = run(b[1], prog_d + prog_r)
        st = add_counts("h_asserts", "deaths(valid controls)", {h: {} for h in HEADERS})
        outp, _cr = run(b[1], c20.probe_prog(), shards=1)
        add_counts("h_asserts", "probes", st)
        for text, src in ((out, "deaths"), (outp, "probes")):
            names = {}
            for l in text.splitlines():
                if l.startswith("K "):
                    names[l.split()[1]] = l.split()[2]
            for l in text.splitlines():
                if not l.startswith("L "):
                    continue
                m = re.search(r"file=include/boost/multi/(\S+) line=(\d+)", l)
                if not m:
                    continue
                s = by_line.get((m.group(1), int(m.group(2))))
                if s is not None:
                    who = src if src == "deaths" else "probe:" + names.get(l.split()[1], "?")
                    fired[s["key"]][who] += 1
    return sites, reached, fired, problems



# ---------------------------------------------------------------------------------------------------------------------
# names and remarks for the report table (line numbers of /repo HEAD ec272ed; used for printing only)
# ---------------------------------------------------------------------------------------------------------------------
FN = {
    ("array_ref.hpp", 442): "subarray_ptr == (mixed kinds)", ("array_ref.hpp", 451): "subarray_ptr != (mixed kinds)",
    ("array_ref.hpp", 461): "subarray_ptr::distance_to (<)", ("array_ref.hpp", 464): "subarray_ptr::distance_to (<)",
    ("array_ref.hpp", 571): "array_iterator<D>1> ==", ("array_ref.hpp", 572): "array_iterator<D>1> ==",
    ("array_ref.hpp", 652): "array_iterator<D>1> -", ("array_ref.hpp", 653): "array_iterator<D>1> -",
    ("array_ref.hpp", 826): "elements_iterator -", ("array_ref.hpp", 833): "elements_iterator <",
    ("array_ref.hpp", 859): "elements_iterator ==", ("array_ref.hpp", 863): "elements_iterator !=",
    ("array_ref.hpp", 914): "elements_range [] (at_aux_)",
    ("array_ref.hpp", 945): "elements_range swap(&) &", ("array_ref.hpp", 946): "elements_range swap(&) &&",
    ("array_ref.hpp", 947): "elements_range swap(&&) &", ("array_ref.hpp", 948): "elements_range swap(&&) &&",
    ("array_ref.hpp", 978): "elements_range =(same&&)", ("array_ref.hpp", 985): "elements_range =(Range&&) &",
    ("array_ref.hpp", 992): "elements_range =(Range&&) &&", ("array_ref.hpp", 999): "elements_range ={init list}",
    ("array_ref.hpp", 1120): "const_subarray<D>1>::at_aux_", ("array_ref.hpp", 1145): "const_subarray<D>1> []",
    ("array_ref.hpp", 1207): "taked_aux_ (D>1)", ("array_ref.hpp", 1228): "dropped_aux_ (D>1)",
    ("array_ref.hpp", 1258): "sliced_aux_ first (D>1)", ("array_ref.hpp", 1259): "sliced_aux_ last (D>1)",
    ("array_ref.hpp", 1262): "sliced_aux_ null base",
    ("array_ref.hpp", 1310): "elements_at const& (D>1)", ("array_ref.hpp", 1315): "elements_at && (D>1)", ("array_ref.hpp", 1320): "elements_at & (D>1)",
    ("array_ref.hpp", 1422): "partitioned_aux_ (D>1)", ("array_ref.hpp", 1425): "partitioned_aux_ (D>1)",
    ("array_ref.hpp", 1440): "chunked_aux_ (D>1)", ("array_ref.hpp", 1450): "tiled (D>1)",
    ("array_ref.hpp", 1574): "const_subarray(first, last)",
    ("array_ref.hpp", 1841): "reinterpret_array_cast(n) const&", ("array_ref.hpp", 2304): "reinterpret_array_cast(n) &",
    ("array_ref.hpp", 2317): "reinterpret_array_cast(n) &&",
    ("array_ref.hpp", 2050): "subarray =(const_subarray const&) &", ("array_ref.hpp", 2056): "subarray swap",
    ("array_ref.hpp", 2079): "subarray =(const_sub<TT> const&) &", ("array_ref.hpp", 2087): "subarray =(const_sub<TT>&&) &",
    ("array_ref.hpp", 2099): "subarray =(Range const&)", ("array_ref.hpp", 2128): "subarray =(const_sub<TT> const&) &&",
    ("array_ref.hpp", 2136): "subarray =(subarray<TT>&&) &", ("array_ref.hpp", 2158): "subarray =(subarray const&) &",
    ("array_ref.hpp", 2164): "subarray =(subarray&&) &", ("array_ref.hpp", 2171): "subarray ={init list}",
    ("array_ref.hpp", 2510): "array_iterator<1> -", ("array_ref.hpp", 2511): "array_iterator<1> -", ("array_ref.hpp", 2512): "array_iterator<1> -",
    ("array_ref.hpp", 2517): "array_iterator<1> ==", ("array_ref.hpp", 2522): "array_iterator<1> !=",
    ("array_ref.hpp", 2528): "array_iterator<1> == (other constness)", ("array_ref.hpp", 2529): "array_iterator<1> == (other constness)",
    ("array_ref.hpp", 2574): "const_subarray<0> ==(element)",
    ("array_ref.hpp", 2586): "elements_at const& (D=0)", ("array_ref.hpp", 2587): "elements_at && (D=0)", ("array_ref.hpp", 2588): "elements_at & (D=0)",
    ("array_ref.hpp", 2772): "const_subarray<1>::assign({})", ("array_ref.hpp", 2781): "const_subarray<1>::assign(f,l)",
    ("array_ref.hpp", 2795): "const_subarray<1> = const&& assert(0)", ("array_ref.hpp", 2812): "const_subarray<1> [] (at_aux_)",
    ("array_ref.hpp", 2880): "elements_at const& (D=1)", ("array_ref.hpp", 2881): "elements_at && (D=1)", ("array_ref.hpp", 2882): "elements_at & (D=1)",
    ("array_ref.hpp", 2898): "taked_aux_ (D=1)", ("array_ref.hpp", 3036): "partitioned_aux_ (D=1)", ("array_ref.hpp", 3037): "partitioned_aux_ (D=1)",
    ("array_ref.hpp", 3048): "chunked_aux_ (D=1)", ("array_ref.hpp", 3058): "tiled (D=1)",
    ("array_ref.hpp", 3261): "reinterpret_array_cast<T2,P2>() (D=1)",
    ("array_ref.hpp", 3413): "array_ref =(array_ref<TT> const&) &&", ("array_ref.hpp", 3421): "array_ref =(array_ref const&) &",
    ("array_ref.hpp", 3447): "array_ref =(array_ref<TT> const&) &",
    ("array.hpp", 365): "static_array(exts, alloc)", ("array.hpp", 449): "static_array(array_ref<TT>&) explicit",
    ("array.hpp", 458): "static_array(array_ref<TT>&&)", ("array.hpp", 466): "static_array(array_ref<TT>&&) explicit",
    ("array.hpp", 475): "static_array(array_ref<TT> const&)", ("array.hpp", 488): "static_array(array_ref<TT> const&) explicit",
    ("array.hpp", 505): "static_array(static_array const&)", ("array.hpp", 512): "static_array(policy, static_array const&)",
    ("array.hpp", 529): "static_array(TT(&)[N])", ("array.hpp", 555): "static_array::deallocate", ("array.hpp", 564): "static_array::clear",
    ("array.hpp", 580): "static_array()", ("array.hpp", 581): "static_array()", ("array.hpp", 588): "~static_array", ("array.hpp", 590): "~static_array",
    ("array.hpp", 672): "static_array =(view)", ("array.hpp", 679): "static_array =(static_array const&)", ("array.hpp", 681): "static_array =(static_array const&)",
    ("array.hpp", 692): "static_array =(static_array&&)", ("array.hpp", 694): "static_array =(static_array&&)",
    ("array.hpp", 704): "static_array =(static_array<TT> const&)", ("array.hpp", 719): "static_array::swap_",
    ("array.hpp", 756): "static_array<0>::assign(ptr)", ("array.hpp", 837): "static_array<0>(view, alloc)",
    ("array.hpp", 914): "static_array<0>(ext, value, alloc)", ("array.hpp", 922): "static_array<0>(ext, value)",
    ("array.hpp", 929): "static_array<0>(exts, alloc)", ("array.hpp", 934): "static_array<0>(exts)",
    ("array.hpp", 939): "static_array<0>(other, alloc)", ("array.hpp", 945): "static_array<0>(other)",
    ("array.hpp", 1054): "static_array<0> =(const&)", ("array.hpp", 1074): "static_array<0> =(&&)", ("array.hpp", 1086): "static_array<0> =(static_array<TT,0>)",
    ("array.hpp", 1209): "array(exts, alloc) [_MSC_VER]", ("array.hpp", 1212): "array(exts) [_MSC_VER]",
    ("array.hpp", 1218): "array({init list})", ("array.hpp", 1226): "array(init list<OtherT>) explicit, D=1",
    ("array.hpp", 1236): "array::reshape", ("array.hpp", 1238): "array::reshape", ("array.hpp", 1244): "array::clear",
    ("array.hpp", 1282): "array(array&&, alloc)", ("array.hpp", 1285): "array(array&&)", ("array.hpp", 1300): "array::swap",
    ("array.hpp", 1324): "array =(array&&)", ("array.hpp", 1325): "array =(array&&)", ("array.hpp", 1381): "array =(view) [keep storage]",
    ("detail/layout.hpp", 179): "extensions_t<D>::from_linear", ("detail/layout.hpp", 308): "extensions_t<0>::from_linear",
    ("detail/layout.hpp", 652): "contiguous_layout::drop", ("detail/layout.hpp", 883): "layout_t::extension", ("detail/layout.hpp", 884): "layout_t::extension",
    ("detail/layout.hpp", 899): "layout_t::drop", ("detail/layout.hpp", 976): "layout_t::halve",
    ("detail/layout.hpp", 986): "layout_t::scale", ("detail/layout.hpp", 987): "layout_t::scale",
    ("detail/operators.hpp", 114): "incrementable it++",
}
# why a column of the table is empty (printed instead of "-")
NO_VALID = {
    ("array_ref.hpp", 2772): "cannot be instantiated (writes through a const iterator; hidden in subarray by assign(It))",
    ("array_ref.hpp", 2781): "cannot be instantiated (same)",
    ("array_ref.hpp", 2795): "ill-formed body, nameable in unevaluated contexts only (std::indirectly_writable)",
    ("array.hpp", 512): "needs an execution-policy type: not exercised",
    ("array.hpp", 837): "does not compile (template instantiation depth, subarray<T,0>::operator&)",
    ("array.hpp", 914): "rank 0: ill-formed without NDEBUG (KF-C20-rank0-ctor-needs-NDEBUG; the fix deletes the assertion)",
    ("array.hpp", 922): "rank 0: same", ("array.hpp", 929): "rank 0: same (c20_rank0_probe case 3)", ("array.hpp", 934): "rank 0: same (cases 4, 5)",
    ("array.hpp", 939): "rank 0: same (case 2)", ("array.hpp", 945): "rank 0: same (case 1)",
    ("array.hpp", 1086): "never selected: array<short,0> -> array<int,0> goes through the converting constructor",
    ("array.hpp", 1209): "_MSC_VER only", ("array.hpp", 1212): "_MSC_VER only",
    ("array.hpp", 1226): "does not compile (protected constructor of array_types through element_transformed)",
    ("detail/operators.hpp", 114): "never selected: iterator_facade's post-increment is the exact match",
}
INVARIANT = "internal invariant: no public call makes it false (stride_ok_always / rank-0 extensions are always equal)"


def no_fire_reason(s):
    e = s["expr"]
    k = (s["file"], s["line"])
    if k in NO_VALID:
        return "n/a (" + NO_VALID[k].split(":")[0].split("(")[0].strip() + ")"
    if "stride() != 0" in e or e in ("this->size() == 0",):
        return "n/a: " + INVARIANT
    if s["file"] == "array.hpp" and s["line"] in (756, 1054, 1074, 1086):
        return "n/a: rank 0 has one element and equal extensions always"
    if k == ("array_ref.hpp", 2574):
        return "n/a: rank 0 has one element always"
    if k in (("array_ref.hpp", 2510), ("array_ref.hpp", 2529)):
        return "not constructed: needs a 1-D view of stride 0 (hand-made layout)"
    if k in (("array_ref.hpp", 2586), ("array_ref.hpp", 2588)):
        return "same check as :2587 (fired there), other ref-qualifier"
    if k == ("array_ref.hpp", 1262):
        return "fires on a VALID call: KF-C20-null-base-slice-asserts"
    if k == ("detail/layout.hpp", 987):
        return "fires on a VALID call: KF-C20-scale-rebased-asserts (the fix replaces it)"
    return "-"


def table(sites, reached, fired):
    rows = []
    for s in sites:
        k = (s["file"], s["line"])
        r = ", ".join("%s x%d" % kv for kv in sorted(reached[s["key"]].items(), key=lambda kv: -kv[1])[:3]) or ("NONE: " + NO_VALID.get(k, "-"))
        f = ", ".join("%s x%d" % kv for kv in sorted(fired[s["key"]].items(), key=lambda kv: -kv[1])[:2]) or no_fire_reason(s)
        rows.append("%-17s %4d %-38s %-46s | (i) %s | (ii) %s" % (s["file"].replace("detail/", ""), s["line"], FN.get(k, s["fn"])[:38], s["expr"][:46], r, f))
    return "\n".join(rows)


if __name__ == "__main__":
    seed = None
    if "--seed" in sys.argv:
        seed = int(sys.argv[sys.argv.index("--seed") + 1])
    sites, reached, fired, problems = measure(seed)
    print(table(sites, reached, fired))
    n_r = sum(1 for s in sites if reached[s["key"]])
    n_f = sum(1 for s in sites if fired[s["key"]])
    print("sites %d, reached on valid calls %d, fired on violating calls %d" % (len(sites), n_r, n_f))
    for p in problems:
        print("PROBLEM", p)

"""Shared machinery of the lifecycle family C04, C06, C08, C09, C10 (one Coq model coq/Model/Life.v, one
driver ocaml/life_driver.ml, one harness harness/h_life.cpp built once per configuration).
A configuration = rank D, element kind t (0 int / 1 tracked class / 2 struct{int v = 0;}: not trivially default
constructible, trivially destructible / 3 trivial default constructor with user-provided copy: not is_trivial /
4 tracked class with a noexcept move assignment and a throwing copy assignment), the three propagate_on_container_* traits,
is_always_equal, pmr, and what select_on_container_copy_construction returns (run-time switch of the
instrumented allocator).  Histories are text; the driver generates them against the model so that every
operation is in its documented domain, runs the extracted model on them, and the harness runs the
library; observations are compared line by line per case, and monitors that do not depend on the model
run on the library's own output."""
import concurrent.futures as cf
import glob
import hashlib
import os
import re
import subprocess
import time

from . import core

DRIVER = os.path.join(core.BIN, "driver_life")


# ------------------------------------------------------------------------------------------------
# configurations
# ------------------------------------------------------------------------------------------------
def cfg(d=2, t=1, pocca=0, pocma=0, pocs=0, ae=0, pmr=0, socc=0):
    if pmr:
        pocca = pocma = pocs = ae = 0
        socc = 2            # polymorphic_allocator::select_on_container_copy_construction returns the default resource
    return {"d": d, "t": t, "pocca": pocca, "pocma": pocma, "pocs": pocs, "ae": ae, "pmr": pmr, "socc": socc}


def cfg_text(c):
    return "d=%(d)d t=%(t)d pocca=%(pocca)d pocma=%(pocma)d pocs=%(pocs)d ae=%(ae)d pmr=%(pmr)d socc=%(socc)d" % c


def cfg_key(c):
    """What is compiled in (socc is a run-time switch)."""
    return "d%(d)dt%(t)dc%(pocca)d%(pocma)d%(pocs)d%(ae)dp%(pmr)d" % c


def cfg_flags(c):
    return ["-DLIFE_D=%d" % c["d"], "-DLIFE_T=%d" % c["t"], "-DLIFE_POCCA=%d" % c["pocca"], "-DLIFE_POCMA=%d" % c["pocma"],
            "-DLIFE_POCS=%d" % c["pocs"], "-DLIFE_AE=%d" % c["ae"], "-DLIFE_PMR=%d" % c["pmr"]]


def parse_cfg_line(line):
    c = cfg()
    for tok in line.split()[1:]:
        if "=" in tok:
            k, v = tok.split("=", 1)
            if k in c:
                c[k] = int(v)
    return c


def all_trait_configs(d=2, t=1):
    out = []
    for bits in range(16):
        out.append(cfg(d=d, t=t, pocca=bits & 1, pocma=(bits >> 1) & 1, pocs=(bits >> 2) & 1, ae=(bits >> 3) & 1,
                       socc=(bits * 7 // 3) % 2))
    return out


# ------------------------------------------------------------------------------------------------
# builds
# ------------------------------------------------------------------------------------------------
_assign_fill_ok = None


def assign_fill_compiles():
    """array::assign(extensions, value) did not compile at the pinned commit (inaccessible base layout_t)."""
    global _assign_fill_ok
    if _assign_fill_ok is None:
        ok, _exe, log = core.build_harness("life_assign_fill_probe", ["life_assign_fill_probe.cpp"])
        _assign_fill_ok = (ok, log)
    return _assign_fill_ok


def build_all(cfgs):
    """One executable per compiled configuration, in parallel. Returns ({key: exe}, [(key, log)] failures)."""
    keys = {}
    for c in cfgs:
        keys.setdefault(cfg_key(c), c)
    extra = [] if assign_fill_compiles()[0] else ["-DLIFE_NO_ASSIGN_FILL"]
    exes, failures = {}, []

    def one(item):
        key, c = item
        ok, exe, log = core.build_harness("h_life", ["h_life.cpp"], flags=cfg_flags(c) + extra, tag="-" + key)
        return key, ok, exe, log
    with cf.ThreadPoolExecutor(max_workers=core.NCPU) as ex:
        for key, ok, exe, log in ex.map(one, list(keys.items())):
            if ok:
                exes[key] = exe
            else:
                failures.append((key, log))
    return exes, failures


def ensure_driver():
    return core.ensure_driver_for("life", "ExtractLife.v", ["life_driver.ml"], "driver_life", model_base="modellife")


# ------------------------------------------------------------------------------------------------
# generation, model run, implementation run
# ------------------------------------------------------------------------------------------------
def generate(kind, c, seed, count, maxops, prefix, faults=0):
    cmd = [DRIVER, "gen", "--seed", str(seed), "--count", str(count), "--kind", kind, "--cfg", cfg_text(c),
           "--maxops", str(maxops), "--prefix", prefix, "--faults", str(faults)]
    rc, out, err = core.sh(cmd, timeout=600)
    if rc != 0:
        raise RuntimeError("driver_life gen failed: " + err[-500:])
    return out


def model_run(prog_text):
    p = subprocess.run([DRIVER, "run"], input=prog_text.encode(), stdout=subprocess.PIPE, stderr=subprocess.PIPE, timeout=900)
    if p.returncode != 0:
        raise RuntimeError("driver_life run failed: " + p.stderr.decode("utf-8", "replace")[-500:])
    return p.stdout.decode("utf-8", "replace")


def impl_run(exes, prog_text, shards=None):
    """Routes every case to the executable of its configuration. Returns (text, crashes)."""
    groups = {}
    for cid, block in core.split_cases(prog_text):
        key = None
        for line in block.splitlines():
            if line.startswith("cfg "):
                key = cfg_key(parse_cfg_line(line))
                break
        groups.setdefault(key, []).append(block)
    outs, crashes = [], []
    items = list(groups.items())
    per = max(1, (shards or core.NCPU) // max(1, len(items)))

    def one(item):
        key, blocks = item
        exe = exes.get(key)
        if exe is None:
            return "", [("<no-executable-for-%s>" % key, -1, "configuration not built")]
        try:
            return core.run_harness(exe, "".join(blocks), timeout=600, shards=per)
        except FileNotFoundError:
            # a concurrent check against another BM_REPO replaced the cached executable: build it again
            c = parse_cfg_line(next(l for l in blocks[0].splitlines() if l.startswith("cfg ")))
            again, _fails = build_all([c])
            if key not in again:
                return "", [("<no-executable-for-%s>" % key, -1, "rebuild failed")]
            exes[key] = again[key]
            return core.run_harness(again[key], "".join(blocks), timeout=600, shards=per)
    with cf.ThreadPoolExecutor(max_workers=max(1, min(len(items), core.NCPU))) as ex:
        for out, cr in ex.map(one, items):
            outs.append(out)
            crashes.extend(cr)
    return "".join(outs), crashes


_MOVED = re.compile(r"-?\d+!")


def canon(text):
    """Observables the properties leave open are not compared: the value of a moved-from element, the kind of an
    illegal transition (only that one happened, at which step), and the monitors' own lines."""
    out = []
    for line in text.splitlines():
        if line.startswith(("M ", "T ")):
            continue
        if line.startswith("X "):
            p = line.split()
            line = " ".join(p[:4])
        elif "!" in line:
            line = _MOVED.sub("!", line)
        out.append(line)
    return "\n".join(out) + "\n"


# ------------------------------------------------------------------------------------------------
# monitors on the library's own output (independent of the model)
# ------------------------------------------------------------------------------------------------
def monitors(impl_text):
    """Returns {case id: (what, line, record)}: first alarm per case."""
    bad = {}
    last_op = {}
    for line in impl_text.splitlines():
        p = line.split()
        if len(p) < 2:
            continue
        cid = p[1]
        tag = p[0]
        if tag == "O":
            last_op[cid] = (p[2], p[3], p[4] if len(p) > 4 else "", p[5] if len(p) > 5 else "")
            continue
        if cid in bad:
            prev = bad[cid]
            if not (tag == "M" and len(p) > 3 and p[3] == "invalid" and prev[0] == "monitor:overlap"
                    and prev[2].get("_step") == p[2]):
                continue
        step, op, outc, at = last_op.get(cid, ("?", "?", "?", ""))
        rec = {"op": op, "outcome": outc, "at": at.replace("at=", "")}
        if tag == "M":
            what = p[3]
            rec["kind"] = {"overlap": "storage-shared", "aliasing": "storage-shared", "invalid": "invalid-array"}.get(what, what)
            if what == "invalid":
                rec["detail"] = p[5] if len(p) > 5 else ""
            rec["_step"] = p[2]
            bad[cid] = ("monitor:" + what, line, rec)
        elif tag == "X":
            rec["kind"] = "illegal-transition"
            rec["detail"] = p[4] if len(p) > 4 else ""
            if p[2] == "end":
                rec["op"] = "end-of-case"
            bad[cid] = ("monitor:" + (p[4] if len(p) > 4 else "error"), line, rec)
        elif tag == "Z":
            kv = dict(x.split("=") for x in p[2:] if "=" in x)
            if kv.get("alive") != "0" or kv.get("outstanding") != "0":
                rec["kind"] = "leak"
                rec["detail"] = "alive=%s outstanding=%s" % (kv.get("alive"), kv.get("outstanding"))
                bad[cid] = ("monitor:unbalanced-at-end", line, rec)
        elif tag == "G":
            kv = dict(x.split("=") for x in p[3:] if "=" in x)
            if kv.get("copies", "-") not in ("-", "0"):
                rec["kind"] = "copies-in-move-or-swap"
                bad[cid] = ("monitor:move-or-swap-copied-elements", line, rec)
            elif kv.get("allocs", "-") not in ("-", "0"):
                rec["kind"] = "allocation-in-no-storage-op"
                bad[cid] = ("monitor:no-storage-operation-allocated", line, rec)
            elif outc == "threw" and op.startswith("ctor_"):
                # a failed constructor leaves nothing behind: same alive count and outstanding blocks as before the op
                pass
    return bad


def failed_op_record(block, impl_lines):
    """The faulted operation of a case (the one that threw), for known-finding matching of leaks seen at the end."""
    for line in impl_lines:
        p = line.split()
        if p and p[0] == "O" and len(p) > 4 and p[4] == "threw":
            return {"op": p[3], "outcome": "threw", "at": (p[5] if len(p) > 5 else "").replace("at=", "")}
    return None


# ------------------------------------------------------------------------------------------------
# one case: does it fail?  (used by shrinking and by --replay)
# ------------------------------------------------------------------------------------------------
def verdict_from_texts(block, m, i, crash=None):
    """block: the case text; m, i: the model's and the implementation's output for this case (text); crash: (rc, stderr) or None.
    Returns None if they agree and the monitors are silent, else (found_by, model line, impl line, record)."""
    if crash:
        rc, err = crash
        tail = (err.strip().splitlines() or [""])[-1]
        done = [l for l in i.splitlines() if l.startswith(("O ", "Q "))]
        rec = {"kind": "crash", "op": "?", "detail": tail[-200:]}
        # the crashing operation is the one after the last completed one
        op_lines = [l for l in block.splitlines() if l.startswith("op ")]
        if len(done) < len(op_lines):
            rec["op"] = op_lines[len(done)].split()[1]
        if "Assertion" in tail:
            rec["detail"] = "assertion: " + tail.split("Assertion")[-1][:160]
        elif "terminate called" in err:
            # an exception thrown inside the library escaped a noexcept function: it did not reach the caller
            rec["kind"] = "terminate"
            rec["detail"] = "std::terminate, the exception did not reach the caller: " + " ".join(err.strip().splitlines()[-2:])[-160:]
            return ("terminate", "", "std::terminate in operation %s: the exception did not reach the caller (exit/signal %s)"
                    % (rec["op"], rc), rec)
        return ("crash", "", "exit/signal %s: %s" % (rc, tail[-300:]), rec)
    mon = monitors(i)
    d = core.diff_cases(canon(m), canon(i))
    vlines = [l for l in m.splitlines() if l.startswith("V ")]
    if vlines:
        return ("model-vs-reference-interpreter", vlines[0], "", {"kind": "reference-mismatch", "op": vlines[0].split()[-1]})
    if d:
        # the library and the proved model disagree on an observable: that is news whatever the monitors say
        cid, ml, il = d[0]
        op = "?"
        p = il.split() if il and not il.startswith("<") else ml.split()
        if len(p) > 2:
            step = p[2]
            for l in i.splitlines():
                q = l.split()
                if q and q[0] == "O" and q[2] == step:
                    op = q[3]
            if op == "?" and step.isdigit():
                op_lines = [l for l in block.splitlines() if l.startswith("op ")]
                if 1 <= int(step) <= len(op_lines):
                    op = op_lines[int(step) - 1].split()[1]
            elif op == "?" and step == "end":
                op = "end-of-case"
        return ("correspondence", ml, il, {"kind": "model-mismatch", "op": op})
    if mon:
        cid = next(iter(mon))
        what, line, rec = mon[cid]
        fo = failed_op_record(block, i.splitlines())
        if fo and rec.get("kind") in ("leak", "invalid-array", "illegal-transition"):
            rec.update(fo)
        # where the model says the fault fired (alloc / ctor-elem / assign-elem / reextent-elem / reextent-move)
        sites = [l.split("site=")[1] for l in m.splitlines() if l.startswith("T ") and "site=" in l]
        rec["site"] = sites[-1] if sites else ""
        return (what, "", line, rec)
    return None


def case_verdict(exes, block):
    """Runs one case on both sides (used by shrinking and by --replay)."""
    try:
        m = model_run(block)
    except Exception as ex:  # noqa: BLE001
        return ("model-run", str(ex), "", {"kind": "model-run"})
    i, crashes = impl_run(exes, block, shards=1)
    crash = (crashes[0][1], crashes[0][2]) if crashes else None
    if crash:
        # run the executable directly to see how far the case got before it died
        key = None
        for line in block.splitlines():
            if line.startswith("cfg "):
                key = cfg_key(parse_cfg_line(line))
        exe = exes.get(key)
        if exe:
            try:
                p = subprocess.run([exe], input=block.encode(), stdout=subprocess.PIPE, stderr=subprocess.PIPE, timeout=120)
                i = p.stdout.decode("utf-8", "replace")
            except subprocess.TimeoutExpired:
                pass
    return verdict_from_texts(block, m, i, crash)


def shrink(exes, block, budget=80):
    """Greedy: drop operations (last first) while the case still fails for the same reason."""
    v0 = case_verdict(exes, block)
    if not v0:
        return block, None
    lines = block.splitlines()
    head = [l for l in lines if not l.startswith("op ") and l.strip() != "end"]
    ops = [l for l in lines if l.startswith("op ")]
    cur = ops
    tries = 0
    k = len(cur) - 1
    while k >= 0 and tries < budget:
        cand = cur[:k] + cur[k + 1:]
        txt = "\n".join(head + cand + ["end"]) + "\n"
        tries += 1
        v = case_verdict(exes, txt)
        if v and v[0] == v0[0] and v[3].get("kind") == v0[3].get("kind"):
            cur = cand
            v0 = v
        k -= 1
    return "\n".join(head + cur + ["end"]) + "\n", v0


# ------------------------------------------------------------------------------------------------
# statistics for the evidence file
# ------------------------------------------------------------------------------------------------
def op_histogram(prog_text):
    h = {}
    for line in prog_text.splitlines():
        if line.startswith("op "):
            k = line.split()[1]
            h[k] = h.get(k, 0) + 1
    return dict(sorted(h.items()))


def distinct_nontrivial(prog_text, min_ops=4):
    seen = set()
    for _cid, block in core.split_cases(prog_text):
        body = [l for l in block.splitlines() if l.startswith(("op ", "cfg ", "fault "))]
        if sum(1 for l in body if l.startswith("op ")) < min_ops:
            continue
        seen.add(hashlib.sha256("\n".join(body).encode()).hexdigest())
    return len(seen)


def samples(prog_text, n=2, min_ops=6):
    out = []
    for _cid, block in core.split_cases(prog_text):
        if block.count("\nop ") >= min_ops:
            out.append(block)
            if len(out) >= n:
                break
    return out


def shape_stats(prog_text):
    """Distribution facts the proofs' case splits care about."""
    s = {"cases": 0, "faulted_cases": 0, "ops": 0, "extent_0": 0, "extent_1": 0, "rebased_extents": 0,
         "views_with_ops": 0, "zero_inner_nonzero_outer": 0}
    for _cid, block in core.split_cases(prog_text):
        s["cases"] += 1
        for line in block.splitlines():
            if line.startswith("fault "):
                s["faulted_cases"] += 1
            if not line.startswith("op "):
                continue
            s["ops"] += 1
            p = line.split()
            if "|" in p:
                s["views_with_ops"] += 1
            if any(re.fullmatch(r"-?\d+:-?\d+", x) for x in p[2:]):
                s["rebased_extents"] += 1
            nums = [x for x in p[2:] if re.fullmatch(r"-?\d+", x)]
            if p[1] in ("ctor_sized", "ctor_fill", "reextent", "reextent_fill", "reextent_move", "assign_fill", "reshape", "ctor_conv", "assign_conv"):
                d = parse_d(block)
                off = 1 if p[1] in ("ctor_sized", "ctor_fill") else 0
                e = [int(x) for x in nums[off:off + d]]
                if 0 in e:
                    s["extent_0"] += 1
                if 1 in e:
                    s["extent_1"] += 1
                if len(e) >= 2 and e[-1] == 0 and e[0] != 0:
                    s["zero_inner_nonzero_outer"] += 1
    return s


def ref_steps(prog_text, model_text):
    """Steps on which the driver compared the machine with the reference interpreter over values (fault-free runs)."""
    faulted = {cid for cid, block in core.split_cases(prog_text) if "\nfault " in block}
    n = 0
    for line in model_text.splitlines():
        if line.startswith("O ") and line.endswith(" ok"):
            if line.split()[1] not in faulted:
                n += 1
    return n


def parse_d(block):
    for line in block.splitlines():
        if line.startswith("cfg "):
            return parse_cfg_line(line)["d"]
    return 2


# ------------------------------------------------------------------------------------------------
# the common run
# ------------------------------------------------------------------------------------------------
def corpus_text(pid):
    txt = ""
    for f in sorted(glob.glob(os.path.join(core.VERIF, "corpus", pid, "*.prog"))):
        txt += "".join(l for l in open(f) if not l.startswith("#"))
    return txt


def prepare(res, pid, cfgs):
    """Coq build + audit + driver + harness builds. Returns (coq, exes) or None after reporting."""
    coq = core.coq_check_property(pid)
    core.proof_coverage(res, coq)
    ok_d, log_d = ensure_driver()
    problems = []
    if not ok_d:
        problems.append(("build:model-extraction-or-driver", log_d))
    exes, failures = build_all(cfgs)
    for key, log in failures:
        problems.append(("build:harness-h_life-%s-does-not-compile-against-%s" % (key, core.INCLUDE), log))
    if problems:
        for step, log in problems:
            path = core.write_replay(pid, "", {"property": pid, "found-by": step, "log": log[-3000:]})
            res.violation(path, step, no_input=True)
        return None
    return coq, exes


def proof_verdict(res, pid, coq, n_failing):
    if not coq["ok"] and n_failing == 0:
        path = core.write_replay(pid, "", {"property": pid, "found-by": "proof:Properties_%s.v" % pid,
                                           "log": coq["log"][-3000:], "obligations": coq["obligations"],
                                           "discharged": coq["discharged"]})
        res.violation(path, "proof obligations no longer check", no_input=True)


def classify(res, pid, exes, prog_text, model_text, impl_text, crashes, max_report=4, relevant=None):
    """diff + monitors + crashes -> known findings / shrunk replays.  Returns the number of failing cases.
    relevant(record) -> bool selects which failures belong to this property (None: all)."""
    blocks = dict(core.split_cases(prog_text))
    failing = {}
    for cid, ml, il in core.diff_cases(canon(model_text), canon(impl_text)):
        failing.setdefault(cid, None)
    for cid in monitors(impl_text):
        failing.setdefault(cid, None)
    # the machine against its own reference interpreter over values (model-only 'V' lines)
    for line in model_text.splitlines():
        if line.startswith("V "):
            failing.setdefault(line.split()[1], None)
    for cid, rc, err in crashes:
        failing[cid] = (rc, err)
    if not failing:
        return 0
    m_by, i_by = core.by_case(model_text), core.by_case(impl_text)
    n_reported, n_fail = 0, 0
    seen_kinds = set()
    for cid in sorted(failing, key=lambda c: (len(blocks.get(c, "")), c)):
        block = blocks.get(cid)
        if block is None:
            if cid.startswith("<"):
                path = core.write_replay(pid, "", {"property": pid, "found-by": "harness-run", "log": str(failing[cid])})
                res.violation(path, "harness run failed: " + cid, no_input=True)
                n_fail += 1
            continue
        if failing[cid]:
            v = case_verdict(exes, block)       # a crash: re-run the case alone to find the operation it died in
        else:
            v = verdict_from_texts(block, "\n".join(m_by.get(cid, [])) + "\n", "\n".join(i_by.get(cid, [])) + "\n", None)
        if not v:
            continue
        found_by, ml, il, rec = v
        record = dict(rec)
        record["harness"] = "h_life"
        record["found_by"] = found_by.split(":")[0]
        if relevant is not None and not relevant(record):
            continue
        n_fail += 1
        kf = core.match_known(pid, record)
        if kf:
            res.known_finding(kf)
            continue
        sig = (record.get("kind"), record.get("op"), record.get("at"), record.get("site"), record.get("detail", "")[:40])
        if sig in seen_kinds or n_reported >= max_report:
            continue
        seen_kinds.add(sig)
        n_reported += 1
        small, v2 = shrink(exes, block)
        if v2:
            found_by, ml, il, rec = v2
        path = core.write_replay(pid, small, {
            "property": pid, "tier": res.tier, "seed": res.seed, "found-by": found_by,
            "model-said": ml, "implementation-said": il, "record": rec,
            "note": "model = coq/Model/Life.v (theorems in Properties_%s.v); replay: ./check %s --replay <this file>" % (pid, pid)})
        res.violation(path, "%s: model %r impl %r" % (found_by, ml, il))
    return n_fail


def replay(res, pid, path):
    block = "".join(l for l in open(path) if not l.startswith("#"))
    cfgs = []
    for _cid, b in core.split_cases(block):
        for line in b.splitlines():
            if line.startswith("cfg "):
                cfgs.append(parse_cfg_line(line))
    prep = prepare(res, pid, cfgs or [cfg()])
    if prep is None:
        return
    _coq, exes = prep
    any_fail = False
    for _cid, b in core.split_cases(block):
        v = case_verdict(exes, b)
        print("replay verdict:", (v[0], v[1], v[2]) if v else "agrees (no violation)")
        if v:
            record = dict(v[3])
            record["harness"] = "h_life"
            record["found_by"] = v[0].split(":")[0]
            kf = core.match_known(pid, record)
            if kf:
                res.known_finding(kf)
            else:
                any_fail = True
    if any_fail:
        res.violation(os.path.relpath(path, core.VERIF), "replay fails")


def run_family(pid, tier, seed, plan, rule, relevant=None, not_exercised=(), assumptions=(), extra_checks=None):
    """plan: list of dicts {kind, cfg, count, maxops, faults} (per tier already chosen)."""
    res = core.Result(pid, tier, seed, level="proof")
    t0 = time.time()
    cfgs = [p["cfg"] for p in plan]
    ctext = corpus_text(pid)
    cfgs += [parse_cfg_line(l) for l in ctext.splitlines() if l.startswith("cfg ")]
    prep = prepare(res, pid, cfgs)
    if prep is None:
        return res, None
    coq, exes = prep
    progs = []
    if ctext:
        progs.append(ctext)
    for k, p in enumerate(plan):
        progs.append(generate(p["kind"], p["cfg"], seed + 7919 * k, p["count"], p["maxops"], "%s%d_" % (pid.lower(), k),
                              faults=p.get("faults", 0)))
    prog_text = "".join(progs)
    model_text = model_run(prog_text)
    impl_text, crashes = impl_run(exes, prog_text)
    n_failing = classify(res, pid, exes, prog_text, model_text, impl_text, crashes, relevant=relevant)
    if extra_checks:
        n_failing += extra_checks(res, exes)
    proof_verdict(res, pid, coq, n_failing)
    n_cases = len(core.split_cases(prog_text))
    res.coverage.update({
        "evaluations": n_cases,
        "distinct_nontrivial": distinct_nontrivial(prog_text),
        "rule": rule,
        "samples": samples(prog_text),
        "generator_distribution": {"operations": op_histogram(prog_text), "shapes": shape_stats(prog_text),
                                   "configurations": sorted({cfg_text(p["cfg"]) for p in plan})},
        "observation_lines_compared": model_text.count("\n"),
        "reference_interpreter_steps_checked": ref_steps(prog_text, model_text),
        "skipped_operations": model_text.count(" skipped\n"),
        "corpus_cases": len(core.split_cases(ctext)),
        "disagreeing_cases": n_failing,
        "executables": len(exes),
        "not_exercised": list(not_exercised),
        "check_wall_s": round(time.time() - t0, 1),
    })
    res.assumptions = list(assumptions) + ["no 64-bit overflow", "g++ 12 / libstdc++ as installed",
                                           "instrumented element: copy/move/assign report to a registry; instrumented allocator: "
                                           "memory quarantined inside a case"]
    return res, exes

"""C03 -- standard algorithms on begin()/end() ranges (proxy references) and on elements() ranges.
Proof: coq/Properties/Properties_C03.v (programs over the reference-level primitives simulate on independent values,
with frame; rows_ok discharged for begin()/end() and elements() of every view reachable from a row-major array by
index / sliced / strided / dropped / taked / rotated / unrotated / transposed / reversed).
Tie: harness/h_algos.cpp vs the extracted model (ocaml/c03_driver.ml):
  (i)  primitive level: scripts of single reference operations on random ranges, results + whole buffer compared;
  (ii) algorithm level: the 20 algorithms of the property on the range and on a std::vector<value_type> twin (the
       property's own oracle, evaluated inside the harness, T lines), plus, for the algorithms the model also has as
       programs, returned position and buffer compared with the model (A / B lines)."""
import json
import os

from . import core, progcheck

PID = "C03"
COLLAPSE = "value_type-cannot-hold-the-shape-of-a-row"
KNOWN_C03 = os.path.join(core.VERIF, "known_findings_C03.json")


def match_known_c03(pid, rec):
    """core.match_known, plus the entries proposed in known_findings_C03.json (to be merged into known_findings.json)."""
    f = core.match_known(pid, rec)
    if f or not os.path.exists(KNOWN_C03):
        return f
    for f in json.load(open(KNOWN_C03)).get("findings", []):
        if f.get("property") != pid or f.get("status", "open") != "open":
            continue
        m = f.get("match", {})
        if m and all(str(rec.get(k)) == str(v) for k, v in m.items()):
            return f
    return None


class FamilyC03(progcheck.Family):
    """progcheck.Family with known findings looked up through match_known_c03 (classify is otherwise the same)."""

    def classify(self, res, prog_text, obs_text, impl_text, crashes, max_report=4):
        blocks = dict(core.split_cases(prog_text))
        failing = {}
        for cid, ml, il in core.diff_cases(obs_text, impl_text):
            failing.setdefault(cid, ("correspondence", ml, il))
        for cid, what, line in self.monitor(impl_text, obs_text):
            failing.setdefault(cid, ("monitor:" + what, "", line))
        for cid, rc, err in crashes:
            tail = (err.strip().splitlines() or [""])[-1]
            failing[cid] = ("crash", "", "exit/signal %s: %s" % (rc, tail))
        n_reported = 0
        n_known = 0
        for cid in sorted(failing, key=lambda c: len(blocks.get(c, ""))):
            found_by, ml, il = failing[cid]
            block = blocks.get(cid)
            if block is None:
                continue
            rec = {"harness": "h_algos", "found_by": found_by.split(":")[0]}
            rec.update(self.record(block, found_by, ml, il))
            kf = match_known_c03(self.pid, rec)
            if kf:
                res.known_finding(kf)
                n_known += 1
                continue
            if n_reported >= max_report:
                continue
            n_reported += 1
            small = self.shrink(block)
            r = self.case_fails(small)
            if not r:
                small, r = block, (found_by, ml, il)
            path = core.write_replay(self.pid, small, {
                "property": self.pid, "tier": res.tier, "seed": res.seed, "found-by": r[0],
                "model-said": r[1], "implementation-said": r[2],
                "note": "the model is proved to satisfy the property (coq/Properties/Properties_%s.v); "
                        "replay: ./check %s --replay <this file>" % (self.pid, self.pid)})
            res.violation(path, "%s: model %r impl %r" % (r[0], r[1], r[2]))
        self.n_known = n_known
        return len(failing) - n_known

    def replay(self, res, path):
        block = "".join(l for l in open(path) if not l.startswith("#"))
        r = self.case_fails(block)
        print("replay verdict:", r if r else ("outside the documented domain" if r is None else "agrees (no violation)"))
        if r:
            rec = {"harness": "h_algos", "found_by": r[0].split(":")[0]}
            rec.update(self.record(block, r[0], r[1], r[2]))
            kf = match_known_c03(self.pid, rec)
            if kf:
                res.known_finding(kf)
            else:
                res.violation(os.path.relpath(os.path.abspath(path), core.VERIF), str(r))
_meta = {}          # case id -> dict(g, na, nb, data)


def index_prog(prog_text):
    _meta.clear()
    for cid, block in core.split_cases(prog_text):
        g = na = nb = 0
        data = []
        for line in block.splitlines():
            p = line.split()
            if not p:
                continue
            if p[0] == "buf":
                g, na, nb = int(p[1]), int(p[2]), int(p[3])
            elif p[0] == "data":
                data = p[1:]
        _meta[cid] = {"g": g, "na": na, "nb": nb, "data": data}


def monitor(impl_text, obs_text):
    """Direct monitors on the library's own output (no model involved): every algorithm agreed with its
    std::vector<value_type> twin and left the complement of the views alone (T lines); after a primitive script the
    guard cells hold their initial values (B lines) and no cell outside the views is flagged moved-from (M lines);
    the harness never declined a case (U lines)."""
    bad = []
    late = []       # the known finding comes after every other alarm of the same case
    for line in impl_text.splitlines():
        p = line.split()
        if len(p) < 2:
            continue
        cid = p[1]
        if p[0] == "T":
            if "twin=ok" not in p:
                bad.append((cid, "algorithm-differs-from-vector-twin", line[:200]))
            if "frame=ok" not in p:
                bad.append((cid, "cells-outside-the-view-changed", line[:200]))
        elif p[0] == "M":
            if p[2:] != ["-"]:
                bad.append((cid, "cell-outside-the-view-moved-from", line[:200]))
        elif p[0] == "U":
            bad.append((cid, "harness-declined-the-case", line[:200]))
        elif p[0] == "K" and "decay=ok" not in p:
            late.append((cid, COLLAPSE, line[:200]))
        elif p[0] == "B" and cid in _meta:
            m = _meta[cid]
            cells = p[2:]
            g, na, nb, data = m["g"], m["na"], m["nb"], m["data"]
            if len(cells) != 3 * g + na + nb or len(data) != len(cells):
                bad.append((cid, "buffer-length", line[:120]))
                continue
            guards = list(range(0, g)) + list(range(g + na, 2 * g + na)) + list(range(2 * g + na + nb, 3 * g + na + nb))
            if any(cells[k] != data[k] for k in guards):
                bad.append((cid, "guard-cell-changed", line[:200]))
    return bad + late


def record(block, found_by, ml, il):
    """Structured description of a violation, for known-finding matching."""
    rec = {"range": "", "algo": "", "prims": "", "collapsing_row_shape": found_by == "monitor:" + COLLAPSE}
    prims = []
    for line in block.splitlines():
        p = line.split()
        if not p:
            continue
        if p[0] == "range":
            rec["range"] = p[1]
        elif p[0] == "algo":
            rec["algo"] = p[1]
        elif p[0] == "prim":
            prims.append(p[1])
    rec["prims"] = ",".join(sorted(set(prims)))
    return rec


# ---- extraction cross-check: a sub-sample of the primitive scripts is re-evaluated by vm_compute inside coqc ----
def _zt(x):
    return "(%d)" % int(x)


def _tree(sz, flat, collapsed):
    if collapsed:
        return "(Node [])"
    if not sz:
        return "(Leaf %s)" % _zt(flat[0])
    n, rest = sz[0], sz[1:]
    ln = 1
    for k in rest:
        ln *= k
    return "(Node [%s])" % "; ".join(_tree(rest, flat[j * ln:(j + 1) * ln], False) for j in range(n))


def _op(toks):
    name, a = toks[0], toks[1:]
    t = {"index": "OIndex", "sliced": "OSliced", "sliceds": "OSlicedS", "strided": "OStrided", "dropped": "ODropped",
         "taked": "OTaked", "rotated": "ORotated", "unrotated": "OUnrotated", "transposed": "OTransposed",
         "reversed": "OReversed"}[name]
    return "(" + " ".join([t] + [_zt(x) for x in a]) + ")" if a else t


def vm_cases_text(prog_text, obs_text, limit):
    """Coq source: one Example per primitive-script case stating that run_on_view, evaluated by vm_compute, gives the
    results and the buffer the extracted model printed."""
    obs = core.by_case(obs_text)
    out = ["From Coq Require Import ZArith List Bool.",
           "From BM Require Import Model.Layout Model.View Model.Spec Model.Iter Model.Assign Model.Compare Model.C03Prog.",
           "Import ListNotations.", "Local Open Scope Z_scope.",
           "Definition shiftb (v : view) (g : Z) : view := mkview (lay v) (base v + g).",
           "Definition getv (o : option view) : view := match o with Some v => v | None => root_view [] end."]
    n = 0
    for cid, block in core.split_cases(prog_text):
        if n >= limit:
            break
        lines = [l.split() for l in block.splitlines() if l.split()]
        prims = [l for l in lines if l[0] == "prim"]
        ol = obs.get(cid, [])
        if not prims or any(l[0] == "algo" for l in lines) or any(l.startswith("X ") for l in ol):
            continue
        g = na = nb = 0
        data, aex, aops, bex, bops, rng = [], None, [], None, [], "rows"
        for l in lines:
            if l[0] == "buf":
                g, na, nb = int(l[1]), int(l[2]), int(l[3])
            elif l[0] == "data":
                data = l[1:]
            elif l[0] == "aroot":
                aex = l[2:]
            elif l[0] == "broot":
                bex = l[2:]
            elif l[0] == "aop":
                aops.append(_op(l[1:]))
            elif l[0] == "bop":
                bops.append(_op(l[1:]))
            elif l[0] == "range":
                rng = l[1]
        vline = [l for l in ol if l.startswith("V ")]
        bline = [l for l in ol if l.startswith("B ")]
        kline = [l for l in ol if l.startswith("K ")]
        rlines = [l for l in ol if l.startswith("R ")]
        if not vline or not bline or len(rlines) != len(prims):
            continue
        sizes = [int(x) for x in [t for t in vline[0].split() if t.startswith("sizes=")][0][6:].split(",")]
        sz = [] if rng == "elems" else sizes[1:]
        collapsed = bool(kline) and "decay=collapsed" in kline[0]

        def ext(e):
            return "[" + "; ".join("(%s, %s)" % (_zt(e[k]), _zt(e[k + 1])) for k in range(0, len(e), 2)) + "]"

        def view(e, ops, off):
            return "shiftb (getv (run_ops [%s] (root_view %s))) %d" % ("; ".join(ops), ext(e), off)
        kind = "rows_of" if rng == "rows" else "elems_of"
        size = "v_size" if rng == "rows" else "er_size"
        row = "%s a" % kind if bex is None else "cat_rows (%s a) (%s a) (%s b)" % (kind, size, kind)
        ins = []
        for l in prims:
            nm, a = l[1], [int(x) for x in l[2:]]
            if nm in ("read", "take"):
                ins.append("I%s %s" % (nm.capitalize(), _zt(a[0])))
            elif nm in ("copy", "move", "swap", "less", "eq"):
                ins.append("I%s %s %s" % (nm.capitalize(), _zt(a[0]), _zt(a[1])))
            elif nm == "vless":
                ins.append("IVLess %s %s" % (_tree(sz, a[1:], collapsed), _zt(a[0])))
            else:
                ins.append("I%s %s %s" % ({"write": "Write", "lessv": "LessV", "eqv": "EqV"}[nm], _zt(a[0]), _tree(sz, a[1:], collapsed)))
        exp = []
        for l in rlines:
            t = l.split()[3]
            if t == "-":
                exp.append("ONone")
            elif t.startswith("b:"):
                exp.append("OBool %s" % ("true" if t[2:] == "1" else "false"))
            else:
                flat = [] if t[2:] == "-" else [int(x) for x in t[2:].split(",")]
                exp.append("OVal %s" % _tree(sz, flat, collapsed))
        buf = bline[0].split()[2:]
        out.append("Example x_%s :" % cid)
        out.append("  let a := %s in" % view(aex, aops, g))
        if bex is not None:
            out.append("  let b := %s in" % view(bex, bops, 2 * g + na))
        out.append("  let m0 : mem := fun p => mkcell (nth (Z.to_nat p) [%s] (-1)) false in" % "; ".join(_zt(x) for x in data))
        out.append("  let r := run_on_view (%s) (script [%s]) m0 in" % (row, "; ".join(ins)))
        out.append("  (snd r, map (fun p => c_val (fst r p)) (iota %d)) = ([%s], [%s])." % (len(buf), "; ".join(exp), "; ".join(_zt(x) for x in buf)))
        out.append("Proof. vm_compute. reflexivity. Qed.")
        n += 1
    return "\n".join(out) + "\n", n


def vm_crosscheck(res, fam, prog_text, obs_text, limit):
    text, n = vm_cases_text(prog_text, obs_text, limit)
    d = fam.workdir()
    path = os.path.join(d, "c03_vm.v")
    open(path, "w").write(text)
    rc, out, err = core.sh(["coqc", "-Q", core.COQ, "BM", path], cwd=d, timeout=900)
    if rc != 0:
        rp = core.write_replay(PID, "", {"property": PID, "found-by": "extraction:vm_compute-disagrees-with-the-extracted-model",
                                         "log": (out + err)[-3000:], "file": os.path.relpath(path, core.VERIF)})
        res.violation(rp, "vm_compute cross-check failed", no_input=True)
    return n if rc == 0 else 0


def family():
    return FamilyC03(PID, "gen", "run", "h_algos", ["h_algos.cpp"], monitor=monitor, flags=("-DBM_MAXD=3",),
                            body_prefixes=("aop ", "bop ", "prim "), record=record, driver="driver_c03")


def ensure_driver():
    return core.ensure_driver_for("c03", "ExtractC03.v", ["c03_driver.ml"], "driver_c03", model_base="modelc03")


def run(tier, seed, replay=None):
    res = core.Result(PID, tier, seed, level="proof")
    fam = family()
    if tier == "thorough":
        fam.flags = fam.flags + ("-fsanitize=address,undefined", "-fno-sanitize-recover=all")
        fam.harness = "h_algos_san"
    coq = fam.prepare(res, driver_ok=ensure_driver())
    if coq is None:
        return res.finish()
    _orig_fails = fam.case_fails

    def case_fails(block):
        index_prog(block)
        return _orig_fails(block)
    fam.case_fails = case_fails
    if replay:
        fam.replay(res, replay)
        return res.finish()
    count = 12000 if tier == "quick" else 600000
    extra = ["--maxops", "4" if tier == "quick" else "6", "--maxrank", "3", "--primpct", "40", "--collapsepct", "1"]
    prog_c = fam.corpus()
    obs_c = fam.model_run(prog_c) if prog_c else ""
    prog_g, obs_g, dist = fam.generate(seed, count, extra=extra, prefix="g")
    prog_text, obs_text = prog_c + prog_g, obs_c + obs_g
    index_prog(prog_text)
    impl_text, crashes = fam.impl_run(prog_text)
    index_prog(prog_text)
    n_failing = fam.classify(res, prog_text, obs_text, impl_text, crashes)
    n_vm = vm_crosscheck(res, fam, prog_text, obs_text, 40 if tier == "quick" else 400)
    fam.proof_verdict(res, coq, n_failing)
    algo_runs = sum(1 for ln in impl_text.splitlines() if ln.startswith("T "))
    prim_steps = sum(1 for ln in impl_text.splitlines() if ln.startswith("R "))
    res.coverage.update({
        "evaluations": len(core.split_cases(prog_text)),
        "distinct_nontrivial": progcheck.distinct_nontrivial(
            prog_text, min_lines=3, prefixes=("aroot", "aop ", "broot", "bop ", "range", "prim ", "algo ")),
        "rule": "a view = root of rank 1..3 (extents 0..6, 0/1 forced in 15%) taken through 0..4 (thorough 0..6) in-domain operations "
                "among index sliced sliced(.,.,s) strided dropped taked rotated unrotated transposed reversed; range = begin()/end() "
                "(65%) or elements() (35%); optionally a second view over a second padded/rotated/stride-2 root of the same row "
                "shape; element values 0..vmax with vmax in {1,2,4,8} (duplicates), with planted runs of equal rows, sorted ranges "
                "and equal second ranges; 40% primitive scripts (1..12 of read take write copy move swap less lessv vless eq eqv "
                "at random positions incl. p = q and the ends), 60% one algorithm of the property's 20 with in-domain arguments "
                "(middle/nth incl. 0 and n; searched / filled values taken from the range in 60%); whole buffer with guard "
                "cells compared; non-trivial = at least 3 program lines besides case/buf/data/end; distinct by hash of the case text without "
                "its data line (view program + range + script / algorithm with arguments)",
        "samples": progcheck.samples(prog_text, n=3, min_lines=5),
        "generator_distribution": dist,
        "observation_lines_compared": obs_text.count("\n"),
        "algorithm_runs_checked_against_vector_twin": algo_runs,
        "primitive_steps_compared_with_model": prim_steps,
        "corpus_cases": len(core.split_cases(prog_c)),
        "primitive_scripts_re_evaluated_by_vm_compute_in_coqc": n_vm,
        "disagreeing_cases": n_failing,
        "cases_matching_a_known_finding": getattr(fam, "n_known", 0),
        "not_exercised": [
            "rows whose shape has a zero inner extent under a non-zero outer one (value_type = multi::array collapses to "
            "all-zero sizes, so a value of the row's shape cannot be built; see notes/REPORT_C03)",
            "re-based (non-zero index base) views: C19's business",
            "rank > 3, element types other than a tracked int",
            "libstdc++'s algorithms are trusted to be programs over the reference-level primitives (DESIGN section 8)"],
    })
    res.assumptions = ["no 64-bit overflow", "g++ 12 / libstdc++ as installed (its algorithms are clients of the iterator primitives)",
                       "element type: tracked int with ==, <; moved-from state of elements inside the range is not compared"]
    return res.finish()

"""Bounds the trust in extraction and in the OCaml driver: a sample of view programs is re-evaluated INSIDE Coq
(`Eval vm_compute`) on the same definitions the theorems are about, and must give the numbers the extracted
model printed (sizes, strides, num_elements and the bracket/paren/cursor address of every probe)."""
import os
import re

from . import core


def z(n):
    n = int(n)
    return "(%d)" % n if n < 0 else str(n)


def op_term(toks):
    k = toks[0]
    a = toks[1:]
    if k == "index":
        return "OIndex %s" % z(a[0])
    if k in ("sliced", "range"):
        return "OSliced %s %s" % (z(a[0]), z(a[1]))
    if k == "sliceds":
        return "OSlicedS %s %s %s" % (z(a[0]), z(a[1]), z(a[2]))
    if k == "strided":
        return "OStrided %s" % z(a[0])
    if k == "dropped":
        return "ODropped %s" % z(a[0])
    if k == "taked":
        return "OTaked %s" % z(a[0])
    simple = {"rotated": "ORotated", "unrotated": "OUnrotated", "transposed": "OTransposed", "tilde": "OTransposed",
              "reversed": "OReversed", "diagonal": "ODiagonal", "halved": "OHalved", "flatted": "OFlatted"}
    if k in simple:
        return simple[k]
    if k == "partitioned":
        return "OPartitioned %s" % z(a[0])
    if k == "chunked":
        return "OChunked %s" % z(a[0])
    if k == "reindexed":
        return "OReindexed %s" % z(a[0])
    if k == "blocked":
        return "OBlocked %s %s" % (z(a[0]), z(a[1]))
    if k == "reindexedl":
        return "OReindexedL [%s]" % "; ".join(z(x) for x in a)
    if k == "paren":
        args, rest = [], a[1:]
        while rest:
            if rest[0] == "i":
                args.append("PIdx %s" % z(rest[1]))
                rest = rest[2:]
            elif rest[0] == "r":
                args.append("PRange %s %s" % (z(rest[1]), z(rest[2])))
                rest = rest[3:]
            else:
                args.append("PAll")
                rest = rest[1:]
        return "OParen [%s]" % "; ".join(args)
    raise ValueError("op " + k)


def case_term(block):
    """-> (case id, Coq term of type list (list Z)) : after the last op: sizes, strides, [nel], then per probe [B; C; H]"""
    cid, exts, ops, probes = None, [], [], []
    for line in block.splitlines():
        p = line.split()
        if not p:
            continue
        if p[0] == "case":
            cid = p[1]
        elif p[0] == "root":
            exts = [(p[2 + 2 * k], p[3 + 2 * k]) for k in range(int(p[1]))]
            probes = []
        elif p[0] == "op":
            ops.append(op_term(p[1:]))
            probes = []
        elif p[0] == "probe":
            probes.append(p[1:])
    root = "[%s]" % "; ".join("(%s, %s)" % (z(f), z(l)) for f, l in exts)
    pr = "[%s]" % "; ".join("[%s]" % "; ".join(z(x) for x in pb) for pb in probes)
    t = ("match run_ops [%s] (root_view %s) with Some v => [l_sizes (lay v); l_strides (lay v); [l_num_elements (lay v)]] ++ "
         "map (fun idx => [addr_brackets v idx; addr_paren v idx; addr_cursor v idx]) %s | None => [[-1]] end"
         % ("; ".join(ops), root, pr))
    return cid, t, len(ops), len(probes)


def expected_from_obs(obs_lines, nops):
    """same numbers from the driver's observation lines of one case (S/P lines of the last step)"""
    s = [l for l in obs_lines if l.startswith("S ") and int(l.split()[2]) == nops]
    if not s:
        return None
    p = s[0].split()
    f = {q.split("=")[0]: q.split("=", 1)[1] for q in p[3:]}
    sizes = [int(x) for x in f["sizes"].split(",")] if f["sizes"] else []
    strides = f["strides"].split(",") if f["strides"] else []
    out = [sizes, strides, [int(f["nel"])]]
    for l in obs_lines:
        if l.startswith("P ") and int(l.split()[2]) == nops and "invalid" not in l:
            m = re.search(r"B=(-?\d+) C=(-?\d+) T=(-?\d+) H=(-?\d+)", l)
            out.append([int(m.group(1)), int(m.group(2)), int(m.group(4))])
    return out


def run(prog_text, obs_text, max_cases=40):
    """returns (n_checked, list of mismatch descriptions)"""
    blocks = core.split_cases(prog_text)[:max_cases]
    obs = core.by_case(obs_text)
    terms = []
    for cid, b in blocks:
        try:
            c, t, nops, _np = case_term(b)
        except ValueError:
            continue
        terms.append((c, t, nops))
    if not terms:
        return 0, []
    d = os.path.join(core.BUILD, "work", "vm")
    os.makedirs(d, exist_ok=True)
    path = os.path.join(d, "cases.v")
    with open(path, "w") as f:
        f.write("From Coq Require Import ZArith List.\nFrom BM Require Import Model.Layout Model.View.\nImport ListNotations.\n"
                "Local Open Scope Z_scope.\n")
        for k, (c, t, _n) in enumerate(terms):
            f.write("Definition c%d := %s.\nEval vm_compute in c%d.\n" % (k, t, k))
    rc, out, err = core.sh(["coqc", "-Q", core.COQ, "BM", path], cwd=d, timeout=900)
    if rc != 0:
        return 0, ["coqc failed on cases.v: " + (out + err)[-500:]]
    chunks = re.split(r"^\s*=\s", out, flags=re.M)[1:]
    bad = []
    for (c, _t, nops), ch in zip(terms, chunks):
        body = ch.split(": list")[0]
        rows = [[int(x) for x in re.findall(r"-?\d+", r)] for r in re.findall(r"\[([^\[\]]*)\]", body)]
        exp = expected_from_obs(obs.get(c, []), nops)
        if exp is None:
            continue
        # strides of dimensions with fewer than two indices are printed as '*' by the driver
        got_strides = rows[1] if len(rows) > 1 else []
        exp_strides = exp[1]
        ok = rows[0] == exp[0] and rows[2:] == exp[2:] and len(got_strides) == len(exp_strides) and \
            all(e == "*" or int(e) == g for e, g in zip(exp_strides, got_strides))
        if not ok:
            bad.append("%s: vm_compute %r, extracted model %r" % (c, rows[:6], exp[:6]))
    return len(terms), bad

"""Writes MANIFEST.json from the table below (python3 -m vlib.manifest). Keep in step with DESIGN.md."""
import json
import os

VERIF = os.path.dirname(os.path.dirname(os.path.abspath(__file__)))

BASELINE = ("cmake --build /repo/_build && OMPI_ALLOW_RUN_AS_ROOT=1 OMPI_ALLOW_RUN_AS_ROOT_CONFIRM=1 "
            "ctest --test-dir /repo/_build -j8 --timeout 900")

TRUST = ("Coq 8.16.1 kernel; Print Assumptions of every property theorem is recorded in the evidence file; hand-written Gallina model "
         "tied to /repo by a correspondence check (model extracted with ExtrOcamlBasic only, OCaml driver, C++ harness compiled "
         "against /repo/include in the run, API-level observables compared); the tie is a sample whose generator distribution is "
         "printed in the evidence; no 64-bit overflow; g++ 12/libstdc++ as installed")

CHECKS = {
    "C01": dict(
        text="Theorem C01_view_algebra (Coq, all ranks/extents/op sequences/index tuples): a zero-based root array taken through "
             "any sequence of in-domain view operations has the sizes, extensions, num_elements, is_empty and affine strides of the "
             "composed documented index maps, all four access paths reach the row-major position of the mapped root index, inside "
             "the root. The concrete model follows layout.hpp/array_ref.hpp function by function and is compared with the library "
             "on generated programs after every operation (shapes + element addresses via [] , (), apply(tuple), home() cursor).",
        design_ref="5/C01", technique="Coq proof (induction over operation lists, refinement to index-map spec) + extracted-model "
                                      "vs library differential on view programs"),
    "C02": dict(
        text="Theorems C02_array_iterator_laws (any view, any index base: begin/end delimit size() positions; ++/-- inverse; "
             "(it+k)-k==it; (it+k)-it==k; < iff positive difference; == iff same position; it[k] is *(it+k); *(begin+p) is the "
             "sub-view at the p-th valid index; any ++/--/+=/-= trace denotes the computed position), C02_elements_iterator_laws "
             "(invariant over arbitrary traces inside [begin,end] keeping the flat position and the index tuple in step; deref, "
             "[k], elements()[k], front, back designate the element at the p-th tuple in canonical order; rank bijection), "
             "C02_canonical_is_lexicographic, C02_reachable (composed with C01 for every reachable view). Tie: random iterator "
             "walks on begin()/end() and elements() of generated views compared step by step with the extracted model, plus "
             "model-independent monitors (deref equals indexing, const==mutable, comparisons consistent with differences).",
        design_ref="5/C02", technique="Coq proof (invariant by induction over iterator-operation traces, mixed-radix lemmas) + "
                                      "extracted-model vs library differential on iterator walks"),
    "C19": dict(
        text="Theorem C19_rebase_transparent (Coq, all ranks/extents/index bases/op sequences incl. reindexed and blocked): a "
             "program on a root built from explicit index extensions is, operation by operation, its zero-based twin program "
             "with shifted index arguments; same base, sizes, strides, num_elements; element at idx = twin element at idx - "
             "firsts; the twin consists of C01 operations so C01 applies; C02's iterator/elements theorems are stated for any "
             "index base. Excluded and named: slicing an empty dimension with non-zero offset (designates nothing) and "
             "diagonal() on re-based views (C19_diagonal_refuted; known finding). Tie: the C01/C02 correspondence on roots "
             "with bases -3..3 plus a model-independent monitor running the library on the twin program.",
        design_ref="5/C19", technique="Coq proof (per-operation simulation between a re-based view and its normalised twin, "
                                      "induction over operation sequences) + differential on re-based programs + library-vs-"
                                      "library twin monitor"),
    "C05": dict(
        text="Theorems C05_assign_exact, C05_moved_exact, C05_fill, C05_swap, C05_assign_values, C05_block_copy_refuted (a block copy is not assignment even for gap-free operands with equal extensions: compactness is not canonical order; the harness takes a third of its view assignments through a source of another static type so that the converting overloads are selected, and the generator has a family of gap-free pairs in different rotations) (Coq, any views, any sizes): the "
             "sequential element loops the library runs for =, elements()=, fill, swap, =element_moved() and range assignment set "
             "exactly the k-th destination element to the (converted) k-th source value for every canonical position k, mark "
             "exactly the source view's cells as moved-from, exchange both footprints, and leave every address outside the "
             "destination (and, for swap/move, the source) unchanged, given that distinct positions are distinct cells and the two "
             "views share none; C05_logical_order: position k is the same index tuple relative to each side's index bases. "
             "Tie: whole-buffer comparison (guards + both roots, value and moved-from flag per cell) of the library against the "
             "extracted model on generated (destination view, source view, operation) cases, plus model-independent monitors. Dimensionality 0: C05_rank0_assign_exact (q = p / element / fill / element_moved sets exactly the designated element, every other element of every array and buffer and all extensions stay, nothing is rebound or allocated), C05_rank0_swap_exact, C05_rank0_never_rebinds; C05_rank0_moved_refuted (element_moved() is copied from at rank 0: known finding KF-rank0-element-moved-copies).  Tie: 85 compile probes + h_rank0 (references into buffers with neighbouring elements, into arrays, aliasing included).",
        design_ref="5/C05", technique="Coq proof (loop invariants by induction on the element count; frame) + extracted-model vs "
                                      "library whole-buffer differential"),
    "C07": dict(
        text="Theorems C07_eq_iff (== is equal extents and equal elements, i.e. equal nested values), C07_ne_negation, "
             "C07_derived_ops (<=, >, >= as composed), C07_strict_weak_order (< is the lexicographic order of nested values over "
             "the leading dimension recursively: irreflexive, asymmetric, transitive, incomparable operands have equal values, "
             "hence transitivity of incomparability), C07_trichotomy (non-empty zero-based operands of equal rank: exactly one of "
             "a<b, a==b, b<a, and == iff values equal), C07_prefix_smaller; for ANY element equality, no law assumed (Model/CompareBy.v: the element type's own ==, each operand reading through its own projection): C07_eq_any_element_equality, C07_eq_by_generalises_eq, C07_self_eq_iff_elements_reflexive (a view equals itself exactly when every element equals itself: no shortcut on the identity of the operands is sound), C07_self_eq_with_nan, C07_ne_by_negation -- tied by harness/c07_elemeq.cpp (double arrays with a NaN at every position, element_transformed views of one array through function pointers of one type; views sharing base pointer and extensions but not strides) against eq_flat_by evaluated by vm_compute inside Coq; all for any ranks (rank 0 = a leaf), extents, layouts (the value "
             "abstraction forgets strides and base). Tie: all operators on three views of equal rank 0..4 with independent layouts, on "
             "owning copies and mixed (owning, double elements, pointer-to-const views, array_cref, const arrays), against the extracted model, plus model-independent monitors (negation, symmetry, "
             "trichotomy, transitivity, ownership independence). Empty operands: only ==/!= consistency, as the property says. Dimensionality 0: C07_rank0_compare_is_value_compare (all six operators on every pairing of array / reference / read-only reference / a() / element, const or not, answer the same relation on the two values and touch nothing), C07_rank0_eq_iff, _ne_negation, _lt_is_element_lt, _derived_ops, _strict_order_*, _incomparability_transitive, _trichotomy.  Tie: 152 compile probes (20 needed operand pairings x 6 operators, size-like queries) + h_rank0 with a consistency monitor.",
        design_ref="5/C07", technique="Coq proof (lexicographic order on uniform-depth trees is a strict total order, by induction "
                                      "on depth and lists; shape-regular trees are determined by their flat sequence) + "
                                      "extracted-model vs library differential on operator tables"),
    "C14": dict(
        text="Theorems C14_{potrf,geqrf,gesvd,syev}_marshalling (Coq, all sizes/strides/offsets, both orientations and fillings): "
             "for every accepted view the Fortran call the adaptor builds is legal, LAPACK sees the view's matrix or its transpose "
             "according to which stride is 1, the triangle flag designates the selected triangle, nothing outside the view's "
             "footprint is designated, the returned view is the leading block by info (C14_potrf_leading_block), what passes "
             "geqrf's own assertions designates only elements of the view (C14_geqrf_checks_suffice). C14_workspace: query call then "
             "real call with the same arguments, workspace allocated and returned once on every path. The *_factorization theorems: "
             "given LAPACK's column-major contracts (premises) the factors reconstruct the input in the view's own reading, values "
             "in LAPACK's order, only documented outputs change. Tie (the iterator-level potrf(uplo, first, last) is also called on proper leading sub-ranges and compared with the model's potrf_it_call / potrf_it_ret): interposed dpotrf_/dgeqrf_/dgesvd_/dsyev_ (every argument, "
             "workspace event, returned view) against the extracted model; residuals, ordering, guard cells and the unselected "
             "triangle checked on the library's own output.",
        design_ref="5/C14", technique="Coq proof (index arithmetic of the marshalling; LAPACK contracts as premises) + extracted-"
                                      "model vs library differential with symbol interposition + numeric oracle",
        note="floating-point accuracy is measured (residual <= 200 n eps |A|), not proved; LAPACK contracts are premises; getrf "
             "not claimed (does not compile, as the property says); Coq 8.16.1 kernel, Print Assumptions recorded in the evidence; "
             "extraction ExtrOcamlBasic only; g++ 12, OpenBLAS/LAPACK as installed"),
    "C17": dict(
        text="Theorems C17_roundtrip_array / C17_roundtrip_nested (Coq, all ranks, all extents incl. zero sizes and index bases, "
             "every prior state of the receiving array, any element type whose own archive codec round-trips): load_array prior "
             "(save_array a ++ rest) = Some (a, rest) for the model that follows array::serialize and the rvalue reextent step by "
             "step; C17_view_roundtrip_frame: a view saves exactly its elements in canonical order and loading writes exactly its "
             "footprint; C17_load_ledger. The model is run against the library with real Boost text/binary/XML archives (loaded "
             "extents, elements, ==, XML document order, whole receiving buffers, allocator ledger). One defect found by this check "
             "was fixed in /repo (15bfce8); the former failing inputs are a regression corpus.",
        design_ref="5/C17", technique="Coq proof (induction over rank and element lists; nested arrays by instantiating the theorem "
                                      "with itself) + extracted-model vs library differential through real Boost archives, "
                                      "vm_compute cross-check of the extracted run",
        note="Coq 8.16.1 kernel; property theorems 'Closed under the global context'; archive primitives and element codecs are "
             "premises (codec_ok), Boost.Serialization 1.83 as installed; elements() order is C02's; hand-written Gallina model tied "
             "to /repo by a sampled correspondence check whose generator distribution is in the evidence; Cereal, 0-D views and "
             "views of re-based arrays not exercised; no 64-bit overflow"),
    "C15": dict(
        text="Coq, all ranks/masks/sizes/strides and ANY index bases (induction over the mask; views with extensions not starting at 0 through their zero-based twins): C15_plan_denotes_view_dft - the dims/howmany_dims handed to fftw_plan_guru64_dft visit exactly the index set of the views, split by the mask, each index once, at the views' own addresses counted from their first elements; C15_output_frame - written locations = output view, read locations = input view; C15_reachable_views - views reached by sliced/blocked/strided/rotated/transposed/reversed/reindexed from arrays over any extensions are in the domain; C15_base_is_first_element + C15_call_pointers - the pointers of BOTH the planning call and the execute call are the addresses of the views' first elements (base(), not origin()); C15_call_shape - no FFTW call for an empty view, else one plan, one execute on the planned pointers, one destroy; C15_planner_flags - for every size and every flags argument the plan is created with FFTW_ESTIMATE|FFTW_PRESERVE_INPUT, which by FFTW's documented contract (a definition) leaves the arrays alone at planning time; C15_planner_flag_needed - with a measuring flag set the same calls clear the arrays (2-point witness). Relative to explicit FFTW contracts for executing (guru_contract) and for creating (plan_contract) a plan, both shown satisfiable: C15_equals_direct_dft - for all extents >= 0 and equal extensions the output view = direct unnormalised DFT along exactly the masked dimensions with the requested sign, batches independent, nothing outside the output view modified, out-of-place and in-place; C15_input_unchanged; C15_forward_backward (premise: 1-D DFT inversion at the transformed sizes); C15_lazy_range(_arrays/_equals_direct_dft) - the lazy fft::dft range form makes the same calls for arrays of every rank over any extensions.  Only explicit plan objects keep FFTW's own domain (C15_plan_object; necessity shown).  Tie: every generated case (all 2^D masks per layout pair, D 1..4, extents 0..6 plus transforms above 2^16 and above 2^20 elements, padded/strided/rotated/transposed/reversed/shared-root/in-place layouts, half of them with non-zero index bases from based roots, blocked and reindexed views, 8 front ends incl. plan objects and the lazy range) compares the interposed fftw_plan_guru64_dft arguments (tensors, BOTH pointers, sign, semantic planner flags), the fftw_execute_dft pointers, the call order, view shapes with first indices and the set of changed output cells with the extracted model, and checks the library's result against an O(N^2) long-double DFT, input copy, frame, guard cells, forward-backward, the planner flags by FFTW's documented contract and the arrays bitwise across every planning call.",
        design_ref="5/C15", technique='Coq proof (permutation of nested-loop index sets by induction over the mask; refinement of the plan to the view index map; transfer to any index base through the zero-based twin; ring-generic DFT algebra; planning as a memory effect under a flag contract) + extracted-model vs library differential with FFTW symbol interposition (plan, execute, destroy and the other planner entry points; arrays compared across the planning call) and an independent O(N^2) DFT monitor',
        note="Coq 8.16.1 kernel; all 18 property theorems print 'Closed under the global context'; the DFT itself is FFTW's: guru_contract (trusted reading of the FFTW manual, incl. PRESERVE_INPUT and in-place is==os), plan_contract (manual 4.3.2: FFTW_ESTIMATE / FFTW_WISDOM_ONLY plans do not write to the arrays) and tw_orthogonal_at are premises of the theorems, sampled by the O(N^2) monitor and by the interposer's before/after comparison of every planning call, not proved; hand-written Gallina model tied to /repo by a correspondence check (ExtrOcamlBasic extraction, OCaml driver, C++ harness + interposer TU compiled against /repo/include in the run; thorough tier also ASan/UBSan and a vm_compute cross-check of the extracted model); the tie is a sample whose generator distribution and size classes are in the evidence (largest transform ~1.6e6 elements; above 20000 elements the changed-cell set is compared by digest, above 300000 the model side of the digest is a native loop over the extracted plan's tensors; the O(N^2) reference is sampled at 64 output elements when N*Nt > 2e7); equal extensions of in and out (the adaptor asserts it); no 64-bit overflow; FFTW 3.3.10 / g++ 12 as installed; two defects found by this package were fixed in /repo (c24dd02, a7e1e64) and are regression cases in corpus/C15, as are the inputs of seeds s5 / s6"),
    "C18": dict(
        text="Theorems C18_message_is_elements, C18_reachable_view, C18_transfer, C18_transfer_reachable, C18_types_freed_once, "
             "C18_create_subarray, C18_data(+_strided_refuted/_partial) (Coq, all ranks >= 1, all sizes incl. 0 and 1, all strides, "
             "all element sizes, all C01 operation sequences): the (count, datatype) that mpi.hpp's skeleton/message builds from a "
             "zero-based view's layout denotes, relative to base(), exactly the byte displacements of the view's elements in "
             "canonical order (each valid tuple once; equal to elements()[k]); for reachable views every entry lies inside the "
             "root and entries never overlap; pack through one view's message and unpack through any equal-count view's message "
             "moves the k-th element to the k-th element and changes nothing else; every created datatype handle is fresh, "
             "committed before communication, freed exactly once. MPI-3.1 4.1/4.2 type-map, extent, message and pack/unpack "
             "semantics are Coq definitions. Tie: singleton MPI_Init, decoded datatype tree, count, extents, MPI_Pack vs "
             "elements(), guarded MPI_Unpack through the other view's message, PMPI create/commit/use/free trace.",
        design_ref="5/C18", technique="Coq proof (induction on the dimension list for the type map and the handle ledger; injectivity "
                                      "of the documented index maps) + extracted-model vs library differential under singleton MPI "
                                      "with a PMPI logging layer, MPI_Pack/MPI_Unpack, MPI_Type_get_envelope/contents decoding",
        note="Coq 8.16.1 kernel; all Print Assumptions: Closed under the global context; MPI semantics are definitions (trusted "
             "reading of MPI-3.1, cross-checked against Open MPI 4.1.4 on every run); MPI_Send/MPI_Recv between two processes are "
             "not run (MPI_Pack/MPI_Unpack on the same messages are); zero-based views only (C19 owns index bases); no int/MPI_Aint "
             "overflow; mpi::data(iterator) ignores the stride (recorded observation, outside the statement; the suite expects it)"),
    "C16": dict(
        text="A finite automaton astep : state -> operation -> outcome over (library kind x pointer family, D class, top-level const, value category) -- 93 kinds (views, iterators, element ranges / iterators, cursors, subarray_ptrs, element pointers over int*, int const*, transform_ptr with reference int& / int const& / a value, move_ptr; struct-element sources), 99 operations (access and view-forming, the projections element_transformed / member_cast / reinterpret_ / static_ / const_array_cast / element_moved, mutable_base / cbase / elements_at / apply / data, conversions between handle kinds {implicit, explicit, assignment, comparison}, view construction, decay) -- follows array_ref.hpp / array.hpp / utility.hpp overload set by overload set.  C16_const_propagates (Coq): along paths of ANY length and for every rank a read-only typed expression only yields read-only typed expressions and none accepts =, fill or swap, outside the named exclusions (`hole`: const_iterator::base(); transform_ptr::base(); const subarray_ptr -> subarray_ptr; transform_ptr<.., T const&> -> <.., T&>; static_array_cast<T>(); 1-D member_cast; element_transformed / member_cast of a non-const const_subarray; const_array_cast() and mutable_base() as the library's named ways out), each shown to be a real site by C16_holes_are_real ; four of them are repaired in /repo (5b32331, 1fb0749, 0bae362: the model's fx_* switches follow the repaired tree), the rest are known findings; C16_const_propagates_refuted; C16_projections_and_conversions; C16_mutable_paths; C16_mutability_lost_only_at_gaps; C16_no_rebind / C16_view_assignment; C16_repaired_sites_are_clean.  The table is tied EXHAUSTIVELY to the library: one compiled C++ probe per (state, operation) row (52 588 rows in quick, 74 428 in thorough, incl. must-fail compilations / links) must classify as the model says; independently every access path of depth <= 2 over the whole alphabet (81 k expressions) and, in thorough, of depth 3 over the first alphabet (1.9 M) from twelve kinds of root is compiled as one expression and monitored; 232 run-time write attempts.",
        design_ref="5/C16", technique='Coq proof (induction over access paths from one-step invariants discharged by vm_compute over the finite kind-level table, 93 x 4 x 2 x 2 x 99 rows) + exhaustive compile-time probes of every table row (detection idiom, type classifier by pattern matching, instantiation, must-fail functions / links) + direct enumeration of composed expressions + run-time write witnesses',
        note='the all-depths theorem is over a finite table; the table is tied exhaustively for D 1..3 (4 in thorough) over raw pointers and D 1..2 (3 in thorough) over the projection families; element types int and struct {int a; int b;}; transform_ptr kinds are functor-agnostic (canonical functor &S::b; four functors in the composed paths); conversions have no rows in the value families and after a non-canonical functor; view construction is composed only on named receivers (prvalue / xvalue are one state); results outside the fragment (move_subarray, subarray<T const, ..>, struct elements, nested projections) are absorbing; g++ 12 -std=c++17; ten const-clause known findings (seven open sites + the nine mutability gaps of the first report are unchanged); Coq 8.16.1 kernel, Print Assumptions in the evidence'),
    "C12": dict(
        text="Coq theorems (Properties_C12.v, 31, all ranks/extents/strides/index bases/operation sequences/index tuples/iterator traces; the model follows layout_t::scale as repaired in /repo 1b46e17: stride, offset and nelems scaled, two divisibility assertions): the assertions of scale are exactly den | stride*num and den | offset*num at every level, the offset one follows from the stride one on every well-formed layout and both hold whenever sizeof(U) divides sizeof(T) (C12_scale_assertions; the old offset==0 exclusion is recorded as C12_scale_old_code_refuted); on views with ANY index bases (negative, zero, positive) member_cast keeps the source's index ranges and sizes and designates byte offsetof(member) of the source element at the same index tuple, reinterpret_array_cast<U>() keeps ranges and every element's address (generic and rank-1 const& code), reinterpret_array_cast<U>(n) keeps the source ranges, adds the range [0,n) and puts element (idx,j) at byte j*sizeof(U) of element idx (C12_member_cast_any_base, C12_reinterpret_any_base, C12_reinterpret_extra_dim_any_base, C12_reinterpret_rank1_any_base), and on every view reachable from a root over arbitrary index extensions no assertion of these casts can fire, for every receiver kind, and element idx is the member/bytes of the root element the documented index maps prescribe (C12_member_cast/_reinterpret/_reinterpret_extra_dim_from_based_root); the zero-based statements with shape_agrees and containment (C12_member_cast_addr/_from_root, C12_reinterpret_addr/_same_size, C12_reinterpret_extra_dim/_from_root); element_transformed has the source's shape, reads f(source element) at access time and writes through a reference-returning projection changing only that sub-object (C12_transformed, C12_transformed_write_through); static/const_array_cast, as_const and element_transformed keep layout and base on every view, and on every re-based reachable view the element read is f of the root element the index maps prescribe (C12_cast_identity, C12_identity_any_base); projections commute with every C01 operation (C12_compose, C12_compose_extra_dim, C12_compose_ops); iterators of projected views after any ++ -- += -= trace are at the computed position and designate what indexing designates = the projection of the source's sub-view, also through it[k] and std::reverse_iterator, leading and flat (C12_projected_iterator_lead/_any_base/_flat); an array constructed or assigned from a view/projection of any index base is always defined, has the source's extensions including first indices and element idx = conv(source element idx); array(first,last) restarts the leading index at 0, array(elements()) is the flat sequence (C12_convert_construct/_pview/_any_base/_based, C12_convert_iter_pair, C12_convert_flat). Tie: generated projection programs over struct and complex elements; 55% of the roots over extensions with bases from -3..3 in every dimension, reindexed/blocked/rows/rotated views of them; every projection overload of array_ref.hpp through its const-lvalue, lvalue, xvalue and prvalue receivers (measured table by kind x receiver x rank class x sign of the source's bases in the evidence): extensions, sizes, strides after every step, value and byte offset of &proj[idx], root words modified by writes, laziness, iterator walks compared with the model and with indexing, and arrays made through every converting constructor/assignment of array.hpp: extensions and elements.",
        design_ref="5/C12", technique="Coq proof (scale lemmas on the any-base layout invariant dim_okg/lay_okg with the zero-based C01 invariant as a corollary, C19's twin-program theorem for the from-root statements, simulation through step_ok for composition, C02's iterator and mixed-radix lemmas lifted to projected views, iterated next_canonical for the flat copy) + extracted-model vs library differential on projection programs (harness compiled per run in 23 parallel translation units against the tree under test), model-independent monitors (iterator vs indexing, it-begin vs token arithmetic, value = object at the printed address, accesses inside the root), three compile-time probes, regression corpus of 10.3k cases (4.9k of them projections of re-based sources through every receiver kind), sanitizer run and vm_compute cross-check in the thorough tier",
        note="Coq 8.16.1 kernel; all 31 theorems print 'Closed under the global context'; addresses and extensions are proved, the identification of the object at an address with the member/sub-object and the numeric value of conv are the C++ object model / arithmetic and are observed (words compared), not proved; hand-written Gallina model tied to /repo by a sampled correspondence (generator distribution, overload map and receiver x base table in the evidence); the commutation and iterator theorems for the scaling projections are stated for zero-based sources (for re-based ones the invariant lay_okg is proved to be preserved and the tie exercises post-operations, walks and conversions); element-pointer walks of transform_ptr are checked against a three-line expectation of the driver, not a Coq definition; const& receivers of element_transformed(member pointer / reference-returning f) and of blas::real/imag/real_doubled are not reached (the latter do not compile for a const source); rank 0 only for array-from-array conversions; raw pointers and transform_ptr only (C11 for others); no 64-bit overflow; g++ 12/libstdc++, x86-64 little endian; no open C12 finding; a const-correctness defect of member_cast/element_transformed on read-only views found on the way is reported to C16 with patch notes/patches_C12/0004"),
    "C11": dict(
        text="Theorems C11_pointer_parametric(+_steps), C11_storage_parametric, C11_compare_parametric (Coq, for every pointer type "
             "satisfying the torsor laws padd/pdiff/peq, every root, extents, rank, index base and every program of view "
             "operations, index probes and iterator walks on begin()/end() and elements()): the model's address computations use "
             "only pointer + integer, pointer - pointer and comparison, so the pointer-typed observation is map (padd root) of the "
             "integer one with identical integer observables, and the element loops and relational operators behave the same on "
             "pointer-indexed storage; C11_deref_in_bounds, C11_loops_touch_only_derefs, C11_compare_reads_only_leaves, "
             "C11_loops_in_bounds: every dereference by indexing, iterators in [begin,end), elements(), the loops and comparison "
             "lies inside [0,N) of the root (end iterators may hold out-of-range addresses but are never dereferenced); "
             "C11_life_steps_touch_live_cells, C11_life_no_access_outside_live_blocks (+_fault), C11_life_cell_below_block_size (on "
             "Model/Life.v, importing the C08/C09 lifecycle theorems): every cell touched by construct / destroy / read / assign in "
             "any in-domain history of array.hpp entry points lies in a live block, below its size. Replay: the view / iterator / "
             "assignment / comparison / standard-algorithm program families, fault-free lifecycle histories (C04/C06/C08 "
             "generators, instrumented element and allocator) and 28 owning-array probes run on T*, an offset-style fancy pointer "
             "over an interleaved arena (no conversion to or from T*) and a provenance pointer that checks bounds and block "
             "liveness; each output must equal the model's observation stream, the checked pointer's violation log must be empty, "
             "no to_address/pointer_to call may occur; a sample of view programs is re-evaluated by vm_compute inside coqc.",
        design_ref="5/C11", technique="Coq proof (step simulation over an abstract torsor, induction over programs and traces; bounds "
                                      "from C01/C02; non-interference of the element loops) + differential replay of five program "
                                      "families, lifecycle histories and fixed probes on three pointer types",
        note="partial in the sense of DESIGN 8: the model part is proved, conformance of the library's templates to the pointer "
             "concept is established by compiling and replaying on three pointer types, not for all types; pointer laws are "
             "premises (fancy_ptr/checked_ptr satisfy them by construction); one open known finding "
             "(reinterpret_array_cast<T2>(count) puns the pointer object); Coq 8.16.1 kernel, Print Assumptions in the evidence"),
    "C03": dict(
        text="Theorem C03_representation_independence (Coq, induction over programs, unbounded): every finite program over twelve "
             "reference-level primitives (read, take, write a value; copy, move, swap between positions; < and == between positions "
             "and against values; arbitrary continuations) gives the same results and the same final values on a view range as on a "
             "list of independent values, and changes no cell outside the range; C03_begin_end / C03_elements instantiate it for "
             "begin()/end() (proxy sub-views) and elements(); C03_reachable discharges the disjointness/injectivity hypothesis for "
             "every view obtained from a row-major array of any rank by index, sliced, strided, dropped, taked, rotated, unrotated, "
             "transposed, reversed; C03_two_ranges; C03_algorithms_in_range (11 of the property's algorithms written as Gallina "
             "programs); C03_moved_from. Rows with a zero extent under a non-zero one are excluded and refuted (C03_full_refuted; "
             "known finding: value_type collapses). Tie: primitive scripts vs the extracted model on the whole guarded buffer; all 20 "
             "algorithms on begin()/end() and elements() against std::vector<value_type> twins (contents, returned position, frame), "
             "the Gallina algorithms also against the model; vm_compute re-evaluation of a sub-sample.",
        design_ref="5/C03", technique="Coq proof (simulation of a free-monad program over proxy-iterator primitives, by induction on "
                                      "the program, from C02/C05/C07) + extracted-model vs library differential on primitive scripts "
                                      "+ algorithm-vs-std::vector twin oracle",
        note="partial in the sense of DESIGN 8: that libstdc++'s 20 algorithms ARE programs over these primitives is trusted and "
             "sampled (twin oracle), not proved; Coq 8.16.1 kernel, Print Assumptions in the evidence; g++ 12/libstdc++"),
    "C13": dict(
        text="Coq theorems over all sizes/strides/bases and an arbitrary carrier (commutative multiplication, conjugation an "
             "involutive morphism where it is used): decidable criteria proved sound for xGEMM, xGEMV, xSYRK/xHERK and -- relative to "
             "the reference xTRSM relation -- xTRSM (C13_gemm_criterion_sound, C13_gemv_criterion_sound, C13_rank_k_criterion_sound, "
             "C13_trsm_criterion_sound: a call that passes is legal, computes the operation on the logical contents incl. "
             "conjugations / the selected triangle / the triangular equation, and writes nothing else); per-call-site theorems with "
             "named conditions for the dispatch of gemm (15 sites + general position), gemv, syrk, herk and trsm (C13_gemm_partial, "
             "C13_gemm_general_position, C13_gemm_conj_output, C13_gemv_partial, C13_syrk_partial, C13_herk_partial, C13_trsm_partial: "
             "all nine trsm sites are right whenever their call is legal); C13_dot_selection_correct and marshalling theorems for "
             "axpy (and its += / -= forms), scal, copy, swap, asum, nrm2, iamax (0-based index of the first maximum; -1 when empty). "
             "The EXPRESSION layer is an expression language in Coq (Model/BlasC13Expr.v) whose compilation reuses the call "
             "models: C13_decorations_compose (any sequence of blas::N/T/J/H, ~, unary *), C13_gemm_expr_sound / _partial (t"
             "arget = | += nested scalings of gemm(s, a, b) | a * b with decorated operands into views, constructed arrays a"
             "nd multi::array targets: the scalars multiply, beta is 0 / 1, nothing else changes), C13_gemm_scales_multiply,"
             " C13_gemv_expr_sound, C13_axpy_expr_sound, C13_dot_expr_sound, C13_trsm_stmt_sound, C13_rk_nobeta_sound, C13_r"
             "k_both_sound, C13_l1stmt_sound. The full statement is refuted on the current tree by per-site witnesses (23 known findings: the gemm cluster, empty "
             "inner dimension in gemv/dot, syrk k/ldc, unchecked strides in syrk/herk, herk conjugate triangle, degenerate leading "
             "dimensions). The dispatch ladders of gemm, gemv, syrk, herk and trsm are regenerated from the source on every run and "
             "proved equal to the modelled ones (C13_dispatch_regenerated, C13_level3_dispatch_regenerated); all models are compared, "
             "call by call, with the interposed BLAS calls of the real library in an assertion-enabled and an NDEBUG build; results "
             "are checked against naive loops / exact residuals on integer data with guard cells; a sub-sample is re-evaluated by "
             "vm_compute.",
        design_ref="5/C13", technique="Coq proof (decidable criteria proved sound; case analysis over the regenerated dispatch "
                                      "ladders) + source-to-Coq translator for the gemm/gemv/syrk/herk/trsm ladders + BLAS symbol "
                                      "interposition differential (extracted model vs library) + direct numeric/frame monitors + "
                                      "vm_compute cross-check of the extraction + expression language with compilation to the call models (induction over expression trees and decoration lists), expression trees evaluated by the library's own operators",
        note="Reference BLAS semantics are Coq definitions (xTRSM: a relation); OpenBLAS is trusted to implement them (sampled by "
             "exact comparisons). gemm for complex<float> and trsm with both operands conjugated do not compile. Known findings are "
             "keyed on listed (routine, call site, kind) pairs and can only cover cases the proved criteria do not certify. "
             "The expression theorems assume the ring laws they list; multi::array's own assignment branches are modelled and compared but not proved; spellings that do not compile at the pinned commit are listed in evidence not_exercised. Coq 8.16.1 kernel; Print Assumptions recorded."),
    "C20": dict(
        text="Theorems (Coq, all ranks/extents/index tuples/operation sequences/iterator traces): C20_asserts_silent_on_valid (a "
             "zero-based array taken through any sequence of in-domain view operations makes every transcribed BOOST_MULTI_ASSERT/"
             "assert true and every divisor non-zero), C20_asserts_silent_rebased_partial (same with index bases, reindexed, "
             "blocked; excluded and refuted: diagonal() on re-based views), C20_iterator_/elements_/assign_silent; "
             "C20_asserts_fire_on_oob, C20_index_guard, C20_guarded_access_in_bounds (chained brackets abort exactly when an index is "
             "outside its extension, at that level, otherwise the address lies inside the root); C20_index_receiver_irrelevant / C20_index_guard_any_receiver (the same for every receiver kind -- const_subarray, subarray, move_subarray, array_ref, array, static_array as lvalue, const lvalue, rvalue, temporary, result of unary + -- and every entry point that goes through operator[]), C20_index_guard_extensions_only, C20_unchecked_first_level / C20_front_back_iterator_in_range, C20_cursor_in_range, C20_elements_at_fire / _fixed_silent / _pinned_zero_based (elements_at(n) is stopped beyond num_elements(); silent on every valid position for any index bases; C20_elements_at_rebased_refuted for the code before 4998992); C20_assign_fire (every overload class of view assignment, move-assignment, swap and array_ref assignment betwe"
             "en ANY two views of different extents aborts before the copy loop), C20_assign_base_irrelevant (the verdict is"
             " a function of the two layouts only, never of the base pointers), C20_assign_aliasing_exact (two views of ONE "
             "array reached by two view programs are stopped exactly when their extensions differ), C20_violating_ops_fire ("
             "taked / dropped beyond size(), halved of an odd size, partitioned by 0 or a non-divisor, sliced with a bound o"
             "utside the extension abort; the boundary count = size() passes), C20_scale_asserts_silent, C20_scale_keeps_ext"
             "ension (layout_t::scale of member_cast / reinterpret_array_cast: silent for any index bases, keeps the index r"
             "ange; C20_scale_old_refuted for the code before 1b46e17), C20_elements_assign_fire, C20_unstopped_assign_fits; C20_ndebug_invariant (results do not "
             "depend on the assertion switch); C20_lifecycle_asserts_silent (every fault-free history of array.hpp entry points in the "
             "documented domain of the lifecycle model -- constructors, copy/move/view/range/converting assignment, swap, clear, "
             "reshape, the three reextent overloads, any rank, index bases, empty and zero-inner-extent cases -- makes every "
             "transcribed assertion true: reshape's num_elements equality, the extension assertions reached through assignment "
             "from views, the sliced / null-base / size assertions of reextent's block transfer, stride() != 0). "
             "Tie: the unchanged C01/C02/C05/C07/C19 harness sources and the lifecycle harness h_life.cpp (rank 2 tracked, rank 1 "
             "trivial, rank 3 tracked; fault-free histories incl. re-based extents, reextent, clear, reshape, assignment from views) built with assertions, with "
             "-DNDEBUG and with -DBOOST_MULTI_ASSERT_DISABLE run the generated valid programs (zero-based and re-based) without "
             "abort and with identical output; death tests in forked children (ASan in the thorough tier) compare abort/no-abort "
             "and the aborting level with the model; 95 fixed probes incl. one valid and one violating call for every assertion site no generated family reaches; assignment death tests also draw ALIASING operands (two views of one array) and whole-root array_refs, with a model-independent monitor on the extensions the library itself reports; valid statements and probes also run with -DNDEBUG and -DBOOST_MULTI_ASSERT_DISABLE and must leave identical buffers; rank-0 arrays must compile and run in all three configurations.",
        design_ref="5/C20", technique="Coq proof (assertion predicates beside every modelled operation; invariants by induction over "
                                      "operation lists; guarded-execution semantics with a configuration switch; lifecycle: assertion predicates over the "
                                      "array objects of Model/Life.v, induction over histories with the ownership invariant) + three-configuration "
                                      "differential of valid programs + forked death tests compared with the extracted model (13 entry points x 21 receiver kinds: a matrix of all cells for rank 1..4 with and without index bases on every run); assertion-site coverage measured with a gcov build of the unchanged harness sources (thorough tier, evidence assertion_sites_*)",
        note="assertion messages are recognised by glibc's assert() format; harness roots have non-null base pointers (null-base "
             "assertion: probe + known finding); faulted lifecycle histories and allocator-trait configurations other than the default are not run in three configurations; Coq 8.16.1 kernel, Print "
             "Assumptions in the evidence; open known findings: null-base slice of an empty owning array; re-based diagonal (= KF-C19-diagonal-rebased); 16 of the 132 assertion sites are never evaluated by any input (cannot be instantiated, do not compile, _MSC_VER-only, need an execution policy, or never selected: list in notes/REPORT_C20.txt FOLLOW-UP 3 D); violating calls are run on the default configuration only"),
    "C04": dict(
        text='Theorems C04_history_invariant (any fault-free history of construction from values / arrays / views / ranges / initializer lists / other element types, copy and move construction and assignment over any prior state, swap, reextent, clear, writes, destruction; any rank >= 1, extents, index bases, trait configuration: no illegal lifetime or storage transition, and afterwards every array is backed by its own live block of exactly num_elements constructed cells), C04_storage_disjoint, C04_layout_matches_block, C04_move_ctor_no_copy, C04_swap_no_copy, C04_self_{copy,move}_assign_noop, C04_copy_ctor_extents, C04_view_ctor_extents, C04_move_leaves_empty_valid, and the VALUE side: C04_value_semantics (after any fault-free history in its documented domain the abstraction of the machine state -- per live array its reported extensions and the flat values of its block; moved-from cells keep their value and never belong to a live array between operations -- equals run_values of the history, the 50-line interpreter over (extensions, values) pairs), C04_operation_refines (the commuting square of each of the 26 operations on any state with the ownership invariant), C04_copy_independent, C04_copy_independent_of_source, C04_assign_from_view_value (views given by the lifecycle model\'s own offsets record, computed by the driver with Model/View.v), C04_view_sources_compose (the composition with C01: the record the driver builds for ANY view reachable from a zero-based root by the view-forming operations meets the domain of the lifecycle theorems -- offsets inside the block, announced count, rank and number of elements of the view, offset k = address of elements()[k], distinct positions distinct cells). Tie: extensions, elements, block classes, allocator ids after every step; disjointness and aliasing monitors; element kinds that separate the type traits. Dimensionality 0 (Properties_Rank0.v, Model/LifeRank0.v: 27 rank-0 entry points as programs over the same checked micro-steps): C04_rank0_history_invariant (any fault-free history of rank-0 construction / copy / move / assignment from arrays, elements, references and convertible arrays / both swaps / writes / destruction, any element traits), C04_rank0_history_invariant_under_faults, C04_rank0_one_constructed_cell, C04_rank0_storage_disjoint, C04_rank0_value_semantics, C04_rank0_operation_refines, C04_rank0_copy_independent(_of_source), C04_rank0_move_{ctor,assign}_transfers (value arrives, no element copied, source stays a valid one-element array: a rank-0 array is never empty), C04_rank0_swap_exchanges, C04_rank0_self_{copy,move}_assign_noop, C04_rank0_assign_{element,reference}_exact.  Tie: 100 compile probes of every rank-0 spelling C04 needs (g++ and clang++, assertions on and off) + h_rank0 vs the extracted machine over 5 element kinds.',
        design_ref="5/C04", technique='Coq proof (ownership invariant of an executable lifecycle machine, Hoare triples with an exceptional postcondition, induction over histories and loops) + extracted-model vs library differential on random histories with an instrumented element type and allocator',
        note="Coq 8.16.1 kernel; every property theorem 'Closed under the global context'; one model coq/Model/Life.v (26 entry points as programs over checked micro-steps; element type given by three traits: trivially default constructible, trivially destructible, trivially copyable) shared by C04/C06/C08/C09/C10; the refinement of the machine to the reference interpreter over element VALUES is proved (C04_value_semantics, one commuting square per operation) and additionally evaluated on every generated history; hypotheses: every extensions argument has D dimensions, value lists have the announced length; faults: single injection point per run; rank 0 through Model/LifeRank0.v; ExtrOcamlBasic extraction; g++ 12/libstdc++"),
    "C06": dict(
        text='Theorems C06_history_invariant, C06_reextent_same_noop (both overloads: same block, iterators and views stay valid), C06_clear_empty_valid, C06_reshape_flat, C06_reextent_reference_spec (for any old/new extensions the reference function keeps exactly the common index tuples and fills the rest), and on the MACHINE: C06_reextent_spec (reextent(x) / reextent(x, v) from any extensions to any extensions of the same rank with sizes >= 0, incl. empty, zero-inner-extent and re-based ones: the array reports the collapsed new extensions, an index tuple of the new extensions that lies in the old ones keeps its value, every other one reads the fill value or the value-initialised element), C06_reextent_new_elements_value_initialised (value-initialised = 0 for every element type that is not trivially default constructible, whatever its destructor), C06_reshape_flat_values, C06_assign_contents (assign(first,last) / = {nested list}: exactly the requested contents), C06_assign_fill_contents. Tie: element values after every call on generated (old, new) extension pairs, four element kinds.',
        design_ref="5/C06", technique='Coq proof (ownership invariant of an executable lifecycle machine, Hoare triples with an exceptional postcondition, induction over histories and loops) + extracted-model vs library differential on random histories with an instrumented element type and allocator',
        note="Coq 8.16.1 kernel; every property theorem 'Closed under the global context'; one model coq/Model/Life.v (26 entry points as programs over checked micro-steps; element type given by three traits: trivially default constructible, trivially destructible, trivially copyable) shared by C04/C06/C08/C09/C10; the refinement of the machine to the reference interpreter over element VALUES is proved (C04_value_semantics, one commuting square per operation) and additionally evaluated on every generated history; hypotheses: every extensions argument has D dimensions, value lists have the announced length; faults: single injection point per run; rank 0 through Model/LifeRank0.v; ExtrOcamlBasic extraction; g++ 12/libstdc++"),
    "C08": dict(
        text='Theorems C08_lifetime_invariant (every history of every operation in its documented domain: the checked interpreter never reports constructing over a live object, destroying/reading/assigning a raw one, releasing an unknown or dead block, with the wrong size, through an unequal allocator or with live elements; every live block is owned by exactly one array and fully constructed), C08_balanced_at_end, C08_trivial_not_written, C08_reextent_trivial_not_written (reextent without a fill value leaves the new elements of every trivially default constructible element type unwritten: they read the allocator\'s paint; nothing assumed about copy operations).',
        design_ref="5/C08", technique='Coq proof (ownership invariant of an executable lifecycle machine, Hoare triples with an exceptional postcondition, induction over histories and loops) + extracted-model vs library differential on random histories with an instrumented element type and allocator',
        note="Coq 8.16.1 kernel; every property theorem 'Closed under the global context'; one model coq/Model/Life.v (26 entry points as programs over checked micro-steps; element type given by three traits: trivially default constructible, trivially destructible, trivially copyable) shared by C04/C06/C08/C09/C10; the refinement of the machine to the reference interpreter over element VALUES is proved (C04_value_semantics, one commuting square per operation) and additionally evaluated on every generated history; hypotheses: every extensions argument has D dimensions, value lists have the announced length; faults: single injection point per run; rank 0 through Model/LifeRank0.v; ExtrOcamlBasic extraction; g++ 12/libstdc++"),
    "C09": dict(
        text='Theorem C09_fault_safety_partial (every history, every single injection point k at an allocation or element construction/assignment outside three named sites: the exception reaches the caller, nothing leaks, nothing is released twice, every array stays valid, temporaries are unwound), C09_{ctor_leak,reextent_leak,reextent_move}_refuted with vm_compute witnesses reproduced on the library (three known findings: constructors leak their block when an element constructor throws; reextent & leaks its new block; reextent && leaves an invalid array when allocation fails); no-storage operations do not allocate (move construction, swap); assignment through views (row = row, view = view, elements() = elements(); named, temporary and moved forms) is an operation of every history: C09_fault_safety_partial covers it (its fault site is an element assignment), C09_view_assign_keeps_arrays; tie: std::terminate in the harness child is a violation. Dimensionality 0 (Properties_Rank0.v): C09_rank0_fault_safety (every history of the 27 rank-0 entry points, every single injection point outside the constructor site, every element and allocator configuration: the exception reaches the caller, no leak, every array valid) and C09_rank0_ctor_leak_refuted (known finding). Tie: h_rank0 under fault injection (one injection point per run, every fallible event of every history; five allocator configurations incl. pmr; compared with the extracted machine under the same oracle; std::terminate in the child is a violation). Old-or-new VALUE after a failed operation and honest noexcept specifications are shown by the tie, not by the theorem.',
        design_ref="5/C09", technique='Coq proof (ownership invariant of an executable lifecycle machine, Hoare triples with an exceptional postcondition, induction over histories and loops) + extracted-model vs library differential on random histories with an instrumented element type and allocator',
        note="Coq 8.16.1 kernel; every property theorem 'Closed under the global context'; one model coq/Model/Life.v (26 entry points as programs over checked micro-steps; element type given by three traits: trivially default constructible, trivially destructible, trivially copyable) shared by C04/C06/C08/C09/C10; the refinement of the machine to the reference interpreter over element VALUES is proved (C04_value_semantics, one commuting square per operation) and additionally evaluated on every generated history; hypotheses: every extensions argument has D dimensions, value lists have the announced length; faults: single injection point per run; rank 0 through Model/LifeRank0.v; ExtrOcamlBasic extraction; g++ 12/libstdc++"),
    "C10": dict(
        text="Theorems C10_block_stays_with_allocator (every release goes through an allocator equal to the producer: part of the checked interpreter's invariant, for every history and all 16 trait configurations) and the propagation theorems: copy construction uses select_on_container_copy_construction, copy assignment / move assignment / swap replace the allocator exactly under POCCA / POCMA / POCS, allocator-extended constructors use the supplied allocator, moves between unequal non-propagating allocators move elements, never the block. Tie on the trait configurations plus std::pmr arrays over two logging memory resources. Dimensionality 0 (Properties_Rank0.v, Model/LifeRank0.v; a rank-0 array always owns one element, so nothing ever detaches a block: move construction and assignment move the ELEMENT): C10_rank0_block_stays_with_allocator (and _under_faults), C10_rank0_block_owner_is_own_allocator, C10_rank0_copy_ctor_uses_select_on_container_copy_construction, C10_rank0_move_ctor_takes_source_allocator, C10_rank0_ctor_uses_supplied_allocator (nine constructors), C10_rank0_copy_assign_follows_pocca and C10_rank0_move_assign_follows_pocma, C10_rank0_swap_follows_pocs, C10_rank0_std_swap_is_three_moves, C10_rank0_elementwise_keeps_allocators; all for every one of the 16 trait combinations x three select_on_container_copy_construction behaviours. Tie: h_rank0 in the 16 trait configurations x {socc same, child} and std::pmr over logging resources, allocator id and per-instance ledger compared after every operation.",
        design_ref="5/C10", technique='Coq proof (ownership invariant of an executable lifecycle machine, Hoare triples with an exceptional postcondition, induction over histories and loops) + extracted-model vs library differential on random histories with an instrumented element type and allocator',
        note="Coq 8.16.1 kernel; every property theorem 'Closed under the global context'; one model coq/Model/Life.v (26 entry points as programs over checked micro-steps; element type given by three traits: trivially default constructible, trivially destructible, trivially copyable) shared by C04/C06/C08/C09/C10; the refinement of the machine to the reference interpreter over element VALUES is proved (C04_value_semantics, one commuting square per operation) and additionally evaluated on every generated history; hypotheses: every extensions argument has D dimensions, value lists have the announced length; faults: single injection point per run; rank 0 through Model/LifeRank0.v; ExtrOcamlBasic extraction; g++ 12/libstdc++"),
}

NOT_YET = {
}


def main():
    props = [json.loads(l)["id"] for l in open(os.path.join(VERIF, "properties.jsonl"))]
    checks, na = [], []
    for pid in props:
        if pid in CHECKS:
            c = CHECKS[pid]
            checks.append({
                "property_id": pid,
                "quick_cmd": "./check %s --tier quick" % pid,
                "thorough_cmd": "./check %s --tier thorough" % pid,
                "evidence_file": "evidence/%s.json" % pid,
                "replay_cmd_template": "./check %s --replay {path}" % pid,
                "engine": "coq+correspondence",
                "level_claimed": {"category": c.get("category", "proof"), "text": c["text"], "design_ref": c["design_ref"]},
                "level_note": c.get("note", TRUST),
                "technique": c["technique"],
            })
        else:
            na.append({"property_id": pid, "reason": NOT_YET.get(pid, "check not built yet in this round (design in DESIGN.md section 5); "
                                                                      "not claimed until its quick check is green on the unchanged tree")})
    m = {
        "version": 1,
        "setup_cmd": "./setup.sh",
        "hooks": {"guard": "BOOST_MULTI_VERIF_HOOKS", "enable": "no hooks are needed: all observation is from outside the library "
                  "(public API, instrumented template arguments, symbol interposition, compile-time traits)",
                  "baseline_off_cmd": BASELINE, "source_commits": [], "add_only": True},
        "engines": [{"name": "coq+correspondence", "path": "check", "serves_properties": [c["property_id"] for c in checks],
                     "kind_free_text": "Coq 8.16.1 development in coq/ (model, proofs, property files) + extracted OCaml model "
                                       "driver + C++ harnesses compiled against /repo/include on every run"}],
        "checks": checks,
        "not_applicable": na,
        "notes": "See DESIGN.md. Genuine defects of the pinned tree are listed in known_findings.json.",
    }
    with open(os.path.join(VERIF, "MANIFEST.json"), "w") as f:
        json.dump(m, f, indent=1)
        f.write("\n")


if __name__ == "__main__":
    main()

"""C10 -- storage stays with the allocator that produced it; propagation follows traits.
Proof: coq/Properties/Properties_C10.v.  Tie: h_life instantiated for all 16 combinations of
propagate_on_container_{copy_assignment,move_assignment,swap} x is_always_equal (instrumented allocator with instance
ids and a per-instance ledger) plus std::pmr::polymorphic_allocator over logging memory resources; two to four unequal
instances per history; get_allocator() id and the (instance, n) of every outstanding block compared after every
operation; the ledger checks at every deallocate that the releasing instance equals the producing one.
Dimensionality 0 (array<T, 0, A>): vlib/rank0.py -- coq/Properties/Properties_Rank0.v (C10_rank0_*), harness/h_rank0.cpp in the
same 16 trait configurations x {select_on_container_copy_construction returns the same / a child instance} and pmr."""
from . import core, lifecommon as lc, rank0

PID = "C10"


def plan(tier):
    q = tier == "quick"
    n = 900 if q else 8000
    mo = 16 if q else 40
    out = [{"kind": "c10", "cfg": c, "count": n, "maxops": mo} for c in lc.all_trait_configs(d=2, t=1)]
    out.append({"kind": "c10", "cfg": lc.cfg(d=2, t=1, pmr=1), "count": 2 * n, "maxops": mo})
    out.append({"kind": "c10", "cfg": lc.cfg(d=1, t=1, pmr=1), "count": n, "maxops": mo})
    out.append({"kind": "c10", "cfg": lc.cfg(d=1, t=0, pocca=1, pocma=0, pocs=1, socc=1), "count": n, "maxops": mo})
    out.append({"kind": "c10", "cfg": lc.cfg(d=3, t=1, pocca=0, pocma=1, pocs=0, socc=1), "count": n, "maxops": mo})
    return out


def run(tier, seed, replay=None):
    if replay:
        res = core.Result(PID, tier, seed, level="proof")
        if rank0.is_rank0_replay(replay):
            rank0.replay(res, PID, replay)
        else:
            lc.replay(res, PID, replay)
        return res.finish()
    res, _exes = lc.run_family(
        PID, tier, seed, plan(tier),
        rule="random fault-free histories for each of the 16 trait configurations and for pmr: arrays are created on "
             "allocator instances 0 (default-constructed), 1, 2, 3 and mixed by copy/move construction (plain and "
             "allocator-extended), copy/move assignment (same and different extensions), assignment from views/ranges "
             "(which go through a default-allocator temporary), swap (only when the standard allows it: propagating or "
             "equal), reextent, clear; select_on_container_copy_construction returns either the same instance or a "
             "distinguishable child instance (id + 1000), pmr returns the default resource; non-trivial = at least 4 "
             "operations; distinct by hash of (configuration, history)",
        not_exercised=["fancy pointers", "scoped_allocator_adaptor", "rank 4"],
        assumptions=["swap of unequal non-propagating allocators is undefined by the container requirements and is excluded"])
    rank0.run_family(res, tier, seed, PID)     # dimensionality 0: compile probes + h_rank0 (coverage under "rank0")
    return res.finish()

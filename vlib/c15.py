"""C15 -- FFTW adaptor.  Proof: coq/Properties/Properties_C15.v (plan index set == view index set split by
the mask, output frame, call shape, pointers = first elements for any index base, planner flags for every size;
DFT value / input preservation / forward-backward relative to the FFTW contracts for executing AND for creating
a plan).  Tie: h_fftw_c15 (+ interposed fftw_plan_guru64_dft / fftw_execute_dft / fftw_destroy_plan, the arrays
compared across the planning call) vs the extracted model, and direct monitors against an O(N^2) long-double DFT."""
import glob
import hashlib
import json
import os
import re
import tempfile
import time

from . import core

PID = "C15"
DRIVER = "driver_c15"
HARNESS = "h_fftw_c15"
SOURCES = ["h_fftw_c15.cpp", "interpose_fftw_c15.cpp"]
LIBS = ("-lfftw3", "-ldl")

def workdir():
    d = os.path.join(core.BUILD, "work", PID)
    os.makedirs(d, exist_ok=True)
    return d


def ensure_driver():
    return core.ensure_driver_for("c15", "ExtractC15.v", ["c15_zu.ml", "c15_driver.ml"], DRIVER, model_base="modelc15")


def generate(seed, pairs, empty_pairs, maxd=4, prefix="c", lazy_pairs=0, large_a=0, large_b=0):
    d = workdir()
    tag = "%s_%d" % (prefix, os.getpid())       # concurrent checks do not share scratch files
    prog, obs = os.path.join(d, "prog_%s.txt" % tag), os.path.join(d, "obs_%s.txt" % tag)
    rc, out, err = core.sh([os.path.join(core.BIN, DRIVER), "gen", "--seed", str(seed), "--pairs", str(pairs),
                            "--empty-pairs", str(empty_pairs), "--lazy-pairs", str(lazy_pairs), "--large-a", str(large_a), "--large-b", str(large_b),
                            "--maxd", str(maxd), "--prefix", prefix,
                            "--prog", prog, "--obs", obs], timeout=900)
    if rc != 0:
        raise RuntimeError("driver_c15 gen failed: " + err[-2000:])
    try:
        dist = json.loads(out.strip().splitlines()[-1])
    except Exception:
        dist = {}
    texts = open(prog).read(), open(obs).read()
    for f in (prog, obs):
        try:
            os.remove(f)
        except OSError:
            pass
    return texts[0], texts[1], dist


def model_run(prog_text):
    d = workdir()
    fd, p = tempfile.mkstemp(dir=d, suffix=".prog")
    os.write(fd, prog_text.encode())
    os.close(fd)
    o = p + ".obs"
    rc, out, err = core.sh([os.path.join(core.BIN, DRIVER), "run", "--prog", p, "--obs", o], timeout=300)
    txt = open(o).read() if os.path.exists(o) else ""
    for f in (p, o):
        try:
            os.remove(f)
        except OSError:
            pass
    if rc != 0:
        raise RuntimeError("driver_c15 run failed: " + err[-2000:])
    return txt


def strip_info(impl_text):
    """I lines carry the numbers behind the monitors (errors, tolerances); they are not compared."""
    return "".join(l + "\n" for l in impl_text.splitlines() if not l.startswith("I "))


M_RE = re.compile(r"^M (\S+) dft=(\d) input=(\d) frame=(\d) guards=(\d) fb=(\d) planflags=(\d) planpure=(\d)$")


def monitors(impl_text):
    """Direct property monitors on the implementation's own output, independent of the model."""
    bad = []
    for line in impl_text.splitlines():
        m = M_RE.match(line)
        if not m:
            continue
        names = ["result-differs-from-direct-dft", "input-modified", "wrote-outside-output-view", "guard-cells-modified",
                 "forward-backward-not-N-times-identity", "planner-flags-do-not-protect-the-arrays-or-the-input",
                 "arrays-modified-by-the-planning-call"]
        for name, v in zip(names, m.groups()[1:]):
            if v != "1":
                bad.append((m.group(1), name, line))
    return bad


def is_empty_case(lines):
    """the views have no element (some extent is 0)"""
    for l in lines:
        if l.startswith("V "):
            m = re.search(r" in sizes=(\S*) ", l)
            return bool(m) and "0" in m.group(1).split(",")
    return False


def classify(model_text, impl_text, crashes):
    """-> (failing: {case id: (found_by, model line, impl line)}, known: []).
    Cases whose views are empty are judged against the specification only (the call returns, nothing is
    written: V, W, M lines): whether FFTW is called at all for zero elements is not an observable of the
    property, so the G and X lines are not compared there.  No site of the current tree is a known finding
    (C15-F1 and C15-F2 were fixed by c24dd02 / a7e1e64), so every failure is a violation."""
    impl_cmp = strip_info(impl_text)
    m_by, i_by = core.by_case(model_text), core.by_case(impl_cmp)
    crashed = {cid: (rc, err) for cid, rc, err in crashes}
    failing, known = {}, []
    spec_only = {cid for cid, lines in m_by.items() if is_empty_case(lines)}
    for cid, what, line in monitors(impl_text):
        failing.setdefault(cid, ("monitor:" + what, "", line))
    for cid in m_by:
        if cid in crashed:
            rc, err = crashed[cid]
            failing[cid] = ("crash", "", "exit/signal %s: %s" % (rc, (err.strip().splitlines() or [""])[-1][-300:]))
    keep = lambda cid, l: cid not in spec_only or l[:2] in ("V ", "W ", "M ", "E ")
    m_cmp = "".join(l + "\n" for c, ls in m_by.items() for l in ls if keep(c, l))
    i_cmp = "".join(l + "\n" for c, ls in i_by.items() for l in ls if keep(c, l))
    for cid, ml, il in diff_cases_ordered(m_cmp, i_cmp, skip=set(crashed)):
        failing.setdefault(cid, ("correspondence", ml, il))
    for cid, rc, err in crashes:
        if cid not in m_by:
            failing.setdefault(cid, ("crash", "", "exit/signal %s" % rc))
    return failing, known


def diff_cases_ordered(model_text, impl_text, skip=()):
    """core.diff_cases, comparing the lines of a case as a sorted multiset of line kinds (the E line last)."""
    order = {"V": 0, "G": 1, "X": 2, "N": 3, "W": 4, "M": 5, "U": 6, "E": 7}
    def norm(text):
        d = core.by_case(text)
        return "".join(l + "\n" for c, ls in d.items() if c not in skip
                       for l in sorted(ls, key=lambda l: order.get(l[:1], 9)))
    return core.diff_cases(norm(model_text), norm(impl_text))


def case_fails(exe, block):
    """Re-run one case on both sides. Returns (found_by, model line, impl line) or None; 'out-of-domain' -> None."""
    obs = model_run(block)
    if "\nU " in "\n" + obs:
        return None
    impl, crashes = core.run_harness(exe, block, shards=1, timeout=20)
    failing, known = classify(obs, impl, crashes)
    if failing:
        return sorted(failing.values())[0]
    return None


def shrink(exe, block, kind=None):
    """Greedy: drop view operations, clear mask bits, normalise front end and sign, while the case still fails
    (and stays in the model's domain)."""
    lines = block.strip().splitlines()
    changed = True
    budget = 60
    deadline = time.time() + 25
    while changed and budget > 0 and time.time() < deadline:
        changed = False
        cands = []
        for k, l in enumerate(lines):
            if l.startswith("inop ") or l.startswith("outop "):
                cands.append(lines[:k] + lines[k + 1:])
            if l.startswith("which "):
                bits = l.split()[1:]
                for j, b in enumerate(bits):
                    if b == "1":
                        nb = bits[:j] + ["0"] + bits[j + 1:]
                        cands.append(lines[:k] + ["which " + " ".join(nb)] + lines[k + 1:])
            if l.startswith("inbase ") or l.startswith("outbase "):
                cands.append(lines[:k] + lines[k + 1:])
            if l.startswith("api ") and l != "api dft":
                cands.append(lines[:k] + ["api dft"] + lines[k + 1:])
            if l == "sign 1":
                cands.append(lines[:k] + ["sign -1"] + lines[k + 1:])
        for cand in cands:
            budget -= 1
            if budget <= 0:
                break
            text = "\n".join(cand) + "\n"
            try:
                r = case_fails(exe, text)
            except RuntimeError:
                r = None
            if r and (kind is None or r[0].split(":")[0] == kind):     # keep the kind of evidence
                lines = cand
                changed = True
                break
    return "\n".join(lines) + "\n"


def report(res, exe, blocks, failing, known, max_report=4):
    for cid, rec, detail in known:
        kf = core.match_known(PID, rec)
        if kf:
            res.known_finding(kf)
        else:
            failing.setdefault(cid, ("crash:" + rec["trigger"], "", detail))
    n_reported = 0
    # clearest evidence first: disagreements on an observable, then monitors, then crashes; small cases first
    # (a failed monitor = the property itself is violated on a concrete input, shown by the library's own output)
    rank = lambda fb: 0 if fb.startswith("monitor") else (1 if fb.startswith("correspondence") else 2)
    for cid in sorted(failing, key=lambda c: (rank(failing[c][0]), len(blocks.get(c, "")), c)):
        if n_reported >= max_report:
            break
        found_by, ml, il = failing[cid]
        block = blocks.get(cid)
        if block is None:
            continue
        n_reported += 1
        small, r = block, (found_by, ml, il)
        try:
            s = shrink(exe, block, kind=found_by.split(":")[0])
            r2 = case_fails(exe, s)
            if r2 and r2[0].split(":")[0] == found_by.split(":")[0]:
                small, r = s, r2
        except RuntimeError:
            pass
        path = core.write_replay(PID, small, {
            "property": PID, "tier": res.tier, "seed": res.seed, "found-by": r[0],
            "model-said": r[1], "implementation-said": r[2],
            "note": "model = the adaptor's plan builder as proved in Properties_C15.v; M lines are direct monitors "
                    "(O(N^2) long-double DFT, input copy, frame, guards, forward-backward, planner flags by FFTW's documented "
                    "contract, arrays unchanged across the planning call); "
                    "replay: ./check C15 --replay <this file>"})
        res.violation(path, "%s: model %r impl %r" % (r[0], r[1], r[2]))
    return len(failing)


def nontrivial_distinct(prog_text, obs_text):
    """distinct = hash of the case text without its id; non-trivial = the plan has at least one transform
    dimension of extent >= 2 (a real DFT happens) and the view has at least 2 elements."""
    nontriv = set()
    for line in obs_text.splitlines():
        if line.startswith("G "):
            parts = line.split()
            dims = [p for p in parts if p.startswith("dims=")][0][5:]
            if any(int(d.split(":")[0]) >= 2 for d in dims.split(",") if d):
                nontriv.add(parts[1])
    seen = set()
    for cid, block in core.split_cases(prog_text):
        if cid in nontriv:
            body = "\n".join(block.splitlines()[1:])
            seen.add(hashlib.sha256(body.encode()).hexdigest())
    return len(seen)


def prepare(res):
    coq = core.coq_check_property(PID)
    core.proof_coverage(res, coq)
    ok_d, log_d = ensure_driver()
    ok_h, exe, log_h = core.build_harness(HARNESS, SOURCES, libs=LIBS)
    problems = []
    if not ok_d:
        problems.append(("build:model-extraction-or-driver_c15", log_d))
    if not ok_h:
        problems.append(("build:harness-%s-does-not-compile-against-%s" % (HARNESS, core.INCLUDE), log_h))
    if problems:
        for step, log in problems:
            path = core.write_replay(PID, "", {"property": PID, "found-by": step, "log": log[-3000:]})
            res.violation(path, step, no_input=True)
        return None
    return coq, exe


def vm_compute_crosscheck(res, prog_text, n=150):
    """Thorough tier: a sub-sample of the generated cases is re-evaluated inside coqc (vm_compute) and must
    equal what the extracted OCaml model said; bounds the trust in extraction and in the driver's conversions."""
    d = workdir()
    blocks = core.split_cases(prog_text)[:n]
    p = os.path.join(d, "crosscheck.prog")
    open(p, "w").write("".join(b for _c, b in blocks))
    v = os.path.join(d, "CrossCheckC15.v")       # (a fixed name: coqc derives the module name from it)
    rc, out, err = core.sh([os.path.join(core.BIN, DRIVER), "coq", "--prog", p, "--out", v], timeout=300)
    if rc != 0:
        return {"ok": False, "log": err[-2000:], "cases": 0}
    rc, out, err = core.sh(["coqc", "-Q", core.COQ, "BM", v], cwd=d, timeout=1200)
    return {"ok": rc == 0, "log": (out + err)[-2000:], "cases": len(blocks)}


def run(tier, seed, replay=None):
    res = core.Result(PID, tier, seed, level="proof")
    prep = prepare(res)
    if prep is None:
        return res.finish()
    coq, exe = prep
    if replay:
        block = "".join(l for l in open(replay) if not l.startswith("#"))
        if not block.strip():
            print("replay names a build/proof step, no input to run")
            return res.finish()
        obs = model_run(block)
        impl, crashes = core.run_harness(exe, block, shards=1, timeout=300)
        failing, known = classify(obs, impl, crashes)
        print("model:\n" + obs + "implementation:\n" + impl)
        for cid, rec, detail in known:
            kf = core.match_known(PID, rec)
            if kf:
                res.known_finding(kf)
            else:
                failing.setdefault(cid, ("crash:" + rec["trigger"], "", detail))
        print("replay verdict:", sorted(failing.values()) if failing else "agrees (no violation)")
        if failing:
            res.violation(os.path.relpath(os.path.abspath(replay), core.VERIF), str(sorted(failing.values())[0]))
        return res.finish()

    pairs = 1000 if tier == "quick" else 30000
    empties = 8 if tier == "quick" else 40
    progs, obss = [], []
    for f in sorted(glob.glob(os.path.join(core.VERIF, "corpus", PID, "*.prog"))):
        block = "".join(l for l in open(f) if not l.startswith("#"))
        progs.append(block)
        obss.append(model_run(block))
    n_corpus = sum(len(core.split_cases(p)) for p in progs)
    lazies = 12 if tier == "quick" else 120
    large_a, large_b = (4, 3) if tier == "quick" else (16, 8)
    p, o, dist = generate(seed, pairs, empties, lazy_pairs=lazies, large_a=large_a, large_b=large_b)
    progs.append(p)
    obss.append(o)
    prog_text, obs_text = "".join(progs), "".join(obss)
    impl_text, crashes = core.run_harness(exe, prog_text, timeout=(90 if tier == "quick" else 600))
    failing, known = classify(obs_text, impl_text, crashes)
    blocks = dict(core.split_cases(prog_text))
    n_failing = report(res, exe, blocks, failing, known)

    extra = {}
    if tier == "thorough":
        # the same cases under AddressSanitizer + UBSan (library headers instrumented; FFTW itself is not)
        ok_a, exe_a, log_a = core.build_harness(HARNESS, SOURCES, flags=("-fsanitize=address,undefined", "-fno-sanitize-recover=all",
                                                                          "-fno-omit-frame-pointer"), libs=LIBS, tag="-asan")
        if ok_a:
            obs_by = core.by_case(obs_text)
            sub_cases = core.split_cases(prog_text)[:20000]
            sub = "".join(b for _c, b in sub_cases)
            impl_a, crashes_a = core.run_harness(exe_a, sub, timeout=1200, env={"ASAN_OPTIONS": "detect_leaks=1"})
            sub_ids = {c for c, _b in sub_cases}
            obs_sub = "".join(l + "\n" for c in sub_ids for l in obs_by.get(c, []))
            failing_a, known_a = classify(obs_sub, impl_a, crashes_a)
            n_failing += report(res, exe_a, blocks, failing_a, known_a)
            extra["sanitizer_cases"] = len(sub_ids)
        else:
            extra["sanitizer_build"] = "failed: " + log_a[-500:]
        cc = vm_compute_crosscheck(res, prog_text)
        extra["vm_compute_crosscheck_cases"] = cc["cases"]
        if not cc["ok"]:
            path = core.write_replay(PID, "", {"property": PID, "found-by": "extraction-vs-vm_compute", "log": cc["log"]})
            res.violation(path, "extracted model disagrees with vm_compute", no_input=True)

    if not coq["ok"] and n_failing == 0:
        path = core.write_replay(PID, "", {"property": PID, "found-by": "proof:Properties_%s.v" % PID, "log": coq["log"][-3000:],
                                           "obligations": coq["obligations"], "discharged": coq["discharged"]})
        res.violation(path, "proof obligations no longer check", no_input=True)

    cases = core.split_cases(prog_text)
    by_obs = core.by_case(obs_text)
    samples = []
    for cid, block in cases:
        if block.count("op ") >= 3 and " 1" in [l for l in block.splitlines() if l.startswith("which")][0]:
            samples.append({"case": block, "model_observations": by_obs.get(cid, [])})
        if len(samples) >= 2:
            break
    n_empty = sum(1 for ls in by_obs.values() if is_empty_case(ls))
    n_lazy = sum(1 for _c, b in cases if "api fftrange" in b)
    # measured on the implementation's side: size classes and index bases of the cases that actually ran
    size_classes = {"<=2^16": 0, "(2^16,2^20]": 0, ">2^20": 0}
    largest = 0
    for l in impl_text.splitlines():
        if l.startswith("I "):
            m = re.search(r" N=(\d+) ", l)
            if m:
                n = int(m.group(1))
                largest = max(largest, n)
                size_classes["<=2^16" if n <= 65536 else ("(2^16,2^20]" if n <= 1048576 else ">2^20")] += 1
    n_based = 0
    for l in impl_text.splitlines():
        if l.startswith("V "):
            firsts = re.findall(r" first=(\S+)", l)
            if any(f not in ("0", "*") for fs in firsts for f in fs.split(",")):
                n_based += 1
    n_plan_calls = sum(1 for l in impl_text.splitlines() if l.startswith("G "))
    res.coverage.update({
        "evaluations": len(cases),
        "distinct_nontrivial": nontrivial_distinct(prog_text, obs_text),
        "rule": "layout pairs: D in 1..4 (weights 12/30/36/22), common view extents from {1..6} (weights 24/20/18/13/13/12, "
                "product <= 450); each side = a root array (60%%: padded sub-block with 0..2 extra cells before/after in every "
                "dimension, 20%% of those dimensions strided by 2 or 3) followed by 0..3 of rotated/unrotated/transposed/reversed; "
                "50%% of the pairs use index bases other than 0: root arrays over extensions starting at -3..5 (60%% of the "
                "dimensions), sub-blocks taken with blocked(a,b) (35%%), reindexed(i) among the permuting operations, and a final "
                "reindexed(i,j,..) that gives both views the same first indices (the input's, the output's or fresh ones); "
                "output separate (62%%), the same view = in place (22%%), or a disjoint view of the same root (16%%); for every pair "
                "ALL 2^D masks, each with a random sign and front end (dft, dft 4-arg, dft_forward/dft_backward, plan::forward/"
                "backward + execute, fft::dft_forward/backward; in place: dft(which,v,dir), dft(which,v,v,dir), "
                "dft_backward(which,v)); plus %d pairs with one extent 0, %d pairs (D = 2, 3; plain arrays, permuted arrays, "
                "padded sub-blocks, half with index bases) through the lazy range form out = fft::dft(which, in, dir), %d pairs with "
                "more than 2^16 elements (shapes n, kxn, ~257x256, 2x~182x~181) and %d pairs with more than 2^20 elements (shapes n, "
                "kxn, ~1025x1024, 2x2xn), contiguous or permuted roots, half with index bases, in place and out of place, all masks, "
                "all front ends.  A case is non-trivial when the plan has a transform dimension of extent >= 2; distinct = by hash of "
                "the case text without its id.  Every case compares V (sizes, strides, base, first indices), G (the interposed "
                "fftw_plan_guru64_dft arguments incl. both pointers and the semantic planner flags), X (call order, both "
                "fftw_execute_dft pointers), W (changed cells; a digest above 20000 elements) and the M monitors."
                % (empties, lazies, large_a, large_b),
        "samples": samples,
        "generator_distribution": dist,
        "observation_lines_compared": sum(1 for l in obs_text.splitlines() if l[:2] in ("V ", "G ", "X ", "W ", "M ")),
        "layout_pairs": pairs,
        "corpus_cases": n_corpus,
        "disagreeing_cases": n_failing,
        "cases_with_an_empty_view": n_empty,
        "lazy_range_cases": n_lazy,
        "cases_with_a_nonzero_index_base": n_based,
        "cases_by_number_of_elements": size_classes,
        "largest_transform_elements": largest,
        "planning_calls_with_flags_and_pointers_compared": n_plan_calls,
        "monitors": ["result vs O(N^2) long-double direct DFT within 64 eps (1+log2 Nt) sqrt(Nt) max|x| (every output element "
                     "when N*Nt <= 2e7, else the first, the last and 62 hashed output elements)",
                     "input root bitwise unchanged (out-of-place)", "output root unchanged outside the output view",
                     "16 guard cells on both sides of both buffers", "forward then backward == Nt * x (every element)",
                     "planner flags of every planning call: FFTW_ESTIMATE or FFTW_WISDOM_ONLY present (FFTW's documented "
                     "condition for planning not to write to the arrays), not wisdom-only, FFTW_PRESERVE_INPUT present -- "
                     "judged on the flag word alone, for every size",
                     "both buffers bitwise identical before and after every (interposed) planning call"],
        "not_exercised": ["in/out views that overlap with different layouts (FFTW's in-place transposes): outside the theorem's domain",
                          "in/out views of equal sizes but different first indices (the adaptor asserts equal extensions)",
                          "extent-0 arrays with a null base pointer; explicit plan objects over an empty transformed dimension "
                          "(NULL plan: the asserted precondition of that interface, C20)",
                          "fftw::copy / fftw::transpose (declared, but fftw::copy does not exist at the pinned commit: uninstantiable)",
                          "fft::dft lazy range for D = 1 (does not compile at the pinned commit) and D = 4",
                          "transforms with more than ~1.6e6 elements; single dimensions longer than ~1.05e6; strides that are not "
                          "reachable from contiguous roots of that size",
                          "above 20000 elements the W line is a digest; above 300000 elements (or a dimension > 2000) the model's "
                          "side of it is computed by a native loop over the extracted plan's tensors, not by the extracted "
                          "plan_out_addresses",
                          "threads, MPI (fftw/mpi.hpp), cufft/hipfft"],
    })
    res.coverage.update(extra)
    res.assumptions = ["FFTW 3.3.10 as installed does what its manual says on its documented domain (guru_contract) -- "
                       "sampled by the O(N^2) monitor, not proved",
                       "creating a plan with FFTW_ESTIMATE does not write to the arrays (plan_contract, FFTW manual 4.3.2) -- "
                       "observed on every planning call by the interposer, not proved",
                       "DFT inversion for exp(2 pi i k/n) (tw_orthogonal) for the forward-backward theorem",
                       "no 64-bit overflow in index arithmetic", "g++ 12 / libstdc++ as installed"]
    return res.finish()
